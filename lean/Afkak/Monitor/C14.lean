import Afkak.Monitor.C13
/-! # Monitors for C14 (see `Monitor/C02.lean` for the conventions) -/
namespace Afkak.Monitor
open Afkak.Consumer
namespace C14

/-- delay before the retry that follows the `k`-th consecutive failure (counting from 0) -/
def delayAt (init maxD : Rat) : Nat → Rat
  | 0 => init
  | k + 1 => nextDelay maxD (delayAt init maxD k)

/-! ### Retry delays grow geometrically from the initial to the maximum delay and reset after a success -/

structure DlSt where
  k : Nat := 0            -- retries with back-off scheduled since the last successful reply
  inErr : Bool := false   -- the event being handled is a failed fetch/offset request
  prev : Option Rat := none  -- the previous back-off delay of this run of failures
  bad : Bool := false
  deriving DecidableEq, Repr

instance : HasBad DlSt := ⟨DlSt.bad⟩

/-- equal up to the rounding of the implementation's floating point arithmetic (relative 1e-9) -/
def closeTo (a b : Rat) : Bool := decide ((if a ≤ b then b - a else a - b) * 1000000000 ≤ 1 + (if 0 ≤ b then b else -b))

/-- the delays of one run of failures GROW up to the maximum, whatever the factor is: never shorter
    than the one before, strictly longer while below the maximum (and positive) -/
def grows (maxD : Rat) (prev : Option Rat) (d : Rat) : Bool :=
  match prev with
  | none => true
  | some p => decide (p ≤ d) && (decide (p < d) || decide (maxD ≤ d) || decide (p ≤ 0) || closeTo d maxD)

def dlStep (init maxD : Rat) (m : DlSt) : Item → DlSt
  | .ev (.fetchOk _ _) => { m with k := 0, inErr := false, prev := none }
  | .ev (.offsetOk _ _) => { m with k := 0, inErr := false, prev := none }
  | .ev (.offsetFetchOk _ _) => { m with k := 0, inErr := false, prev := none }
  | .ev (.fetchErr _ _ _) => { m with inErr := true }
  | .ev (.offsetErr _ _ _) => { m with inErr := true }
  | .ev (.offsetFetchErr _ _ _) => { m with inErr := true }
  | .ev _ => { m with inErr := false }
  | .ob (.probe _ _) => { m with inErr := false }
  | .ob (.setTimer .retry d) =>
    -- after a failed request: the back-off delay, nothing else.  Otherwise: the immediate refetch (0), or
    -- (a reply whose iteration raised part-way is handled as a failure) the back-off delay.
    if !m.inErr && d == 0 then m
    else if closeTo d (delayAt init maxD m.k) && (decide (maxD < init) || grows maxD m.prev d) then { m with k := m.k + 1, prev := some d }
    else { m with bad := true }
  | _ => m

def delaysOk (init maxD : Rat) (tr : List Item) : Bool := accepts (dlStep init maxD) {} tr

/-! ### Attempt limit `L > 0`: no retry after `L` consecutive failed attempts; `L = 0`: a retry is always scheduled -/

structure AtSt where
  cf : Nat := 0           -- consecutive failed fetch/offset requests in this run
  savedCf : Nat := 0
  inErr : Bool := false
  running : Bool := false     -- between an accepted `start()` and the end of `stop()`
  savedRunning : Bool := false
  shut : Bool := false        -- a graceful shutdown is in progress (it stops fetching on purpose)
  savedShut : Bool := false
  expect : Bool := false      -- a retry must be scheduled before this event is over
  fired : Bool := false       -- the start() Deferred of this run has fired
  savedFired : Bool := false
  expectFail : Bool := false  -- the attempt limit is reached: the start() Deferred must fail before this event is over
  bad : Bool := false
  deriving DecidableEq, Repr

instance : HasBad AtSt := ⟨AtSt.bad⟩

/-- a fetch/offset request failed with kind `k` -/
def atFail (limit : Nat) (reset : Option Int) (m : AtSt) (k : ErrKind) : AtSt :=
  { m with cf := m.cf + 1, inErr := true,
           expect := limit == 0 && m.running && !m.shut && !(k == .outOfRange && reset.isNone),
           -- (no `shut` condition: the code reports at the limit also while shutting down)
           expectFail := limit != 0 && decide (m.cf + 1 ≥ limit) && m.running && !m.fired }

def atStep (limit : Nat) (reset : Option Int) (m : AtSt) : Item → AtSt
  | .ev (.start _) => { m with cf := 0, savedCf := m.cf, inErr := false, running := true, savedRunning := m.running,
                               fired := false, savedFired := m.fired }
  | .ob .raisedRestart => { m with cf := m.savedCf, running := m.savedRunning, fired := m.savedFired }
  | .ob (.startFired r) =>
    (match r with
     | .err _ => { m with fired := true, expectFail := false }
     | .ok _ => if m.expectFail then { m with bad := true } else { m with fired := true })
  | .ev .shutdown => { m with shut := true, savedShut := m.shut, inErr := false }
  | .ob (.act .shutdown) => { m with shut := true, savedShut := m.shut }
  | .ob .shutdownRejected => { m with shut := m.savedShut }
  | .ob (.shutdownFired _) => { m with shut := false, running := false }
  | .ob (.stopReturned _) => { m with running := false }
  | .ev (.fetchOk _ r) => (match r.tail with | .raise _ _ => { m with cf := 1, inErr := true } | _ => { m with cf := 0, inErr := false })
  | .ev (.offsetOk _ _) => { m with cf := 0, inErr := false }
  | .ev (.offsetFetchOk _ _) => { m with cf := 0, inErr := false }
  | .ev (.fetchErr _ k _) => atFail limit reset m k
  | .ev (.offsetErr _ k _) => atFail limit reset m k
  | .ev (.offsetFetchErr _ k _) => atFail limit reset m k
  | .ev _ => { m with inErr := false }
  | .ob (.setTimer .retry _) =>
    if m.inErr && limit != 0 && m.cf ≥ limit then { m with bad := true } else { m with expect := false }
  | .ob (.probe _ _) => if m.expect || m.expectFail then { m with bad := true } else m
  | _ => m

def attemptsOk (limit : Nat) (reset : Option Int) (tr : List Item) : Bool := accepts (atStep limit reset) {} tr

/-! ### Out-of-range ⇒ the configured policy: fail, or restart from earliest / latest -/

structure RsSt where
  expect : Option Int := none     -- the next request must be an OffsetRequest for this time
  fetchAt : Option Int := none    -- the offset an OffsetRequest resolved to: the next fetch must ask for exactly it
  fatal : Option Nat := none      -- the event being handled is out-of-range (tag) and no policy is set
  reported : Bool := false
  fired : Bool := false           -- the start() Deferred of this run has fired already
  savedFired : Bool := false
  bad : Bool := false
  deriving DecidableEq, Repr

instance : HasBad RsSt := ⟨RsSt.bad⟩

def rsStep (reset : Option Int) (m : RsSt) : Item → RsSt
  | .ev (.fetchErr _ .outOfRange t) =>
    match reset with
    | none => { m with fatal := some t, reported := m.fired }
    | some r => { m with expect := some r, fatal := none }
  -- a restart overwrites the fetch position, so it cancels the expectation
  | .ev (.start _) => { m with fatal := none, fired := false, savedFired := m.fired, expect := none, fetchAt := none }
  -- the policy (and a start from earliest/latest) is carried out: fetching goes on exactly where the broker said
  | .ev (.offsetOk _ off) => { m with fatal := none, fetchAt := some off }
  | .ob .raisedRestart => { m with fired := m.savedFired }
  | .ev _ => { m with fatal := none }
  | .ob (.startFired r) =>
    if m.fatal.isSome then { m with fired := true, reported := (r == .err (.ext .outOfRange (m.fatal.getD 0))) }
    else { m with fired := true }
  | .ob (.crash _) => { m with reported := true }
  | .ob (.setTimer .retry _) => if m.fatal.isSome then { m with bad := true } else m
  | .ob (.fetch _ off _) =>
    if m.expect.isSome then { m with bad := true }
    else match m.fetchAt with
      | some e => if off == e then { m with fetchAt := none } else { m with bad := true }
      | none => m
  | .ob (.offsetFetch _) => if m.expect.isSome then { m with bad := true } else m
  | .ob (.offsets _ t) =>
    match m.expect with
    | some r => if t == r then { m with expect := none } else { m with bad := true }
    | none => m
  | .ob (.probe _ _) => if m.fatal.isSome && !m.reported then { m with bad := true } else { m with fatal := none }
  | _ => m

def resetOk (reset : Option Int) (tr : List Item) : Bool := accepts (rsStep reset) {} tr

/-! ### Buffer growth: ×16 up to 1 MiB, ×2 after, capped; fails only at the maximum; never shrinks -/

/-- the growth rule as the property states it (sixteen-fold up to 1 MiB, then doubling, capped) -/
def growSpec (buf : Nat) (max : Option Nat) : Option Nat :=
  let next := if buf ≤ 2 ^ 20 then buf * 16 else buf * 2
  match max with
  | none => some next
  | some m => if buf < m then some (min next m) else none

structure GrSt where
  buf : Nat
  credit : Nat := 0      -- too-small answers not yet reflected in a fetch request
  bad : Bool := false
  deriving DecidableEq, Repr

instance : HasBad GrSt := ⟨GrSt.bad⟩

def grStep (max : Option Nat) (m : GrSt) : Item → GrSt
  | .ev (.fetchOk _ r) => if r.tail == .small then { m with credit := m.credit + 1 } else m
  | .ob (.fetch _ _ mb) =>
    if mb == m.buf then m
    else if m.credit > 0 && growSpec m.buf max == some mb then { m with buf := mb, credit := m.credit - 1 } else { m with bad := true }
  | .ob (.startFired (.err .tooSmall)) => if m.credit > 0 && (growSpec m.buf max).isNone then m else { m with bad := true }
  | _ => m

def growthOk (init : Nat) (max : Option Nat) (tr : List Item) : Bool := accepts (grStep max) { buf := init } tr

/-! ### A too-small answer never moves the fetch position -/

structure NsSt where
  offs : List (Nat × Int) := []   -- fetch requests issued: (id, offset)
  expect : Option Int := none
  bad : Bool := false
  deriving DecidableEq, Repr

instance : HasBad NsSt := ⟨NsSt.bad⟩

def nsStep (m : NsSt) : Item → NsSt
  | .ob (.fetch k off _) =>
    match m.expect with
    | some e => if off == e then { m with offs := (k, off) :: m.offs, expect := none } else { m with bad := true }
    | none => { m with offs := (k, off) :: m.offs }
  | .ev (.fetchOk k r) =>
    if r.tail == .small && r.msgs.isEmpty then { m with expect := (m.offs.lookup k) } else m
  | .ev (.start _) => { m with expect := none }
  | .ev (.fetchErr _ .outOfRange _) => { m with expect := none }
  | _ => m

def neverSkipsOk (tr : List Item) : Bool := accepts nsStep {} tr

end C14
end Afkak.Monitor
