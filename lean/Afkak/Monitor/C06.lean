import Afkak.BrokerClient
import Afkak.BrokerClientR
import Afkak.Bootstrap
/-!
# Monitor for C06 — what the property demands of an observed trace of a broker connection

A trace is the list of `(event, observations of that event)` recorded at the boundary of
`_KafkaBrokerClient` (the same types the model produces).  The monitor keeps only what an outside
observer can know: which Deferreds were handed out and have not fired yet (`live`, in issue order),
the bytes received on the current connection, and the flags the environment itself set.  It does
NOT look at the request table.

`mstep` returns `none` when the step violates C06:

* a Deferred fires that was never handed out or has already fired (exactly once);
* a Deferred fires for a reason other than: the frame carrying its id completed in this step (and
  then with exactly those bytes), its own `cancel`, `close`, the write of a request that expects no
  reply, a failed write (own response, legitimate causes);
* the packets completed by the bytes of a step (framing as specified by `Frame.feed`, proved exact
  in `C06_reassembly`) do not fire exactly the live requests whose ids they carry, in order, and
  nothing else (no crosstalk: an unknown or cancelled id fires nothing);
* a length prefix above the limit is not answered by dropping the connection.

The driver evaluates `accepts` on traces recorded from the real `_KafkaBrokerClient`;
`AfkakProps/C06.lean` proves it of every trace of the model and derives the C06 statements from it.
-/
namespace Afkak.Monitor.C06
open Afkak.Frame Afkak.BrokerClient

structure Live where
  serial : Nat
  id : Int
  expect : Bool
  deriving DecidableEq, Repr

structure MSt where
  live : List Live
  nmake : Nat
  /-- number of the current connection -/
  conn : Option Nat
  /-- connections seen so far -/
  nconn : Nat
  /-- the transport still reads (no `lose` yet) -/
  reading : Bool
  buf : Bytes
  closed : Bool
  wfail : Bool
  deriving DecidableEq, Repr

def MSt.init : MSt :=
  { live := [], nmake := 0, conn := none, nconn := 0, reading := false, buf := [], closed := false, wfail := false }

/-- the Deferred firings among the observations of one step, in order -/
def fires : List Ob → List (Nat × Int × Res)
  | [] => []
  | .fire k i r :: os => (k, i, r) :: fires os
  | _ :: os => fires os

def isBad (os : List Ob) : Bool := os.contains .badOp

/-- What the packets `fs` must fire, given the live requests: each packet fires the live requests
    carrying its id (there is at most one) with exactly its bytes and removes them; a packet too
    short to carry an id stops the delivery (the connection dies).  Returns the firings, the
    remaining live requests and whether delivery was cut short. -/
def deliver (live : List Live) : List Bytes → List (Nat × Int × Res) × List Live × Bool
  | [] => ([], live, false)
  | f :: fs =>
    match corrId f with
    | none => ([], live, true)
    | some i =>
      let r := deliver (live.filter (fun l => l.id != i)) fs
      ((live.filter (fun l => l.id == i)).map (fun l => (l.serial, l.id, Res.ok f)) ++ r.1, r.2.1, r.2.2)

/-- `l₁` is a permutation of `l₂` (used for `close`, whose firing order is not part of the property). -/
def sameSet (l₁ l₂ : List (Nat × Int × Res)) : Bool := l₁.isPerm l₂

def mstep (m : MSt) : Ev × List Ob → Option MSt
  | (.make id expect, os) =>
    if os.contains (.raiseDup id) then (if fires os == [] then some m else none)
    else
      let k := m.nmake
      let m1 := { m with nmake := k + 1 }
      match fires os with
      | [] => if m.closed then none else some { m1 with live := m.live ++ [⟨k, id, expect⟩] }
      | [(k', i', .none)] =>
        if k' == k && i' == id && !expect && !m.closed && (m.conn.any fun c => os.contains (.write c k id) || os.contains (.writeLost c k id))
        then some m1 else none
      | [(k', i', .err .clientError)] => if k' == k && i' == id && m.closed then some m1 else none
      | [(k', i', .err .writeError)] => if k' == k && i' == id && m.wfail && !m.closed then some m1 else none
      | _ => none
  | (.cancel id, os) =>
    if fires os == (m.live.filter (fun l => l.id == id)).map (fun l => (l.serial, l.id, Res.err .cancelled))
    then some { m with live := m.live.filter (fun l => l.id != id) } else none
  | (.connOk, os) =>
    if isBad os then (if fires os == [] then some m else none)
    else
      let c := m.nconn
      let m1 := { m with conn := some c, nconn := c + 1, reading := !os.contains (.lose c), buf := [] }
      -- only requests that expect no reply may complete here (with `None`, after being written),
      -- or any request if the write fails
      let fs := fires os
      let legit := fs.all fun (k, i, r) =>
        (m.live.any fun l => l.serial == k && l.id == i &&
          ((r == .none && !l.expect && !m.wfail && os.contains (.write c k i)) || (r == .err .writeError && m.wfail)))
      let ks := fs.map (·.1)
      if legit && ks.Nodup then some { m1 with live := m.live.filter (fun l => !ks.contains l.serial) } else none
  | (.bytesIn chunk, os) =>
    if isBad os then (if fires os == [] then some m else none)
    else match m.conn with
      | none => none
      | some c =>
        if !m.reading then none
        else
          let f := feed m.buf chunk
          let d := deliver m.live f.frames
          if fires os != d.1 then none
          else if d.2.2 then some { m with live := d.2.1, conn := none, reading := false, buf := [] }
          else if f.exceeded then
            (if os.contains (.lose c) then some { m with live := d.2.1, reading := false, buf := f.buf } else none)
          else some { m with live := d.2.1, buf := f.buf, reading := !os.contains (.lose c) }
  | (.lost, os) =>
    if fires os != [] then none
    else if isBad os then some m else some { m with conn := none, reading := false, buf := [] }
  | (.close, os) =>
    if os.contains .raiseAssert then (if fires os == [] then some m else none)
    else if sameSet (fires os) (m.live.map fun l => (l.serial, l.id, Res.err .clientError))
    then some { m with live := [], closed := true, reading := false } else none
  | (.disconnect, os) =>
    if fires os == [] then some { m with reading := false } else none
  | (.writeFail on, os) => if fires os == [] then some { m with wfail := on } else none
  | (_, os) => if fires os == [] then some m else none

def mrun (m : MSt) : List (Ev × List Ob) → Option MSt
  | [] => some m
  | t :: ts => match mstep m t with
    | none => none
    | some m' => mrun m' ts

/-- index of the first violating step, if any -/
def firstBad (m : MSt) (n : Nat) : List (Ev × List Ob) → Option Nat
  | [] => none
  | t :: ts => match mstep m t with
    | none => some n
    | some m' => firstBad m' (n + 1) ts

def accepts (tr : List (Ev × List Ob)) : Bool := (mrun MSt.init tr).isSome

/-! ## Routing: a reply is delivered to the request it answers

The environment (the harness playing the broker) labels the replies it sends: bytes 4..12 of a reply
are the `serial` of the request frame being answered (requests carry their serial at that place).
A frame is an *honest first reply* when a request with that serial AND the frame's correlation id was
written on the current connection and no frame with that id has arrived since.  C06 ("a response is
never delivered to a different request") then demands: whatever such a frame fires is that serial.
Duplicates, unsolicited frames and frames for other connections are not constrained here (the core
monitor above constrains them). -/

structure RSt where
  /-- (serial, id) written on the current connection and not yet answered by a frame with that id -/
  inflight : List (Nat × Int)
  buf : Bytes
  deriving DecidableEq, Repr

def RSt.init : RSt := { inflight := [], buf := [] }

/-- the serial a reply echoes -/
def echo (b : Bytes) : Option Nat :=
  if b.length < 12 then none else some (natBE ((b.drop 4).take 8))

/-- writes add to `inflight`; a request that completes on being written (no reply expected) or whose
    write failed leaves it again.  A CANCELLED request stays: its late reply must still not reach
    anybody else. -/
def track (inflight : List (Nat × Int)) : List Ob → List (Nat × Int)
  | [] => inflight
  | .write _ k i :: os => track (inflight ++ [(k, i)]) os
  | .writeLost _ k i :: os => track (inflight ++ [(k, i)]) os
  | .fire k _ .none :: os => track (inflight.filter (fun p => p.1 != k)) os
  | .fire k _ (.err .writeError) :: os => track (inflight.filter (fun p => p.1 != k)) os
  | _ :: os => track inflight os

def frameIds : List Bytes → List Int
  | [] => []
  | f :: fs => match corrId f with
    | none => []
    | some i => i :: frameIds fs

/-- every reply that is an honest first reply to a request in `inflight` fires that request -/
def okRoute (inflight : List (Nat × Int)) (os : List Ob) : Bool :=
  (fires os).all fun x =>
    match x.2.2 with
    | .ok b => match echo b with
      | some k' => !(inflight.contains (k', x.2.1)) || x.1 == k'
      | none => true
    | _ => true

def rstep (m : RSt) : Ev × List Ob → Option RSt
  | (.bytesIn chunk, os) =>
    if isBad os then some m
    else
      let f := feed m.buf chunk
      if !okRoute m.inflight os then none
      else if os.contains .raiseUnderflow then some { inflight := [], buf := [] }
      else some { inflight := m.inflight.filter (fun p => !(frameIds f.frames).contains p.2), buf := f.buf }
  | (.connOk, os) => if isBad os then some m else some { inflight := track [] os, buf := [] }
  | (.lost, os) => if isBad os then some m else some { inflight := [], buf := [] }
  | (.close, os) => if os.contains .raiseAssert then some m else some { inflight := [], buf := m.buf }
  | (_, os) => some { m with inflight := track m.inflight os }

def rFirstBad (m : RSt) (n : Nat) : List (Ev × List Ob) → Option Nat
  | [] => none
  | t :: ts => match rstep m t with
    | none => some n
    | some m' => rFirstBad m' (n + 1) ts

def routesOk (tr : List (Ev × List Ob)) : Bool := (rFirstBad RSt.init 0 tr).isNone

/-! ## Re-entrant callbacks

Traces of `Afkak/BrokerClientR.lean` (and of the implementation driven with callbacks that call back
into the broker client): the observation stream carries the markers `made`, `closing`,
`hookBegin`/`hookEnd`.  What C06 demands of such a stream, whatever runs re-entrantly:

* a Deferred fires only after it was handed out, and at most once;
* `ok b` only with a packet that carries the request's correlation id;
* an attempt to fire a Deferred a second time (Twisted's `AlreadyCalledError` escaping from a call) is a
  violation even though no callback runs twice;
* exactly once at `close()`: every Deferred that is unfired when a `close()` goes ahead has fired by
  the time that `close()` call is over (the end of the step for a top-level call, the matching
  `hookEnd` for a re-entrant one) — `close()` may not be derailed by what the callbacks do. -/

structure RM where
  made : List Nat
  fired : List Nat
  depth : Nat
  /-- a `close()` is running: (hook depth at which it started, serials unfired then) -/
  mustFire : Option (Nat × List Nat)
  ok : Bool
  deriving DecidableEq, Repr

def RM.init : RM := { made := [], fired := [], depth := 0, mustFire := none, ok := true }

open Afkak.BrokerClientR in
def r06Ob (m : RM) : ObR → RM
  | .made k _ => { m with made := k :: m.made, ok := m.ok && !m.made.contains k }
  | .ob (.fire k i r) =>
    let own := match r with
      | .ok b => corrId b == some i
      | _ => true
    { m with fired := k :: m.fired, ok := m.ok && m.made.contains k && !m.fired.contains k && own }
  | .closing => { m with mustFire := some (m.depth, m.made.filter (fun k => !m.fired.contains k)) }
  | .hookBegin _ => { m with depth := m.depth + 1 }
  | .hookEnd =>
    match m.mustFire with
    | some (d, l) =>
      if d == m.depth then { m with depth := m.depth - 1, mustFire := none, ok := m.ok && m.depth != 0 && l.all (fun k => m.fired.contains k) }
      else { m with depth := m.depth - 1, ok := m.ok && m.depth != 0 }
    | none => { m with depth := m.depth - 1, ok := m.ok && m.depth != 0 }
  | .fuelOut => { m with ok := false }
  -- Twisted's AlreadyCalledError: the implementation tried to fire a Deferred a second time
  | .raisedOther w => { m with ok := m.ok && w != "other:AlreadyCalledError" }
  | _ => m

/-- end of a top-level step: all hooks have returned; a top-level `close()` is over -/
def r06End (m : RM) : RM :=
  match m.mustFire with
  | some (_, l) => { m with mustFire := none, ok := m.ok && m.depth == 0 && l.all (fun k => m.fired.contains k) }
  | none => { m with ok := m.ok && m.depth == 0 }

open Afkak.BrokerClientR in
def r06FirstBad (m : RM) (n : Nat) : List (EvR × List ObR) → Option Nat
  | [] => none
  | t :: ts =>
    let m' := r06End (t.2.foldl r06Ob m)
    if m'.ok then r06FirstBad m' (n + 1) ts else some n

open Afkak.BrokerClientR in
def r06 (tr : List (EvR × List ObR)) : Bool := (r06FirstBad RM.init 0 tr).isNone

/-! ## Framing: every packet handed to `stringReceived` is a frame of the byte stream

A trace of ONE protocol instance fed chunk by chunk — also by a transport that keeps delivering after
`loseConnection()` (a TLS transport, a test transport): `(chunk, packets handed to stringReceived during that
dataReceived)`.  Whatever the chunking and whatever follows an over-long prefix, every packet delivered must be one
of the frames of the byte stream received so far, parsed from its START (`(feed [] stream).frames`) — never bytes
read from a misaligned position.  (As written, `IntNStringReceiver` keeps the whole buffer after
`lengthLimitExceeded`, so a transport that keeps delivering makes it re-deliver genuine frames and stop at the same
prefix again; it never resynchronises inside the stream.) -/

def framesGenuine : Bytes → List (Bytes × List Bytes) → Bool
  | _, [] => true
  | sofar, (c, ps) :: rest =>
    ps.all (fun p => (feed [] (sofar ++ c)).frames.contains p) && framesGenuine (sofar ++ c) rest

def framesGenuineFirstBad (sofar : Bytes) (n : Nat) : List (Bytes × List Bytes) → Option Nat
  | [] => none
  | (c, ps) :: rest =>
    if ps.all (fun p => (feed [] (sofar ++ c)).frames.contains p) then framesGenuineFirstBad (sofar ++ c) (n + 1) rest
    else some n

/-- the model's own trace: `dataReceived` as written, called for every chunk (no transport stops it) -/
def feedTrace (buf : Bytes) : List Bytes → List (Bytes × List Bytes)
  | [] => []
  | c :: cs => (c, (feed buf c).frames) :: feedTrace (feed buf c).buf cs

/-! ## Bootstrap connection -/

def bootFires : List Bootstrap.Ob → List (Nat × Bootstrap.Res)
  | [] => []
  | .fire k r :: os => (k, r) :: bootFires os
  | _ :: os => bootFires os

structure BLive where
  serial : Nat
  cid : Bytes
  deriving DecidableEq, Repr

structure BSt where
  live : List BLive
  /-- the requests made on this connection whose reply has not arrived, cancelled ones INCLUDED (the late
      reply to a cancelled request is expected, not "unknown") -/
  awaited : List BLive
  nreq : Nat
  buf : Bytes
  reading : Bool
  lost : Bool
  /-- the reason the connection was lost with (meaningful once `lost`) -/
  reason : Bootstrap.Reason := .done
  deriving DecidableEq, Repr

def BSt.init : BSt := { live := [], awaited := [], nreq := 0, buf := [], reading := true, lost := false, reason := .done }

/-- Firings the packets `fs` must cause, and the requests still live afterwards. -/
def bootDeliver (live : List BLive) : List Bytes → List (Nat × Bootstrap.Res) × List BLive
  | [] => ([], live)
  | f :: fs =>
    let cid := Bootstrap.respCid f
    let r := bootDeliver (live.filter (fun l => l.cid != cid)) fs
    ((live.filter (fun l => l.cid == cid)).map (fun l => (l.serial, Bootstrap.Res.ok f)) ++ r.1, r.2)

/-- the awaited requests (live or cancelled) still unanswered after the packets `fs` -/
def bootRest (awaited : List BLive) : List Bytes → List BLive
  | [] => awaited
  | f :: fs => bootRest (awaited.filter (fun l => l.cid != Bootstrap.respCid f)) fs

/-- Number of packets among `fs` whose id is, when the packet is handled, not that of an awaited request (one
    made on this connection and not yet answered, cancelled or not): the packets nobody asked for. -/
def bootDrops (awaited : List BLive) : List Bytes → Nat
  | [] => 0
  | f :: fs =>
    if awaited.any (fun l => l.cid == Bootstrap.respCid f) then
      bootDrops (awaited.filter (fun l => l.cid != Bootstrap.respCid f)) fs
    else bootDrops awaited fs + 1

def sameFires (l₁ l₂ : List (Nat × Bootstrap.Res)) : Bool := l₁.isPerm l₂

/-- What C06 demands of a trace of one `KafkaBootstrapProtocol` connection: every request Deferred
    fires exactly once — `ok b` for the packet `b` completed in that step whose id bytes are the
    request's, `cancelled` by its own cancel, `connLost r` with the very reason `r` the connection was lost with
    (a request made after the loss fails at once with that same reason) — an
    over-long prefix drops the connection, and the protocol itself drops the connection (`lose`) for nothing
    else but a packet nobody asked for: a packet carrying the id of a request that was CANCELLED on this
    connection and not yet answered is expected, and is no reason to drop it (`bootDrops`).  With `strict = true` additionally "a frame whose id is
    unknown changes the outcome of no other request": the protocol itself must not drop the
    connection (other than for an over-long prefix) while requests are still pending. -/
def bstep (strict : Bool) (m : BSt) : Bootstrap.Ev × List Bootstrap.Ob → Option BSt
  | (.request payload, os) =>
    if os.contains .raiseAssert then (if bootFires os == [] then some m else none)
    else
      let k := m.nreq
      match bootFires os with
      | [] => if m.lost then none else some { m with nreq := k + 1, live := m.live ++ [⟨k, Bootstrap.reqCid payload⟩],
                                                      awaited := m.awaited ++ [⟨k, Bootstrap.reqCid payload⟩] }
      | [(k', .connLost r)] => if k' == k && m.lost && r == m.reason then some { m with nreq := k + 1 } else none
      | _ => none
  | (.cancel k, os) =>
    if os.contains .badOp then (if bootFires os == [] then some m else none)
    else if bootFires os == [(k, .cancelled)] && m.live.any (fun l => l.serial == k)
    then some { m with live := m.live.filter (fun l => l.serial != k) } else none
  | (.bytesIn chunk, os) =>
    if os.contains .badOp then (if bootFires os == [] then some m else none)
    else if !m.reading then none
    else
      let f := feed m.buf chunk
      let d := bootDeliver m.live f.frames
      if bootFires os != d.1 then none
      else
        let drops := os.count .lose
        if f.exceeded && drops == 0 then none
        else if drops > bootDrops m.awaited f.frames + (if f.exceeded then 1 else 0) then none
        else if strict && drops > (if f.exceeded then 1 else 0) && !d.2.isEmpty then none
        else some { m with live := d.2, awaited := bootRest m.awaited f.frames, buf := f.buf, reading := drops == 0 }
  | (.lost rsn, os) =>
    if os.contains .badOp then (if bootFires os == [] then some m else none)
    else if sameFires (bootFires os) (m.live.map fun l => (l.serial, Bootstrap.Res.connLost rsn))
    then some { m with live := [], awaited := [], lost := true, reading := false, reason := rsn } else none

def brun (strict : Bool) (m : BSt) : List (Bootstrap.Ev × List Bootstrap.Ob) → Option BSt
  | [] => some m
  | t :: ts => match bstep strict m t with
    | none => none
    | some m' => brun strict m' ts

def bootAccepts (strict : Bool) (tr : List (Bootstrap.Ev × List Bootstrap.Ob)) : Bool :=
  (brun strict BSt.init tr).isSome

end Afkak.Monitor.C06
