import Afkak.Assign
/-!
# Monitor for C15 — evaluated by the driver on IMPLEMENTATION outputs.

An *observed assignment* `obs` is, per listed member and in the order the leader produced them,
the member id and the `{topic: partitions}` map that member decodes from its encoded assignment.
The same predicates are proved of the model in `AfkakProps/C15.lean`.
-/
namespace Afkak.Monitor.C15
open Afkak.Assign

abbrev Obs := List (Str × Dict Str (List Int))

/-- `(topic, partition)` pairs of one member's map -/
def pairsOf (a : Dict Str (List Int)) : List (Str × Int) :=
  a.flatMap (fun e => e.2.map (fun p => (e.1, p)))

/-- every `(member, topic, partition)` the observation hands out -/
def triplesOf (obs : Obs) : List (Str × Str × Int) :=
  obs.flatMap (fun o => (pairsOf o.2).map (fun x => (o.1, x)))

/-- the union of the members' subscriptions -/
def subscribedTopics (members : List Member) : List Str := dedup (members.flatMap (·.2))

/-- The hypotheses under which C15 speaks: member ids are distinct (the coordinator guarantees it)
    and no topic lists a partition id twice. -/
def wellFormed (members : List Member) (tp : Dict Str (List Int)) : Bool :=
  decide (members.map (·.1)).Nodup && tp.all (fun e => decide e.2.Nodup)

/-- Every listed member receives exactly one assignment, in the order listed. -/
def answersAll (members : List Member) (obs : Obs) : Bool :=
  obs.map (·.1) == members.map (·.1)

/-- Every partition of every subscribed topic is handed to exactly one member. -/
def exactlyOnce (members : List Member) (tp : Dict Str (List Int)) (obs : Obs) : Bool :=
  (subscribedTopics members).all fun t =>
    match dget t tp with
    | none => false
    | some ps => ps.all fun p => ((triplesOf obs).map (·.2)).count (t, p) == 1

/-- Nothing else is handed out: every assigned pair is a partition of a subscribed topic. -/
def nothingElse (members : List Member) (tp : Dict Str (List Int)) (obs : Obs) : Bool :=
  (triplesOf obs).all fun x =>
    (subscribedTopics members).contains x.2.1 &&
      match dget x.2.1 tp with
      | none => false
      | some ps => ps.contains x.2.2

/-- A partition goes only to a member subscribed to its topic. -/
def onlySubscribed (members : List Member) (obs : Obs) : Bool :=
  (triplesOf obs).all fun x =>
    match dget x.1 members with
    | none => false
    | some subs => subs.contains x.2.1

/-- All members subscribe to the same set of topics. -/
def identicalSubs (members : List Member) : Bool :=
  members.all fun m => (subscribedTopics members).all fun t => m.2.contains t

/-- number of partitions one member received -/
def load (o : Str × Dict Str (List Int)) : Nat := (pairsOf o.2).length

/-- number of partitions the observation hands to member `id` (0 when it is not answered at all) -/
def loadFor (obs : Obs) (id : Str) : Nat :=
  match dget id obs with
  | some a => (pairsOf a).length
  | none => 0

/-- With identical subscriptions the loads of any two listed members differ by at most one. -/
def balanced (members : List Member) (obs : Obs) : Bool :=
  !identicalSubs members ||
    members.all fun a => members.all fun b => loadFor obs a.1 ≤ loadFor obs b.1 + 1

/-- What the leader's glue needs from `_load_topic_partitions`: the snapshot has an entry, with at
    least one partition, for every topic that was asked for. -/
def loadCovers (asked : List Str) (snap : Dict Str (List Int)) : Bool :=
  asked.all fun t =>
    match dget t snap with
    | some ps => !ps.isEmpty
    | none => false

/-- … and what the exactly-once clause needs from it: for every requested topic the snapshot lists
    exactly the partition ids that the metadata reply it was built from lists for that topic — no
    partition left out (it would be assigned to nobody), none invented.  `reply`: per topic the error
    code and the partition ids, as `_load_topic_partitions` sees them. -/
def loadFaithful (asked : List Str) (reply : Dict Str (Int × List Int)) (snap : Dict Str (List Int)) : Bool :=
  asked.all fun t =>
    match dget t reply, dget t snap with
    | some (_, ps), some qs => ps.all (fun p => qs.contains p) && qs.all (fun p => ps.contains p)
    | _, _ => false

/-- What a member decodes is exactly what it was assigned (same `(topic, partition)` pairs). -/
def decodesOwn (assigned decoded : Dict Str (List Int)) : Bool :=
  (pairsOf decoded).isPerm (pairsOf assigned)

/-- Two observations (for two listings of the same members) give every member the same
    partitions. -/
def sameAssignment (obs₁ obs₂ : Obs) : Bool :=
  obs₁.length == obs₂.length &&
    obs₁.all fun o =>
      match dget o.1 obs₂ with
      | none => false
      | some a => (pairsOf a).isPerm (pairsOf o.2)

/-- Range hypotheses of the byte-level codec: fewer than 2^31 topics; every topic name ASCII and at
    most 32767 characters; fewer than 2^31 partitions per topic; every partition id an int32. -/
def encodable (a : Dict Str (List Int)) : Bool :=
  decide (a.length < 2147483648) && a.all fun e =>
    e.1.all (· < 128) && decide (e.1.length ≤ 32767) && decide (e.2.length < 2147483648) &&
      e.2.all fun p => decide (-2147483648 ≤ p) && decide (p < 2147483648)

/-- UTF-8 length of one code point -/
def utf8CharLen (c : Nat) : Nat := if c < 0x80 then 1 else if c < 0x800 then 2 else if c < 0x10000 then 3 else 4

/-- Range hypotheses of the subscription encoder: fewer than 2^31 subscriptions; every topic name
    made of Unicode scalar values (no surrogates, nothing above U+10FFFF) and at most 32767 bytes
    long in UTF-8. -/
def subsEncodable (subs : List Str) : Bool :=
  decide (subs.length < 2147483648) && subs.all fun t =>
    t.all (fun c => decide (c < 0x110000) && !(decide (0xD800 ≤ c) && decide (c ≤ 0xDFFF))) &&
      decide ((t.map utf8CharLen).sum ≤ 32767)

/-- What the members observe: each one decodes the bytes the leader produced for it
    (`none` when some member cannot decode its assignment). -/
def observe : List (Str × Bytes) → Option Obs
  | [] => some []
  | e :: es =>
    match decodeAssignment e.2, observe es with
    | .ok a, some r => some ((e.1, a) :: r)
    | _, _ => none

end Afkak.Monitor.C15
