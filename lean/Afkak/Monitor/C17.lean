import Afkak.Group
/-!
# Monitor for C17 — a started group member always progresses toward stable membership

Decidable predicates over an observed trace `List MStep`; evaluated by the driver on traces of the
REAL `ConsumerGroup` (snapshot = what the harness inspects after every step: join in flight,
heartbeat looper, delayed calls on the injected reactor, `start`'s Deferred) and proved of every
model trace in `AfkakProps/C17.lean`.
-/
namespace Afkak.Monitor.C17
open Afkak.Group Afkak.Consts

/-- never idle: started and not stopping ⇒ a join is in flight, or the member is stable with the
    heartbeat timer running, or a rejoin / coordinator-retry timer is pending.  (A started, not
    stopping member never has `start`'s Deferred fired: it fires only when the stop completes; since
    fix 2b143e5 a stopped member cannot be started again, so "started and not stopping" is exactly
    "`start()` was called and no `Coordinator.stop` has begun".) -/
def busy (sn : Snap) : Bool :=
  sn.joinInFlight || (!sn.rejoinNeeded && sn.hbRunning && sn.hbTimers ≥ 1) || sn.joinTimers ≥ 1

def neverIdleStep (m : MStep) : Bool := !(m.snap.started && !m.snap.stopping) || busy m.snap
def neverIdle (tr : List MStep) : Bool := tr.all neverIdleStep

/-- Where an error reply arrived. -/
inductive Site where | lookup | escape | request
  deriving DecidableEq, Repr

/-- an error delivered to the member: (site, kind) -/
def errorOf : Ev → Option (Site × GErr)
  | .coordDone (.err e) => some (.lookup, e)
  | .metaDone (.err e) | .partsDone (.err e) => some (.escape, e)
  | .joinDone (.err e) | .syncDone (.err e) | .hbDone (.err e) | .consumerErr _ e => some (.request, e)
  | _ => none

/-- Is the kind a Kafka error (anything the client raises as `KafkaError`)? -/
def isKafka : GErr → Bool
  | .cancelled | .nonKafka => false
  | _ => true

/-- The DOCUMENTED back-off (ConsumerGroup docstring: `retry_backoff_ms` for expected errors and
    group membership changes, `fatal_backoff_ms` for unexpected Kafka errors and time-outs,
    `initial_backoff_ms` between attempts to find the coordinator), written out independently of the
    generated tables. -/
def documentedDelayMs (cfg : Cfg) : Site → GErr → Nat
  | .lookup, .coordinatorNotAvailable | .lookup, .notCoordinator => cfg.initialBackoffMs
  | .lookup, _ => cfg.fatalBackoffMs
  | _, .rebalanceInProgress | _, .coordinatorNotAvailable | _, .notCoordinator
  | _, .illegalGeneration | _, .unknownMemberId | _, .invalidGroupId => cfg.retryBackoffMs
  | _, _ => cfg.fatalBackoffMs

def timerKindOf : Site → TKind
  | .lookup => .retry
  | _ => .rejoin

def isJoinTimerOb : Ob → Bool | .setTimer _ .rejoin _ | .setTimer _ .retry _ => true | _ => false

/-- every retriable condition ⇒ a rejoin after the documented back-off: a processed Kafka error
    while started and not stopping leaves a rejoin/retry timer pending, and a timer set by that step
    has the documented delay and kind.  (`pre` = snapshot before the step.) -/
def retriableStep (cfg : Cfg) (pre : Snap) (m : MStep) : Bool :=
  match errorOf m.ev with
  | some (site, e) =>
    !isKafka e || m.obs == [.badOp] || !(pre.started && !pre.stopping) ||
      (m.snap.joinTimers ≥ 1 && m.snap.rejoinNeeded &&
       (m.obs.filter isJoinTimerOb).all fun o => o == .setTimer (match o with | .setTimer id _ _ => id | _ => 0)
          (timerKindOf site) (secs (documentedDelayMs cfg site e)))
  | none => true

def initSnap : Snap := snap init

def retriableFrom (cfg : Cfg) (pre : Snap) : List MStep → Bool
  | [] => true
  | m :: ms => retriableStep cfg pre m && retriableFrom cfg m.snap ms

def retriableRejoins (cfg : Cfg) (tr : List MStep) : Bool := retriableFrom cfg initSnap tr

/-- a non-Kafka error surfaces on `start`'s Deferred: the step fires it with that error, or sends
    the leave and the step that delivers the leave reply fires it.  `pend` = error awaiting the
    leave reply. -/
def firesWith (e : GErr) (obs : List Ob) : Bool := obs.contains (.startFired (some e))
def sendsLeave (obs : List Ob) : Bool := obs.any fun | .leave _ => true | _ => false

/-- the non-Kafka error (if any) that the step delivers to `rejoin_after_error`: a `CancelledError`
    from a consumer is ignored by `on_consumer_error` when the group holds no consumer. -/
def fatalOf (pre : Snap) : Ev → Option GErr
  | .consumerErr _ e =>
    if isKafka e || (e == .cancelled && pre.cons.all (fun c => c.phase != .running)) then none else some e
  | .joinDone (.err e) | .syncDone (.err e) | .hbDone (.err e) => if isKafka e then none else some e
  | _ => none

def fatalFrom (pre : Snap) (pend : Option GErr) : List MStep → Bool
  | [] => true
  | m :: ms =>
    match m.ev, pend with
    | .leaveDone _, some e => firesWith e m.obs && fatalFrom m.snap none ms
    | _, _ =>
      match fatalOf pre m.ev with
      | some e =>
        if m.obs == [.badOp] || !(pre.started && !pre.stopping) then fatalFrom m.snap pend ms
        else if firesWith e m.obs then fatalFrom m.snap pend ms
        else if sendsLeave m.obs then fatalFrom m.snap (some e) ms
        else false
      | none => fatalFrom m.snap pend ms

def fatalSurfaces (tr : List MStep) : Bool := fatalFrom initSnap none tr

/-- full strength: ALSO errors escaping the join (look-up, metadata load, leader partition load)
    surface on `start`'s Deferred — the code swallows these (known finding F12, non-Kafka half). -/
def escapeSurfacesStep (pre : Snap) (m : MStep) : Bool :=
  match errorOf m.ev with
  | some (.lookup, e) | some (.escape, e) =>
    isKafka e || m.obs == [.badOp] || !(pre.started && !pre.stopping) || firesWith e m.obs || sendsLeave m.obs
  | _ => true

def escapeFrom (pre : Snap) : List MStep → Bool
  | [] => true
  | m :: ms => escapeSurfacesStep pre m && escapeFrom m.snap ms
def escapeSurfaces (tr : List MStep) : Bool := escapeFrom initSnap tr

/-- Environment contract used with it: a coordinator that has forgotten a member answers a
    JoinGroup quoting that (non-empty) member id with UnknownMemberId.  So progress after an
    UnknownMemberId / InvalidGroupId eviction requires that every JoinGroup sent before the next
    successful join reply quotes the EMPTY member id.  `fresh` = such an eviction has been processed
    and no join reply has succeeded since. -/
def forgetsMember : GErr → Bool
  | .unknownMemberId | .invalidGroupId => true
  | _ => false

def freshFrom (fresh : Bool) : List MStep → Bool
  | [] => true
  | m :: ms =>
    let processed := m.obs != [.badOp]
    let fresh0 := match m.ev with
      | .joinDone (.ok ..) => if processed then false else fresh
      | _ => fresh
    let joinsOk := !fresh0 || m.obs.all fun | .join mem => mem == 0 | _ => true
    let fresh1 := match errorOf m.ev with
      | some (.request, e) => if processed && forgetsMember e then true else fresh0
      | _ => fresh0
    joinsOk && freshFrom fresh1 ms

def freshAfterEviction (tr : List MStep) : Bool := freshFrom false tr

/-- a join in flight makes progress: whenever a started, not stopping member has its join coroutine
    alive (`_rejoin_d`), one of the coroutine's client requests (coordinator look-up, metadata load,
    JoinGroup, leader partition load, SyncGroup) is outstanding — counted from the observed requests,
    processed replies and observed cancellations — or a consumer is draining (`on_join_prepare`, or a
    `stop()` that the join waits behind).  A coroutine parked with nothing to wake it is a wedge. -/
def isProtoReqOb : Ob → Bool
  | .coordLookup | .loadMeta | .join _ | .loadParts | .sync .. => true
  | _ => false
def isProtoReply : Ev → Bool
  | .coordDone _ | .metaDone _ | .joinDone _ | .partsDone _ | .syncDone _ => true
  | _ => false
def isProtoCancel : Ob → Bool
  | .cancelReq .coordR | .cancelReq .metaR | .cancelReq .joinR | .cancelReq .partsR | .cancelReq .syncR => true
  | _ => false

def outstandingAfter (n : Nat) (m : MStep) : Nat :=
  let n0 := if isProtoReply m.ev && m.obs != [.badOp] then n - 1 else n
  m.obs.foldl (fun k o => if isProtoReqOb o then k + 1 else if isProtoCancel o then k - 1 else k) n0

def joinProgressFrom (n : Nat) : List MStep → Bool
  | [] => true
  | m :: ms =>
    let n' := outstandingAfter n m
    (!(m.snap.started && !m.snap.stopping && m.snap.joinInFlight) || decide (n' ≥ 1) ||
      m.snap.cons.any (fun c => c.phase == .draining)) && joinProgressFrom n' ms

def joinProgress (tr : List MStep) : Bool := joinProgressFrom 0 tr

def checks (cfg : Cfg) : List (String × (List MStep → Bool)) :=
  [("neverIdle", neverIdle), ("retriableRejoins", retriableRejoins cfg), ("fatalSurfaces", fatalSurfaces),
   ("escapeSurfaces", escapeSurfaces), ("freshAfterEviction", freshAfterEviction), ("joinProgress", joinProgress)]

def failing (cfg : Cfg) (tr : List MStep) : List String := ((checks cfg).filter fun c => !c.2 tr).map (·.1)

end Afkak.Monitor.C17
