import Afkak.Monitor.C03
/-! # Monitors for C13 (see `Monitor/C02.lean` for the conventions) -/
namespace Afkak.Monitor
open Afkak.Consumer
namespace C13

/-! ### The `start()` Deferred fires exactly once per run, with the right value -/

structure SoSt where
  running : Bool := false
  fired : Bool := false
  savedRunning : Bool := false
  savedFired : Bool := false
  proc : ProcSt := {}
  errs : List (ErrKind × Nat) := []   -- failures the environment produced as request/processor results
  bad : Bool := false
  deriving DecidableEq, Repr

instance : HasBad SoSt := ⟨SoSt.bad⟩

def soErr (m : SoSt) (k : ErrKind) (t : Nat) : SoSt := { m with errs := (k, t) :: m.errs }

def soFailOk (m : SoSt) : Fail → Bool
  | .tooSmall => true
  | .invalidGroup => true
  | .ext k t => m.errs.contains (k, t)
  | .opInProgress _ => false

def soStep (m0 : SoSt) (x : Item) : SoSt :=
  let m := { m0 with proc := procTrack m0.proc x }
  match x with
  | .ev (.start _) => { m with running := true, fired := false, savedRunning := m.running, savedFired := m.fired }
  | .ob .raisedRestart => { m with running := m.savedRunning, fired := m.savedFired }
  | .ev (.fetchErr _ k t) => soErr m k t
  | .ev (.offsetErr _ k t) => soErr m k t
  | .ev (.offsetFetchErr _ k t) => soErr m k t
  | .ev (.commitErr _ k t) => soErr m k t
  | .ev (.procErr k t) => soErr m k t
  | .ob (.procRet (.err k t)) => soErr m k t
  | .ev (.fetchOk _ r) => (match r.tail with | .raise k t => soErr m k t | _ => m)
  | .ob (.startFired r) =>
    if m.running && !m.fired then
      match r with
      | .ok v => if v == m.proc.processed then { m with fired := true } else { m with bad := true }
      | .err f => if soFailOk m f then { m with fired := true } else { m with bad := true }
    else { m with bad := true }
  | .ob (.stopReturned v) => if m.fired && v == m.proc.processed then { m with running := false } else { m with bad := true }
  | .ob (.shutdownFired (.ok v)) => if m.fired && v == m.proc.processed then { m with running := false } else { m with bad := true }
  | _ => m

def startOnceOk (tr : List Item) : Bool := accepts soStep {} tr

/-! ### … at most once per run (the part of the above that does not look at values) -/

structure FoSt where
  running : Bool := false
  fired : Bool := false
  savedRunning : Bool := false
  savedFired : Bool := false
  bad : Bool := false
  deriving DecidableEq, Repr

instance : HasBad FoSt := ⟨FoSt.bad⟩

def foStep (m : FoSt) : Item → FoSt
  | .ev (.start _) => { m with running := true, fired := false, savedRunning := m.running, savedFired := m.fired }
  | .ob .raisedRestart => { m with running := m.savedRunning, fired := m.savedFired }
  | .ob (.startFired _) => if m.running && !m.fired then { m with fired := true } else { m with bad := true }
  | .ob (.stopReturned _) => { m with running := false }
  | _ => m

def firesOnceOk (tr : List Item) : Bool := accepts foStep {} tr

/-! ### After `stop()` returns nothing is left running and nothing happens until the next `start()` -/

structure QSt where
  running : Bool := false
  saved : Bool := false
  timers : List TimerKind := []
  reqs : List Nat := []          -- outstanding, uncancelled client requests
  procPending : Bool := false
  manual : Bool := false         -- the application called `commit()` on the stopped consumer: commit traffic is its own
  bad : Bool := false
  deriving DecidableEq, Repr

instance : HasBad QSt := ⟨QSt.bad⟩

def qActive (m : QSt) : QSt := if m.running then m else { m with bad := true }

def qCommitActive (m : QSt) : QSt := if m.running || m.manual then m else { m with bad := true }

def qQuiet (m : QSt) : QSt :=
  if m.timers.isEmpty && m.reqs.isEmpty && !m.procPending then { m with running := false, manual := false } else { m with bad := true }

def qStep (m : QSt) : Item → QSt
  | .ev (.start _) => { m with running := true, saved := m.running }
  | .ev .commit => if m.running then m else { m with manual := true }
  | .ob (.act .commit) => if m.running then m else { m with manual := true }
  | .ob .raisedRestart => { m with running := m.saved }
  | .ob (.fetch k _ _) => qActive { m with reqs := k :: m.reqs }
  | .ob (.offsets k _) => qActive { m with reqs := k :: m.reqs }
  | .ob (.offsetFetch k) => qActive { m with reqs := k :: m.reqs }
  | .ob (.commitReq k _) => qCommitActive { m with reqs := k :: m.reqs }
  | .ob (.setTimer .commit _) => qCommitActive { m with timers := .commit :: m.timers }
  | .ob (.proc _) => qActive m
  | .ob (.setTimer t _) => qActive { m with timers := t :: m.timers }
  | .ob (.cancelTimer t) => { m with timers := m.timers.erase t }
  | .ev .retryFire => { m with timers := m.timers.erase .retry }
  | .ev .commitRetryFire => { m with timers := m.timers.erase .commit }
  | .ev .autoCommitTick => { m with timers := m.timers.erase .loop }
  | .ob (.cancelReq k) => { m with reqs := m.reqs.erase k }
  | .ev (.fetchOk k _) => { m with reqs := m.reqs.erase k }
  | .ev (.fetchErr k _ _) => { m with reqs := m.reqs.erase k }
  | .ev (.offsetOk k _) => { m with reqs := m.reqs.erase k }
  | .ev (.offsetErr k _ _) => { m with reqs := m.reqs.erase k }
  | .ev (.offsetFetchOk k _) => { m with reqs := m.reqs.erase k }
  | .ev (.offsetFetchErr k _ _) => { m with reqs := m.reqs.erase k }
  | .ev (.commitOk k) => { m with reqs := m.reqs.erase k }
  | .ev (.commitErr k _ _) => { m with reqs := m.reqs.erase k }
  | .ob (.procRet .defer) => { m with procPending := true }
  | .ob .procCancel => { m with procPending := false }
  | .ev .procOk => { m with procPending := false }
  | .ev (.procErr _ _) => { m with procPending := false }
  | .ob (.stopReturned _) => qQuiet m
  | .ob (.shutdownFired (.ok _)) => qQuiet m
  | _ => m

def quiescentOk (tr : List Item) : Bool := accepts qStep {} tr

/-! ### Graceful shutdown: waits for the processor, commits when a group is configured, stops, reports once -/

structure ShSt where
  asked : Bool := false            -- an accepted `shutdown()` has not completed yet
  savedAsked : Bool := false
  askedInProc : Bool := false      -- … and it was called from inside the processor
  savedAskedInProc : Bool := false
  inProc : Bool := false           -- between `proc` and `procRet`
  procPending : Bool := false
  stopCalled : Bool := false       -- the application called `stop()` in this step
  proc : ProcSt := {}
  lc : Option Int := none          -- last committed offset, as acknowledged so far
  reqs : List (Nat × Int) := []    -- commit requests issued: (id, offset)
  bad : Bool := false
  deriving DecidableEq, Repr

instance : HasBad ShSt := ⟨ShSt.bad⟩

/-- `inproc = false`: the monitor proper (a processor Deferred cancelled by a `shutdown()` that was
    called from inside that very processor call is NOT judged here).  `inproc = true`: judges only that. -/
def shStep (group : Bool) (inproc : Bool) (m0 : ShSt) (x : Item) : ShSt :=
  let m := { m0 with proc := procTrack m0.proc x }
  match x with
  | .ev .shutdown => { m with asked := true, savedAsked := m.asked, askedInProc := false, savedAskedInProc := m.askedInProc, stopCalled := false }
  | .ob (.act .shutdown) => { m with asked := true, savedAsked := m.asked, askedInProc := true, savedAskedInProc := m.askedInProc }
  | .ev .stop => { m with stopCalled := true }
  | .ob (.act .stop) => { m with stopCalled := true }
  | .ev (.fetchOk _ _) => { m with stopCalled := false }
  | .ev (.procErr _ _) => { m with procPending := false, stopCalled := false }
  | .ev .procOk => { m with procPending := false, stopCalled := false }
  | .ev (.commitOk k) => (match m.reqs.lookup k with | some off => { m with lc := some off, stopCalled := false } | none => { m with stopCalled := false })
  | .ev _ => { m with stopCalled := false }
  | .ob .shutdownRejected => { m with asked := m.savedAsked, askedInProc := m.savedAskedInProc }
  | .ob (.proc _) => if m.asked && !m.inProc && !inproc then { m with bad := true } else { m with inProc := true }
  | .ob (.procRet r) => { m with inProc := false, procPending := (r == .defer) }
  -- a graceful shutdown waits for the processor; only an explicit `stop()` may cancel it
  | .ob .procCancel =>
    if m.asked && !m.stopCalled && (m.askedInProc == inproc) then { m with bad := true } else { m with procPending := false }
  | .ob (.commitReq k off) => { m with reqs := (k, off) :: m.reqs }
  | .ob (.probe _ lc) => { m with lc := lc }
  | .ob (.shutdownFired (.ok v)) =>
    -- waited for the processor; reports the last processed offset; with a group, that offset is committed
    if inproc then { m with asked := false }
    else if m.procPending then { m with bad := true }
    else if v != m.proc.processed then { m with bad := true }
    else if group && m.proc.processed.isSome && m.proc.processed != m.lc then { m with bad := true }
    else { m with asked := false }
  | .ob (.shutdownFired (.err _)) => { m with asked := false }
  | _ => m

def shutdownOk (group : Bool) (tr : List Item) : Bool := accepts (shStep group false) {} tr

/-- A `shutdown()` called from inside the processor waits for the Deferred that call returns. -/
def shutdownInprocOk (group : Bool) (tr : List Item) : Bool := accepts (shStep group true) {} tr

/-! ### No call into the consumer ends in an exception the API does not document -/

def noCrashOk (tr : List Item) : Bool :=
  tr.all fun
    | .ob (.crash _) => false
    | _ => true

end C13
end Afkak.Monitor
