import Afkak.Monitor.C03
/-! # Monitors for C13 (see `Monitor/C02.lean` for the conventions) -/
namespace Afkak.Monitor
open Afkak.Consumer
namespace C13

/-! ### The `start()` Deferred fires exactly once per run, with the right value -/

structure SoSt where
  running : Bool := false
  fired : Bool := false
  savedRunning : Bool := false
  savedFired : Bool := false
  proc : ProcSt := {}
  errs : List (ErrKind × Nat) := []   -- failures the environment produced as request/processor results
  deriving DecidableEq, Repr

def soErr (m : SoSt) (k : ErrKind) (t : Nat) : SoSt := { m with errs := (k, t) :: m.errs }

def soFailOk (m : SoSt) : Fail → Bool
  | .tooSmall => true
  | .invalidGroup => true
  | .ext k t => m.errs.contains (k, t)
  | .opInProgress _ => false

def soStep (m0 : SoSt) (x : Item) : Option SoSt :=
  let m := { m0 with proc := procTrack m0.proc x }
  match x with
  | .ev (.start _) => some { m with running := true, fired := false, savedRunning := m.running, savedFired := m.fired }
  | .ob .raisedRestart => some { m with running := m.savedRunning, fired := m.savedFired }
  | .ev (.fetchErr _ k t) => some (soErr m k t)
  | .ev (.offsetErr _ k t) => some (soErr m k t)
  | .ev (.offsetFetchErr _ k t) => some (soErr m k t)
  | .ev (.commitErr _ k t) => some (soErr m k t)
  | .ev (.procErr k t) => some (soErr m k t)
  | .ob (.procRet (.err k t)) => some (soErr m k t)
  | .ev (.fetchOk _ r) => some (match r.tail with | .raise k t => soErr m k t | _ => m)
  | .ob (.startFired r) =>
    if m.running && !m.fired then
      match r with
      | .ok v => if v == m.proc.processed then some { m with fired := true } else none
      | .err f => if soFailOk m f then some { m with fired := true } else none
    else none
  | .ob (.stopReturned v) => if m.fired && v == m.proc.processed then some { m with running := false } else none
  | .ob (.shutdownFired (.ok v)) => if m.fired && v == m.proc.processed then some { m with running := false } else none
  | _ => some m

def startOnceOk (tr : List Item) : Bool := accepts soStep {} tr

/-! ### After `stop()` returns nothing is left running and nothing happens until the next `start()` -/

structure QSt where
  running : Bool := false
  saved : Bool := false
  timers : List TimerKind := []
  reqs : List Nat := []          -- outstanding, uncancelled client requests
  procPending : Bool := false
  manual : Bool := false         -- the application called `commit()` on the stopped consumer: commit traffic is its own
  deriving DecidableEq, Repr

def qActive (m : QSt) : Option QSt := if m.running then some m else none

def qCommitActive (m : QSt) : Option QSt := if m.running || m.manual then some m else none

def qStep (m : QSt) : Item → Option QSt
  | .ev (.start _) => some { m with running := true, saved := m.running }
  | .ev .commit => some (if m.running then m else { m with manual := true })
  | .ob .raisedRestart => some { m with running := m.saved }
  | .ob (.fetch k _ _) => qActive { m with reqs := k :: m.reqs }
  | .ob (.offsets k _) => qActive { m with reqs := k :: m.reqs }
  | .ob (.offsetFetch k) => qActive { m with reqs := k :: m.reqs }
  | .ob (.commitReq k _) => qCommitActive { m with reqs := k :: m.reqs }
  | .ob (.setTimer .commit _) => qCommitActive { m with timers := .commit :: m.timers }
  | .ob (.proc _) => qActive m
  | .ob (.setTimer t _) => qActive { m with timers := t :: m.timers }
  | .ob (.cancelTimer t) => some { m with timers := m.timers.erase t }
  | .ev .retryFire => some { m with timers := m.timers.erase .retry }
  | .ev .commitRetryFire => some { m with timers := m.timers.erase .commit }
  | .ev .autoCommitTick => some { m with timers := m.timers.erase .loop }
  | .ob (.cancelReq k) => some { m with reqs := m.reqs.erase k }
  | .ev (.fetchOk k _) => some { m with reqs := m.reqs.erase k }
  | .ev (.fetchErr k _ _) => some { m with reqs := m.reqs.erase k }
  | .ev (.offsetOk k _) => some { m with reqs := m.reqs.erase k }
  | .ev (.offsetErr k _ _) => some { m with reqs := m.reqs.erase k }
  | .ev (.offsetFetchOk k _) => some { m with reqs := m.reqs.erase k }
  | .ev (.offsetFetchErr k _ _) => some { m with reqs := m.reqs.erase k }
  | .ev (.commitOk k) => some { m with reqs := m.reqs.erase k }
  | .ev (.commitErr k _ _) => some { m with reqs := m.reqs.erase k }
  | .ob (.procRet .defer) => some { m with procPending := true }
  | .ob .procCancel => some { m with procPending := false }
  | .ev .procOk => some { m with procPending := false }
  | .ev (.procErr _ _) => some { m with procPending := false }
  | .ob (.stopReturned _) =>
    if m.timers.isEmpty && m.reqs.isEmpty && !m.procPending then some { m with running := false, manual := false } else none
  | .ob (.shutdownFired (.ok _)) =>
    if m.timers.isEmpty && m.reqs.isEmpty && !m.procPending then some { m with running := false, manual := false } else none
  | _ => some m

def quiescentOk (tr : List Item) : Bool := accepts qStep {} tr

/-! ### Graceful shutdown: waits for the processor, commits when a group is configured, stops, reports once -/

structure ShSt where
  asked : Bool := false            -- an accepted `shutdown()` has not completed yet
  inProc : Bool := false           -- between `proc` and `procRet`
  procPending : Bool := false
  proc : ProcSt := {}
  lc : Option Int := none          -- last committed offset, as acknowledged so far
  reqs : List (Nat × Int) := []    -- commit requests issued: (id, offset)
  deriving DecidableEq, Repr

def shStep (group : Bool) (m0 : ShSt) (x : Item) : Option ShSt :=
  let m := { m0 with proc := procTrack m0.proc x }
  match x with
  | .ev .shutdown => some { m with asked := true }
  | .ob .shutdownRejected => some m
  | .ob (.proc _) => if m.asked && !m.inProc then none else some { m with inProc := true }
  | .ob (.procRet r) => some { m with inProc := false, procPending := (r == .defer) }
  | .ob .procCancel => some { m with procPending := false }
  | .ev .procOk => some { m with procPending := false }
  | .ev (.procErr _ _) => some { m with procPending := false }
  | .ob (.commitReq k off) => some { m with reqs := (k, off) :: m.reqs }
  | .ev (.commitOk k) => some (match m.reqs.lookup k with | some off => { m with lc := some off } | none => m)
  | .ob (.probe _ lc) => some { m with lc := lc }
  | .ob (.shutdownFired (.ok v)) =>
    -- waited for the processor; reports the last processed offset; with a group, that offset is committed
    if m.procPending then none
    else if v != m.proc.processed then none
    else if group && m.proc.processed.isSome && m.proc.processed != m.lc then none
    else some { m with asked := false }
  | .ob (.shutdownFired (.err _)) => some { m with asked := false }
  | _ => some m

def shutdownOk (group : Bool) (tr : List Item) : Bool := accepts (shStep group) {} tr

/-! ### No call into the consumer ends in an exception the API does not document -/

def noCrashOk (tr : List Item) : Bool :=
  tr.all fun
    | .ob (.crash _) => false
    | _ => true

end C13
end Afkak.Monitor
