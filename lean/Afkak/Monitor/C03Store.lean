import Afkak.Monitor.C03
/-!
# More monitors for C03: the consumer's view of the committed offset follows the coordinator's store

(In a file of their own so that adding them does not rebuild the proofs about the monitors of
`Monitor/C03.lean`.  Proved of every model trace in `AfkakProofs/Consumer/B_Store.lean`.)
-/
namespace Afkak.Monitor
open Afkak.Consumer
namespace C03

/-! ### An acknowledged commit is recorded

When the reply to commit request `k` (issued for offset `v`) is a success and the consumer takes it
(the event is applied, not dropped), `last_committed_offset` is `v` once that reply has been handled -
whatever it was before, larger or smaller: the coordinator now holds `v`, and `commit()` /
by-count auto-commit compare against the recorded value. -/

structure RecSt where
  reqs : List (Nat × Int) := []      -- commit requests issued: (id, offset)
  cur : Option Nat := none           -- the event being handled is the successful reply to this commit request
  bad : Bool := false
  deriving DecidableEq, Repr

instance : HasBad RecSt := ⟨RecSt.bad⟩

def recStep (m : RecSt) : Item → RecSt
  | .ev (.commitOk k) => { m with cur := some k }
  | .ev _ => { m with cur := none }
  | .ob (.commitReq k off) => { m with reqs := (k, off) :: m.reqs }
  | .ob (.probe _ lc) =>
    match m.cur, lc with
    | some k, some v => if m.reqs.contains (k, v) then { m with cur := none } else { m with bad := true }
    | some _, none => { m with bad := true }
    | none, _ => m
  | _ => m

def ackRecordedOk (tr : List Item) : Bool := accepts recStep {} tr

/-! ### A start from the committed position asks the coordinator

Between an accepted `start(OFFSET_COMMITTED)` and the coordinator's answer to an OffsetFetchRequest the
consumer issues no FetchRequest and no OffsetRequest: the position it resumes from is the one the
coordinator holds NOW (`resumeOk` then pins the first fetch to that offset + 1), not one remembered
from an earlier run. -/

structure AskSt where
  awaiting : Bool := false
  saved : Bool := false              -- `awaiting` before the latest `start` call (restored if it raised)
  bad : Bool := false
  deriving DecidableEq, Repr

instance : HasBad AskSt := ⟨AskSt.bad⟩

def askStep (m : AskSt) : Item → AskSt
  | .ev (.start off) => { m with awaiting := (off == Afkak.Consts.offsetCommitted), saved := m.awaiting }
  | .ob .raisedRestart => { m with awaiting := m.saved }
  | .ev (.offsetFetchOk _ _) => { m with awaiting := false }
  | .ob (.fetch _ _ _) => if m.awaiting then { m with bad := true } else m
  | .ob (.offsets _ _) => if m.awaiting then { m with bad := true } else m
  | _ => m

def resumeAsksOk (tr : List Item) : Bool := accepts askStep {} tr

end C03
end Afkak.Monitor
