import Afkak.Monitor.C13
/-!
# Two more monitors for C13: a started consumer keeps going; a failed graceful shutdown failed for a reason of its own

(In a file of its own so that adding it does not rebuild the proofs about the monitors of `Monitor/C13.lean`.)
-/
namespace Afkak.Monitor
open Afkak.Consumer Afkak.Consts
namespace C13

/-! ### "A stopped consumer can be started again": a run that has not ended is never idle

While a run is on - `start()` accepted, its Deferred not fired yet, no graceful shutdown asked - the consumer always
has something of its own under way when an event has been handled: a fetch / offset request outstanding (and not
cancelled), the refetch timer armed, or a processor result pending.  (A consumer that was stopped and started again
and then delivers one batch and never asks again fails here, at the end of the event that delivered the batch.)

Excused for the rest of the run: a fetch reply whose iteration raised (`Tail.raise`) - when such a reply was parked
behind processing the exception is lost (it is raised inside a callback of `_msg_block_d`) and the consumer does
stall; that is behaviour of the code the model mirrors, and not what this monitor is about. -/

structure AlSt where
  running : Bool := false
  savedRunning : Bool := false
  fired : Bool := false            -- the start Deferred of this run has fired, or the run is excused
  savedFired : Bool := false
  shut : Bool := false
  savedShut : Bool := false
  reqs : List Nat := []            -- fetch-side requests outstanding and not cancelled
  retry : Bool := false            -- the refetch timer is armed
  procPending : Bool := false
  bad : Bool := false
  deriving DecidableEq, Repr

instance : HasBad AlSt := ⟨AlSt.bad⟩

def alStep (m : AlSt) : Item → AlSt
  | .ev (.start _) => { m with running := true, fired := false, savedRunning := m.running, savedFired := m.fired }
  | .ob .raisedRestart => { m with running := m.savedRunning, fired := m.savedFired }
  | .ob (.startFired _) => { m with fired := true }
  | .ev .shutdown => { m with shut := true, savedShut := m.shut }
  | .ob (.act .shutdown) => { m with shut := true, savedShut := m.shut }
  | .ob .shutdownRejected => { m with shut := m.savedShut }
  | .ob (.shutdownFired _) => { m with shut := false, running := false }
  | .ob (.stopReturned _) => { m with running := false }
  | .ob (.fetch k _ _) => { m with reqs := k :: m.reqs }
  | .ob (.offsets k _) => { m with reqs := k :: m.reqs }
  | .ob (.offsetFetch k) => { m with reqs := k :: m.reqs }
  | .ob (.cancelReq k) => { m with reqs := m.reqs.erase k }
  | .ev (.fetchOk k r) =>
    (match r.tail with
     | .raise _ _ => { m with reqs := m.reqs.erase k, fired := true }
     | _ => { m with reqs := m.reqs.erase k })
  | .ev (.fetchErr k _ _) => { m with reqs := m.reqs.erase k }
  | .ev (.offsetOk k _) => { m with reqs := m.reqs.erase k }
  | .ev (.offsetErr k _ _) => { m with reqs := m.reqs.erase k }
  | .ev (.offsetFetchOk k _) => { m with reqs := m.reqs.erase k }
  | .ev (.offsetFetchErr k _ _) => { m with reqs := m.reqs.erase k }
  | .ob (.setTimer .retry _) => { m with retry := true }
  | .ob (.cancelTimer .retry) => { m with retry := false }
  | .ev .retryFire => { m with retry := false }
  | .ob (.procRet .defer) => { m with procPending := true }
  | .ob .procCancel => { m with procPending := false }
  | .ev .procOk => { m with procPending := false }
  | .ev (.procErr _ _) => { m with procPending := false }
  | .ob (.probe _ _) =>
    if m.running && !m.fired && !m.shut && m.reqs.isEmpty && !m.retry && !m.procPending then { m with bad := true } else m
  | _ => m

def aliveOk (tr : List Item) : Bool := accepts alStep {} tr

/-! ### A graceful shutdown that fails, fails with a failure of its own

`shutdown()`'s Deferred fails only with the cancellation `stop()` causes, or with the failure of a commit request that
completed unsuccessfully AFTER the shutdown was asked for (its own commit, or the one it was waiting behind).  In
particular not with a failure remembered from before - an earlier commit of this run, or a previous run: then it
would have given up without trying to commit what was processed. -/

structure SfSt where
  asked : Bool := false
  savedAsked : Bool := false
  errs : List (ErrKind × Nat) := []       -- commit failures since the shutdown was asked
  savedErrs : List (ErrKind × Nat) := []
  bad : Bool := false
  deriving DecidableEq, Repr

instance : HasBad SfSt := ⟨SfSt.bad⟩

def sfStep (m : SfSt) : Item → SfSt
  | .ev .shutdown => { m with asked := true, savedAsked := m.asked, errs := [], savedErrs := m.errs }
  | .ob (.act .shutdown) => { m with asked := true, savedAsked := m.asked, errs := [], savedErrs := m.errs }
  | .ob .shutdownRejected => { m with asked := m.savedAsked, errs := m.savedErrs }
  | .ev (.commitErr _ k t) => { m with errs := (k, t) :: m.errs }
  | .ob (.shutdownFired (.err f)) =>
    (match f with
     | .ext .cancelled 0 => { m with asked := false }
     | .ext k t => if m.errs.contains (k, t) then { m with asked := false } else { m with bad := true }
     | _ => { m with bad := true })
  | .ob (.shutdownFired (.ok _)) => { m with asked := false }
  | _ => m

def shutdownFailOk (tr : List Item) : Bool := accepts sfStep {} tr

end C13
end Afkak.Monitor
