import Afkak.Monitor.C13
/-!
# One more monitor for C13: a graceful shutdown is never held up by a commit that keeps failing

(In a file of its own so that adding it does not rebuild the proofs about the monitors of `Monitor/C13.lean`.)
-/
namespace Afkak.Monitor
open Afkak.Consumer Afkak.Consts
namespace C13

/-! ### Commit retries are bounded: by the attempt limit, and - with no limit - by the shutdown's own limit once a
graceful shutdown has been asked for, WHENEVER the commit operation started

A commit operation = a commit request and the requests the commit retry timer issues for it.  When attempt `n` of
the operation fails and `n` has reached the limit in force at that moment (`request_retry_max_attempts`, or the
shutdown limit when that is 0 and a `shutdown()` is pending - also one that was called while the operation was
already in flight or in back-off), no further retry is scheduled: the failure is reported, so the shutdown ends. -/

structure CbSt where
  asked : Bool := false          -- an accepted `shutdown()` has not completed yet
  savedAsked : Bool := false
  inRetry : Bool := false        -- the event being handled is the commit retry timer firing
  attempt : Nat := 0             -- attempt number of the latest commit request of the current commit operation
  noTimer : Bool := false        -- the event being handled is a failed attempt at the limit
  bad : Bool := false
  deriving DecidableEq, Repr

instance : HasBad CbSt := ⟨CbSt.bad⟩

def cbStep (limit : Nat) (m : CbSt) : Item → CbSt
  | .ev .shutdown => { m with asked := true, savedAsked := m.asked, inRetry := false, noTimer := false }
  | .ob (.act .shutdown) => { m with asked := true, savedAsked := m.asked }
  | .ob .shutdownRejected => { m with asked := m.savedAsked }
  | .ob (.shutdownFired _) => { m with asked := false }
  | .ev .commitRetryFire => { m with inRetry := true, noTimer := false }
  | .ev (.commitErr _ _ _) =>
    let lim := if limit == 0 && m.asked then shutdownRetryAttempts else limit
    { m with inRetry := false, noTimer := lim != 0 && decide (lim ≤ m.attempt) }
  | .ev _ => { m with inRetry := false, noTimer := false }
  | .ob (.commitReq _ _) => { m with attempt := if m.inRetry then m.attempt + 1 else 1 }
  | .ob (.setTimer .commit _) => if m.noTimer then { m with bad := true } else m
  | _ => m

def commitBoundedOk (limit : Nat) (tr : List Item) : Bool := accepts (cbStep limit) {} tr

end C13
end Afkak.Monitor
