import Afkak.ClientNet
/-!
# Monitor for C11 — every broker request is bounded by the client timeout.
A decidable predicate over an OBSERVED trace (`List TItem`) of the real `KafkaClient`.  It does not use
the model's `step`.  The CORE rules (`fails`) are proved of every trace of the model
(`AfkakProofs/Client/MonC11.lean`, `AfkakProps/C11.lean: C11_model_traces_satisfy_monitor`); the EXTRA
rules (`extraFails`) need the harness's transport annotations or facts about operation results and are
evaluated on the implementation's traces only.
-/
namespace Afkak.Monitor.C11
open Afkak.ClientNet Afkak.ClientCache

structure MReq where
  k : Nat
  b : Nat
  issued : Rat
  due : Option Rat := none
  pending : Bool := true
  /-- the group of a `_send_request_to_coordinator` request -/
  grp : Option String := none
  deriving Repr, DecidableEq

structure MSt where
  now : Rat := 0
  reqs : List MReq := []
  /-- `(group, min_timeout)` of every `_send_request_to_coordinator` call seen so far -/
  seen : List (String × Option Rat) := []
  /-- the event of the current step -/
  cur : Option Ev := none
  /-- request whose top-level completion is the current step's event, if it was already resolved -/
  lateOf : Option Nat := none
  /-- observations seen in the current step -/
  nobs : Nat := 0
  /-- broker clients that must be disconnected before the step ends (timeouts, disconnect_on_timeout) -/
  owedDisc : List Nat := []
  fails : List String := []
  /-- EXTRA: connections that must be told to close before the step ends / already told -/
  owedLose : List Nat := []
  gone : List Nat := []
  /-- EXTRA: request ↦ the connection it was last written to (harness annotation; latest first) -/
  connOf : List (Nat × Nat) := []
  /-- EXTRA: requests not written since their broker client last got a new connection -/
  unsent : List Nat := []
  /-- EXTRA: broker clients that reported a new connection and whose requests have not been looked at yet -/
  reconn : List Nat := []
  extraFails : List String := []
  deriving Repr

def fail (s : MSt) (why : String) : MSt := { s with fails := s.fails ++ [why] }
def failX (s : MSt) (why : String) : MSt := { s with extraFails := s.extraFails ++ [why] }

def getReq (s : MSt) (k : Nat) : Option MReq := (s.reqs.filter (fun r => r.k == k)).head?

def setReq (s : MSt) (k : Nat) (f : MReq → MReq) : MSt :=
  { s with reqs := s.reqs.map (fun r => if r.k == k then f r else r) }

def resolve (s : MSt) (k : Nat) : MSt := setReq s k (fun r => { r with pending := false })

/-- `max(self.timeout, min_timeout)` -/
def boundFor (cfg : Cfg) (m : Option Rat) : Rat :=
  match m with
  | some x => if cfg.timeout < x then x else cfg.timeout
  | none => cfg.timeout

/-- the bound a request issued now may be armed with: the client timeout, or, for a request of
    `_send_request_to_coordinator`, `max(timeout, min_timeout)` of a call for that group -/
def boundOk (cfg : Cfg) (s : MSt) (r : MReq) (due : Rat) : Bool :=
  match r.grp with
  | none => due == r.issued + cfg.timeout
  | some g => s.seen.any (fun e => e.1 == g && due == r.issued + boundFor cfg e.2)

def endStep (s : MSt) : MSt :=
  let s0 := if s.owedDisc.isEmpty then s else fail s s!"timeout without disconnect of broker clients {s.owedDisc}"
  let s1 := if s0.owedLose.isEmpty then s0 else failX s0 s!"the connections {s0.owedLose} that carried timed-out requests were not dropped"
  let s2 := match s1.lateOf with
    | some k => if s1.nobs == 1 then s1 else fail s1 s!"late reply to request {k} disturbed something"
    | none => s1
  -- EXTRA: at the end of the first step after a broker client got a new connection (the harness attaches the
  -- write annotations to that step), each of its unanswered requests has been written again
  -- ("the remaining unanswered requests are re-sent on a new one")
  -- (the writes of requests that expect no reply are steps of their own inside `_sendQueued`: `fire k ok none`)
  let isConn := match s2.cur with | some (.conn _ _) => true | some (.fire _ (.ok .none)) => true | _ => false
  let stale := s2.reqs.filter (fun r => r.pending && s2.reconn.contains r.b && s2.unsent.contains r.k)
  let s3 := if isConn || stale.isEmpty then s2 else failX s2 s!"requests {stale.map (·.k)} were not (re-)sent on the new connection"
  { s3 with owedDisc := [], owedLose := [], lateOf := none, reconn := if isConn then s3.reconn else [] }

/-- a result that reports a cancellation -/
def cancelledKind : OpRes → Bool
  | .fail .cancelled => true
  | .okNone => true
  | .failedPayloads _ fl => fl.any (fun f => f.2 == .cancelled)
  | _ => false

def stepOb (cfg : Cfg) (s : MSt) (o : Ob) : MSt :=
  let s := { s with nobs := s.nobs + 1 }
  match o with
  | .mk k b _ what =>
    { s with reqs := s.reqs ++ [{ k := k, b := b, issued := s.now, grp := grpOf what }] }
  | .setTimer (.mrtb k) due =>
    (match getReq s k with
     | none => fail s s!"timer for unknown request {k}"
     | some r =>
       let s1 := setReq s k (fun r => { r with due := some due })
       if boundOk cfg s r due then s1 else fail s1 s!"request {k} armed with the wrong bound")
  | .fired k _ => resolve s k
  | .late k =>
    (match s.lateOf with
     | some k' => if k == k' then s else fail s s!"late {k}"
     | none => fail s s!"request {k} reported late but it was pending")
  | .cancelTimer (.mrtb k) =>
    (match getReq s k with
     | some r => if r.pending then fail s s!"timer of request {k} cancelled while it is unresolved" else s
     | none => fail s s!"cancelTimer for unknown request {k}")
  | .bcCancel k =>
    -- a cancel issued by the clock at/after the due time is the timeout
    (match s.cur, getReq s k with
     | some (.advance _), some r =>
       (match r.due with
        | some due =>
          if due ≤ s.now && cfg.disconnectOnTimeout then
            { s with owedDisc := s.owedDisc ++ [r.b],
                     owedLose := match Afkak.ClientCache.get? k s.connOf with
                       | some c => if s.gone.contains c then s.owedLose else s.owedLose ++ [c]
                       | none => s.owedLose }
          else s
        | none => s)
     | _, _ => s)
  | .bcDisconnect b =>
    if !cfg.disconnectOnTimeout then fail s s!"disconnect of {b} although disconnect_on_timeout is off"
    else if s.owedDisc.contains b then { s with owedDisc := s.owedDisc.erase b }
    else fail s s!"disconnect of {b} without a timeout"
  | .result o r =>
    -- EXTRA: a timeout must surface as RequestTimedOutError, never as the cancellation that implements it
    (match s.cur with
     | some (.advance _) => if cancelledKind r then failX s s!"operation {o}: a timed-out request surfaced as a cancellation" else s
     | _ => s)
  | _ => s

def stepItem (cfg : Cfg) (s : MSt) : TItem → MSt
  | .ev e =>
    let s := { (endStep s) with cur := some e, nobs := 0 }
    match e with
    | .advance dt => if dt < 0 then s else { s with now := s.now + dt }
    | .srtc _ g m => { s with seen := s.seen ++ [(g, m)] }
    | .conn b v => { s with reconn := s.reconn.filter (fun e => !(e == b)) ++ (if v then [b] else []),
                              unsent := if v then s.unsent ++ (s.reqs.filter (fun r => r.b == b && r.pending)).map (·.k) else s.unsent }
    | .fire k _ =>
      (match getReq s k with
       | some r => if r.pending then resolve s k else { s with lateOf := some k }
       | none => s)
    | _ => s
  | .ob o => stepOb cfg s o
  | .wrote k c => { s with connOf := (k, c) :: s.connOf, unsent := s.unsent.filter (fun x => !(x == k)) }
  | .exc c => failX s s!"exception {c} escaped into the reactor"
  -- EXTRA: a broker client that holds an unanswered request always has a connection, is connecting, or has a
  -- retry scheduled ("the remaining unanswered requests are re-sent on a new one" needs a new one to be sought)
  | .bcIdle b =>
    let held := (s.reqs.filter (fun r => r.pending && r.b == b)).map (·.k)
    if held.isEmpty then s
    else failX s s!"broker client {b} holds the unanswered requests {held} but has no connection, no attempt in progress and no retry scheduled"
  | .lose c => { s with owedLose := s.owedLose.filter (fun x => !(x == c)), gone := s.gone ++ [c] }
  | .timers l =>
    -- after the step: exactly the unresolved requests own a pending timer, due at issued+bound, not overdue
    let names := l.filterMap (fun t => match t.1 with | .mrtb k => some (k, t.2) | _ => none)
    let s1 := (s.reqs.filter (·.pending)).foldl (fun s r =>
      match r.due with
      | none => fail s s!"request {r.k} has no timer"
      | some due =>
        if !names.contains (r.k, due) then fail s s!"unresolved request {r.k} owns no pending timer"
        else if due < s.now then fail s s!"request {r.k} unresolved after its bound"
        else s) s
    names.foldl (fun s n =>
      match getReq s n.1 with
      | some r => if r.pending then s else fail s s!"timer of resolved request {n.1} still pending"
      | none => fail s s!"timer of unknown request {n.1}") s1
  | _ => s

def run (cfg : Cfg) (tr : List TItem) : MSt := endStep (tr.foldl (stepItem cfg) {})

/-- the CORE rules (proved of every model trace) -/
def ok (cfg : Cfg) (tr : List TItem) : Bool := (run cfg tr).fails.isEmpty

/-- core and extra rules (what the check evaluates on the implementation's traces) -/
def okAll (cfg : Cfg) (tr : List TItem) : Bool := (run cfg tr).fails.isEmpty && (run cfg tr).extraFails.isEmpty

end Afkak.Monitor.C11
