import Afkak.ClientNet
/-!
# Monitor for C11 — every broker request is bounded by the client timeout.
A decidable predicate over an OBSERVED trace (`List TItem`) of the real `KafkaClient`; the same
checks are proved of the model (`AfkakProps/C11.lean`).  It does not use the model's `step`.
-/
namespace Afkak.Monitor.C11
open Afkak.ClientNet Afkak.ClientCache

structure MReq where
  k : Nat
  b : Nat
  issued : Rat
  due : Option Rat := none
  pending : Bool := true
  isGroup : Bool := false
  deriving Repr

structure MSt where
  now : Rat := 0
  reqs : List MReq := []
  /-- `min_timeout`s of the `_send_request_to_coordinator` calls seen -/
  mins : List Rat := []
  /-- the event of the current step -/
  cur : Option Ev := none
  /-- request whose top-level completion is the current step's event, if it was pending -/
  lateOf : Option Nat := none
  /-- observations seen in the current step -/
  nobs : Nat := 0
  /-- broker clients that must be disconnected before the step ends (timeouts, disconnect_on_timeout) -/
  owedDisc : List Nat := []
  fails : List String := []
  deriving Repr

def fail (s : MSt) (why : String) : MSt := { s with fails := s.fails ++ [why] }

def getReq (s : MSt) (k : Nat) : Option MReq := (s.reqs.filter (fun r => r.k == k)).head?

def setReq (s : MSt) (k : Nat) (f : MReq → MReq) : MSt :=
  { s with reqs := s.reqs.map (fun r => if r.k == k then f r else r) }

def resolve (s : MSt) (k : Nat) : MSt := setReq s k (fun r => { r with pending := false })

/-- the bound a request issued now may be armed with -/
def boundOk (cfg : Cfg) (s : MSt) (r : MReq) (due : Rat) : Bool :=
  due == r.issued + cfg.timeout ||
  (r.isGroup && s.mins.any (fun m => due == r.issued + (if cfg.timeout < m then m else cfg.timeout)))

def endStep (s : MSt) : MSt :=
  let s1 := if s.owedDisc.isEmpty then s else fail s s!"timeout without disconnect of broker clients {s.owedDisc}"
  let s2 := match s1.lateOf with
    | some k => if s1.nobs == 1 then s1 else fail s1 s!"late reply to request {k} disturbed something"
    | none => s1
  { s2 with owedDisc := [], lateOf := none }

def stepItem (cfg : Cfg) (s : MSt) : TItem → MSt
  | .ev e =>
    let s := { (endStep s) with cur := some e, nobs := 0 }
    match e with
    | .advance dt => { s with now := s.now + dt }
    | .srtc _ _ (some m) => { s with mins := s.mins ++ [m] }
    | .fire k _ =>
      match getReq s k with
      | some r => if r.pending then resolve s k else { s with lateOf := some k }
      | none => fail s s!"completion of unknown request {k}"
    | _ => s
  | .ob o =>
    let s := { s with nobs := s.nobs + 1 }
    match o with
    | .mk k b _ what =>
      { s with reqs := s.reqs ++ [{ k := k, b := b, issued := s.now, isGroup := match what with | .group _ => true | _ => false }] }
    | .setTimer (.mrtb k) due =>
      match getReq s k with
      | none => fail s s!"timer for unknown request {k}"
      | some r =>
        let s1 := setReq s k (fun r => { r with due := some due })
        if boundOk cfg s r due then s1 else fail s1 s!"request {k} armed with the wrong bound"
    | .fired k _ => resolve s k
    | .late k =>
      match s.lateOf with
      | some k' => if k == k' then s else fail s s!"late {k}"
      | none => fail s s!"request {k} reported late but it was pending"
    | .cancelTimer (.mrtb k) =>
      match getReq s k with
      | some r => if r.pending then fail s s!"timer of request {k} cancelled while it is unresolved" else s
      | none => fail s s!"cancelTimer for unknown request {k}"
    | .bcCancel k =>
      -- a cancel issued by the clock at/after the due time is the timeout
      match s.cur, getReq s k with
      | some (.advance _), some r =>
        (match r.due with
         | some due => if due ≤ s.now && cfg.disconnectOnTimeout then { s with owedDisc := s.owedDisc ++ [r.b] } else s
         | none => s)
      | _, _ => s
    | .bcDisconnect b =>
      if !cfg.disconnectOnTimeout then fail s s!"disconnect of {b} although disconnect_on_timeout is off"
      else if s.owedDisc.contains b then { s with owedDisc := s.owedDisc.erase b }
      else fail s s!"disconnect of {b} without a timeout"
    | _ => s
  | .timers l =>
    -- after the step: exactly the unresolved requests own a pending timer, due at issued+bound, not overdue
    let names := l.filterMap (fun t => match t.1 with | .mrtb k => some (k, t.2) | _ => none)
    let s1 := (s.reqs.filter (·.pending)).foldl (fun s r =>
      match r.due with
      | none => fail s s!"request {r.k} has no timer"
      | some due =>
        if !names.contains (r.k, due) then fail s s!"unresolved request {r.k} owns no pending timer"
        else if due < s.now then fail s s!"request {r.k} unresolved after its bound"
        else s) s
    names.foldl (fun s n =>
      match getReq s n.1 with
      | some r => if r.pending then s else fail s s!"timer of resolved request {n.1} still pending"
      | none => fail s s!"timer of unknown request {n.1}") s1
  | _ => s

def run (cfg : Cfg) (tr : List TItem) : MSt := endStep (tr.foldl (stepItem cfg) {})

def ok (cfg : Cfg) (tr : List TItem) : Bool := (run cfg tr).fails.isEmpty

end Afkak.Monitor.C11
