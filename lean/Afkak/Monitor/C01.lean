import Afkak.Monitor.ProducerTrace
/-!
# Monitors for C01 — producer acknowledgements are truthful and fire exactly once
Decidable predicates over producer traces; proved of every model trace in `AfkakProps/C01.lean`,
evaluated by the driver on traces of the real `Producer`.
-/
namespace Afkak.Monitor.C01
open Afkak.Consts Afkak.Producer Afkak.Monitor.ProducerTrace

/-- A send's Deferred fires at most once. -/
def atMostOnceStep (_pre : Snap) (t : Track) (s : Step) : Bool :=
  decide (firedSids s.obs).Nodup && (firedSids s.obs).all (· ∉ t.fired)

def isEmptyResult : ProdRes → Bool
  | .none => true
  | .responses [] => true
  | _ => false

/-- the payloads of the request `ps` that the result reports failed (for a total failure: all of them) -/
def failedOf (ps : List Payload) (r : ProdRes) : List Payload :=
  match r with
  | .err _ => ps
  | _ => ps.filter (fun p => (failedTps [] r).contains p.tp)

/-- what C01 demands of one fired Deferred (`pre`: the bookkeeping before the step) -/
def fireOk (cfg : Cfg) (pre : Snap) (t : Track) (e : Ev) : Ob → Bool
  | .fire sid (.ok r) =>
    -- the client has just answered the produce request in flight, the answer carries response `r`
    -- with error 0, and that request's payload for r's topic/partition contains this send
    match completionOf e, t.cur, t.curRes with
    | some res, some (rid, ps), some res' =>
      (match e with | .produceDone k _ => k == rid | _ => true) && res == res' &&
      r.error == 0 && (respsOf res).contains r && ps.any (fun p => p.tp == r.tp && p.sids.contains sid)
    | _, _, _ => false
  | .fire sid .okNone =>
    -- only with acks = 0, while an answer of the client to the produce request in flight is handled, for a send
    -- that was in a request - and only if that request was HANDED TO A CONNECTION as far as the answer tells:
    -- the empty answer; or an answer that ends the batch for good (the attempts are used up) and does not list
    -- the send's payload among the failed ones
    cfg.acks == producerAckNotRequired && t.produced.contains sid &&
    (match completionOf e, t.cur, t.curRes with
     | some res, some (_, ps), some res' =>
       res == res' &&
       (isEmptyResult res ||
        (decide (cfg.maxAttempts ≤ pre.attempts) && !(failedOf ps res).any (fun p => p.sids.contains sid)))
     | _, _, _ => false)
  | .fire _ (.okExc _) => false     -- an exception object delivered as a SUCCESS value (F6)
  | _ => true

/-- Success is reported only for an acknowledged request that carried the send (and, with
    acks = 0, only once the request went out); never with an exception as value. -/
def successAckedStep (cfg : Cfg) (pre : Snap) (t : Track) (s : Step) : Bool :=
  let t0 := trackEv pre t s.ev
  -- success is only legitimate while the request whose result arrives in this step was still unanswered
  (s.obs.all (fun o => match o with
     | .fire _ (.ok _) => t.curRes.isNone | .fire _ .okNone => t.curRes.isNone | _ => true)) &&
  checkObs (fun tt o => fireOk cfg pre tt s.ev o) s.ev (isRetryStep t s.ev) t0 s.obs

/-- the messages a send contributes to its payload: its values in order, each with the call's key -/
def wireOf (t : Track) (sid : Sid) : List Msg := (t.sends.filter (·.sid = sid)).flatMap (·.wire)

/-- every payload is made of whole, known, distinct sends of its topic, and its messages are EXACTLY the
    messages of those sends - same keys, same values, same order -/
def payloadOk (t : Track) : Ob → Bool
  | .produce _ ps =>
    !ps.isEmpty && decide (payloadSids ps).Nodup && decide (ps.map (·.tp)).Nodup &&
    ps.all (fun p => !p.sids.isEmpty &&
      p.sids.all (fun sid => t.sends.any (fun r => r.sid == sid && r.topic == p.tp.topic)) &&
      p.msgs == p.sids.flatMap (wireOf t))
  | _ => true

def payloadStep (pre : Snap) (t : Track) (s : Step) : Bool :=
  s.obs.all (payloadOk (trackEv pre t s.ev))

/-- is this send exempt from "fires"?  Only if the client broke its contract (C07) for the send's OWN batch: some
    result for it did not account for every payload of its request (and, with acks = 0 - there are no responses to
    account for: what is not reported failed was handed over - was not even shaped like an answer to a request
    without acknowledgements).  Sends of other batches, earlier or later, are never exempt. -/
def exempt (cfg : Cfg) (t : Track) (sid : Sid) : Bool :=
  t.ex1.contains sid && (cfg.acks != producerAckNotRequired || t.ex0.contains sid)

/-- "Fires": whenever no batch is in flight, every send that was dispatched has fired - every outstanding send is
    still queued - except the sends of a batch for which the client did not account (`exempt`). -/
def resolvedFiredStep (cfg : Cfg) (pre : Snap) (t : Track) (s : Step) : Bool :=
  !s.post.idle || s.post.outstanding.all (fun x => s.post.queue.contains x || exempt cfg (track pre t s) x)

/-- With acknowledgements disabled the client's empty answer (request handed to the connection) is
    the send's success: no send fails with NoResponseError in such a step. -/
def acks0Step (cfg : Cfg) (_pre : Snap) (_t : Track) (s : Step) : Bool :=
  cfg.acks != producerAckNotRequired ||
    !(match completionOf s.ev with | some r => isEmptyResult r | none => false) ||
    s.obs.all (fun o => match o with | .fire _ (.err .noResponse) => false | _ => true)

/-- The client's empty answer (`None` / no responses) to the request in flight, taken in this step: every send of
    that request that was still outstanding fires in this very step - with acknowledgements disabled it SUCCEEDS
    with no value (the request was handed to a connection; that is all there is to wait for), otherwise it fails
    with NoResponseError. -/
def emptyAnswerStep (cfg : Cfg) (pre : Snap) (t : Track) (s : Step) : Bool :=
  match (if effective t s.ev then completionOf s.ev else none), t.cur, t.curRes with
  | some r, some (_, ps), none =>
    !isEmptyResult r ||
    (payloadSids ps).all (fun sid => !pre.outstanding.contains sid ||
       s.obs.contains (.fire sid (if cfg.acks == producerAckNotRequired then .okNone else .err .noResponse)))
  | _, _, _ => true

def atMostOnce (cfg : Cfg) (tr : List Step) : Bool := checkTrace cfg atMostOnceStep tr
def acks0 (cfg : Cfg) (tr : List Step) : Bool := checkTrace cfg (acks0Step cfg) tr
def emptyAnswer (cfg : Cfg) (tr : List Step) : Bool := checkTrace cfg (emptyAnswerStep cfg) tr
def successAcked (cfg : Cfg) (tr : List Step) : Bool := checkTrace cfg (successAckedStep cfg) tr
def payloads (cfg : Cfg) (tr : List Step) : Bool := checkTrace cfg payloadStep tr
def resolvedFired (cfg : Cfg) (tr : List Step) : Bool := checkTrace cfg (resolvedFiredStep cfg) tr

end Afkak.Monitor.C01
