import Afkak.Monitor.ProducerTrace
/-!
# Monitors for C01 — producer acknowledgements are truthful and fire exactly once
Decidable predicates over producer traces; proved of every model trace in `AfkakProps/C01.lean`,
evaluated by the driver on traces of the real `Producer`.
-/
namespace Afkak.Monitor.C01
open Afkak.Consts Afkak.Producer Afkak.Monitor.ProducerTrace

/-- A send's Deferred fires at most once. -/
def atMostOnceStep (_pre : Snap) (t : Track) (s : Step) : Bool :=
  decide (firedSids s.obs).Nodup && (firedSids s.obs).all (· ∉ t.fired)

def isEmptyResult : ProdRes → Bool
  | .none => true
  | .responses [] => true
  | _ => false

/-- what C01 demands of one fired Deferred -/
def fireOk (cfg : Cfg) (t : Track) (e : Ev) : Ob → Bool
  | .fire sid (.ok r) =>
    -- the client has just answered the produce request in flight, the answer carries response `r`
    -- with error 0, and that request's payload for r's topic/partition contains this send
    match completionOf e, t.cur, t.curRes with
    | some res, some (rid, ps), some res' =>
      (match e with | .produceDone k _ => k == rid | _ => true) && res == res' &&
      r.error == 0 && (respsOf res).contains r && ps.any (fun p => p.tp == r.tp && p.sids.contains sid)
    | _, _, _ => false
  | .fire sid .okNone =>
    -- only with acks = 0, while an answer of the client to the produce request is handled (the empty
    -- answer, or the failure that exhausts the retries of a batchmate), for a send that was in a request
    cfg.acks == producerAckNotRequired && (completionOf e).isSome && t.produced.contains sid
  | .fire _ (.okExc _) => false     -- an exception object delivered as a SUCCESS value (F6)
  | _ => true

/-- Success is reported only for an acknowledged request that carried the send (and, with
    acks = 0, only once the request went out); never with an exception as value. -/
def successAckedStep (cfg : Cfg) (pre : Snap) (t : Track) (s : Step) : Bool :=
  let t0 := trackEv pre t s.ev
  -- `ok` is only legitimate while the request whose result arrives in this step was still unanswered
  (s.obs.all (fun o => match o with | .fire _ (.ok _) => t.curRes.isNone | _ => true)) &&
  checkObs (fun tt o => fireOk cfg tt s.ev o) s.ev (isRetryStep t s.ev) t0 s.obs

/-- every payload is made of whole, known, distinct sends of its topic -/
def payloadOk (t : Track) : Ob → Bool
  | .produce _ ps =>
    !ps.isEmpty && decide (payloadSids ps).Nodup && decide (ps.map (·.tp)).Nodup &&
    ps.all (fun p => !p.sids.isEmpty &&
      p.sids.all (fun sid => t.sends.any (fun r => r.sid == sid && r.topic == p.tp.topic)))
  | _ => true

def payloadStep (pre : Snap) (t : Track) (s : Step) : Bool :=
  s.obs.all (payloadOk (trackEv pre t s.ev))

/-- "Fires": whenever no batch is in flight, every send that was dispatched has fired (given that
    the client accounted for every payload of every request, C07). -/
def resolvedFiredStep (cfg : Cfg) (pre : Snap) (t : Track) (s : Step) : Bool :=
  -- (with acks = 0 there are no responses to account for: what is not reported failed was handed over)
  !((track pre t s).acct || (cfg.acks == producerAckNotRequired && (track pre t s).acct0)) || !s.post.idle ||
    s.post.outstanding.all (· ∈ s.post.queue)

/-- With acknowledgements disabled the client's empty answer (request handed to the connection) is
    the send's success: no send fails with NoResponseError in such a step. -/
def acks0Step (cfg : Cfg) (_pre : Snap) (_t : Track) (s : Step) : Bool :=
  cfg.acks != producerAckNotRequired ||
    !(match completionOf s.ev with | some r => isEmptyResult r | none => false) ||
    s.obs.all (fun o => match o with | .fire _ (.err .noResponse) => false | _ => true)

def atMostOnce (cfg : Cfg) (tr : List Step) : Bool := checkTrace cfg atMostOnceStep tr
def acks0 (cfg : Cfg) (tr : List Step) : Bool := checkTrace cfg (acks0Step cfg) tr
def successAcked (cfg : Cfg) (tr : List Step) : Bool := checkTrace cfg (successAckedStep cfg) tr
def payloads (cfg : Cfg) (tr : List Step) : Bool := checkTrace cfg payloadStep tr
def resolvedFired (cfg : Cfg) (tr : List Step) : Bool := checkTrace cfg (resolvedFiredStep cfg) tr

end Afkak.Monitor.C01
