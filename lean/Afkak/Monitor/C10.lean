import Afkak.BrokerClient
import Afkak.BrokerClientR
/-!
# Monitor for C10 — what the property demands of an observed trace of `_KafkaBrokerClient`

Same trace type as `Monitor/C06.lean`.  The monitor tracks what an observer at the boundary knows:
the Deferreds handed out and not yet fired (`pend`, in issue order — a cancelled, answered, failed
or no-reply-and-written request has fired, so `pend` is exactly "unanswered and not cancelled"),
whether a connection / a connection attempt / a back-off timer exists, the clock, the number of
consecutive failed attempts, the broker address last announced, and whether `close()` was called.

`mstep policy` returns `none` when the step violates C10:

* **resend exact, once, in order**: the requests written when connection `c` comes up are exactly
  `pend`, in issue order, each once; while connected a new request is written once, at once, on the
  current connection; no other step writes anything (so: never twice on one connection, never a
  fired request);
* **reconnect iff**: when the connection is lost a connection attempt is made iff requests are
  pending and the client is not closed; an idle client connects on the next request, and only then;
  attempts go to the address last given by `updateMetadata`;
* **back-off**: a failed attempt arms a timer of `policy (consecutive failures)`, the next attempt
  is made when (and only when) that time has passed; the count restarts after a success;
* **close**: fires every pending Deferred, cancels the attempt or the timer, drops the connection,
  reports `down` exactly when the connection is gone, and no `connect`/`write`/timer ever follows.
-/
namespace Afkak.Monitor.C10
open Afkak.BrokerClient

structure MSt where
  pend : List (Nat × Int)
  nmake : Nat
  conn : Option Nat
  nconn : Nat
  losing : Bool
  attempt : Bool
  timer : Option Rat
  now : Rat
  failures : Nat
  closed : Bool
  host : Nat
  port : Nat
  wfail : Bool
  deriving DecidableEq, Repr

def MSt.init (host port : Nat) : MSt :=
  { pend := [], nmake := 0, conn := none, nconn := 0, losing := false, attempt := false, timer := none,
    now := 0, failures := 0, closed := false, host, port, wfail := false }

/-- (connection, serial, id, dropped-by-the-transport) of every write, in order -/
def writes : List Ob → List (Nat × Nat × Int × Bool)
  | [] => []
  | .write c k i :: os => (c, k, i, false) :: writes os
  | .writeLost c k i :: os => (c, k, i, true) :: writes os
  | _ :: os => writes os

def connects : List Ob → List (Nat × Nat)
  | [] => []
  | .connect h p :: os => (h, p) :: connects os
  | _ :: os => connects os

def timers : List Ob → List Rat
  | [] => []
  | .setTimer d :: os => d :: timers os
  | _ :: os => timers os

def fired : List Ob → List Nat
  | [] => []
  | .fire k _ _ :: os => k :: fired os
  | _ :: os => fired os

/-- nothing that C10 restricts happens in this step -/
def quiet (os : List Ob) : Bool := writes os == [] && connects os == [] && timers os == []

def unfire (pend : List (Nat × Int)) (os : List Ob) : List (Nat × Int) :=
  pend.filter (fun p => !(fired os).contains p.1)

/-- the connection has just gone away (`connectionLost`): reconnect iff something is pending -/
def afterLoss (m : MSt) (pend : List (Nat × Int)) (os : List Ob) : Option MSt :=
  let m1 := { m with conn := none, losing := false, pend := pend }
  if m.closed then
    (if connects os == [] && os.contains .down then some m1 else none)
  else if pend.isEmpty then
    (if connects os == [] then some m1 else none)
  else
    (if connects os == [(m.host, m.port)] then some { m1 with attempt := true, failures := 0 } else none)

def mstep (policy : Nat → Rat) (m : MSt) : Ev × List Ob → Option MSt
  | (.make id _, os) =>
    if os.contains (.raiseDup id) then (if quiet os then some m else none)
    else
      let k := m.nmake
      let m1 := { m with nmake := k + 1, pend := unfire (m.pend ++ [(k, id)]) os }
      if m.closed then (if quiet os then some m1 else none)
      else if timers os != [] then none
      else match m.conn with
        | some c =>
          if writes os == (if m.wfail then [] else [(c, k, id, m.losing)]) && connects os == [] then some m1 else none
        | none =>
          if writes os != [] then none
          else if !m.attempt && m.timer.isNone then
            (if connects os == [(m.host, m.port)] then some { m1 with attempt := true, failures := 0 } else none)
          else (if connects os == [] then some m1 else none)
  | (.cancel _, os) => if quiet os then some { m with pend := unfire m.pend os } else none
  | (.connOk, os) =>
    if os.contains .badOp then (if quiet os then some m else none)
    else if !m.attempt || m.closed then none
    else
      let c := m.nconn
      if writes os == (if m.wfail then [] else m.pend.map fun p => (c, p.1, p.2, false))
         && connects os == [] && timers os == []
      then some { m with conn := some c, nconn := c + 1, attempt := false, failures := 0, losing := false,
                         pend := unfire m.pend os }
      else none
  | (.connFail, os) =>
    if os.contains .badOp then (if quiet os then some m else none)
    else if !m.attempt || m.closed then none
    else
      let n := m.failures + 1
      if timers os == [policy n] && writes os == [] && connects os == []
      then some { m with attempt := false, failures := n, timer := some (m.now + policy n) } else none
  | (.advance dt, os) =>
    if os.contains .badOp then (if quiet os then some m else none)
    else
      let now' := m.now + dt
      if writes os != [] || timers os != [] then none
      else match m.timer with
        | some due =>
          if due ≤ now' then
            (if connects os == [(m.host, m.port)] && !m.closed then some { m with now := now', timer := none, attempt := true } else none)
          else (if connects os == [] then some { m with now := now' } else none)
        | none => if connects os == [] then some { m with now := now' } else none
  | (.bytesIn _, os) =>
    if writes os != [] || timers os != [] then none
    else if os.contains .raiseUnderflow then
      (if m.conn.isSome then afterLoss m (unfire m.pend os) os else none)
    else if connects os != [] then none
    else some { m with pend := unfire m.pend os, losing := m.losing || (m.conn.any fun c => os.contains (.lose c)) }
  | (.lost, os) =>
    if os.contains .badOp then (if quiet os then some m else none)
    else if writes os != [] || timers os != [] || m.conn.isNone then none
    else afterLoss m (unfire m.pend os) os
  | (.close, os) =>
    if os.contains .raiseAssert then (if quiet os then some m else none)
    else if !quiet os then none
    else if !(m.pend.all fun p => (fired os).contains p.1) then none
    else
      let m1 := { m with closed := true, pend := [], attempt := false, timer := none }
      match m.conn with
      | some c => if os.contains (.lose c) && !os.contains .down then some { m1 with losing := true } else none
      | none =>
        if os.contains .down && (!m.attempt || os.contains .cancelConnect) && (m.timer.isNone || os.contains .cancelTimer)
        then some m1 else none
  | (.disconnect, os) =>
    if !quiet os then none
    else match m.conn with
      | some c => if os.contains (.lose c) then some { m with losing := true } else none
      | none => some m
  | (.updateMetadata h p, os) => if quiet os then some { m with host := h, port := p } else none
  | (.writeFail on, os) => if quiet os then some { m with wfail := on } else none

def mrun (policy : Nat → Rat) (m : MSt) : List (Ev × List Ob) → Option MSt
  | [] => some m
  | t :: ts => match mstep policy m t with
    | none => none
    | some m' => mrun policy m' ts

def firstBad (policy : Nat → Rat) (m : MSt) (n : Nat) : List (Ev × List Ob) → Option Nat
  | [] => none
  | t :: ts => match mstep policy m t with
    | none => some n
    | some m' => firstBad policy m' (n + 1) ts

def accepts (policy : Nat → Rat) (host port : Nat) (tr : List (Ev × List Ob)) : Bool :=
  (mrun policy (MSt.init host port) tr).isSome

/-! ## Re-entrant callbacks

What C10 demands of the observation stream of `Afkak/BrokerClientR.lean` (or of the implementation
driven with callbacks that call back into the broker client), whatever runs re-entrantly: once a
`close()` has gone ahead no connection attempt, timer or write follows; no request is written twice
on one connection; a request whose Deferred has fired is never written afterwards; `down` is
reported at most once and only after `close()`. -/

structure RM where
  closed : Bool
  written : List (Nat × Nat)
  fired : List Nat
  downs : Nat
  ok : Bool
  deriving DecidableEq, Repr

def RM.init : RM := { closed := false, written := [], fired := [], downs := 0, ok := true }

open Afkak.BrokerClientR in
def r10Ob (m : RM) : ObR → RM
  | .closing => { m with closed := true }
  | .ob (.connect _ _) => { m with ok := m.ok && !m.closed }
  | .ob (.setTimer _) => { m with ok := m.ok && !m.closed }
  | .ob (.write c k _) =>
    { m with written := (c, k) :: m.written, ok := m.ok && !m.closed && !m.written.contains (c, k) && !m.fired.contains k }
  | .ob (.writeLost c k _) =>
    { m with written := (c, k) :: m.written, ok := m.ok && !m.closed && !m.written.contains (c, k) && !m.fired.contains k }
  | .ob (.fire k _ _) => { m with fired := k :: m.fired }
  | .ob .down => { m with downs := m.downs + 1, ok := m.ok && m.closed && m.downs == 0 }
  | .fuelOut => { m with ok := false }
  | _ => m

open Afkak.BrokerClientR in
def r10FirstBad (m : RM) (n : Nat) : List (EvR × List ObR) → Option Nat
  | [] => none
  | t :: ts =>
    let m' := t.2.foldl r10Ob m
    if m'.ok then r10FirstBad m' (n + 1) ts else some n

open Afkak.BrokerClientR in
def r10 (tr : List (EvR × List ObR)) : Bool := (r10FirstBad RM.init 0 tr).isNone

end Afkak.Monitor.C10
