import Afkak.ClientCache
/-!
# Monitor for C08 — what the property demands of OBSERVED cache snapshots.
Evaluated by the driver on dumps of the real `KafkaClient` taken before/after every metadata
response and every `_handle_responses`; proved of the model in `AfkakProps/C08.lean`.
The predicates are written with lookups only (they do not call `mergeTopicMetadata`).
-/
namespace Afkak.Monitor.C08
open Afkak.ClientCache Afkak.Consts

/-- routing entries (`topics_to_brokers`) of one topic -/
def t2bOf (c : Cache) (topic : String) : List (TP × Option Broker) := c.t2b.filter (fun e => e.1.1 == topic)

/-- the response's view of the brokers: node id ↦ address (a dict: last entry of an id wins) -/
def respBrokers (bs : List Broker) : List (Int × Broker) := dictOfList (bs.map (fun b => (b.nodeId, b)))

def respTopics (ts : List TopicMeta) : List (String × TopicMeta) := dictOfList (ts.map (fun t => (t.name, t)))

def respParts (tm : TopicMeta) : List (Int × PartMeta) := dictOfList (tm.parts.map (fun p => (p.part, p)))

/-- every broker the response lists is known at exactly the address the response gives, and a live
    broker client for it has been told that address -/
def brokersMirror (after : Cache) (bs : List Broker) : Bool :=
  (respBrokers bs).all (fun e =>
    get? e.1 after.brokers == some e.2 &&
    (match get? e.1 after.clients with | some a => a == e.2 | none => true))

/-- the leader the cache holds for one partition is what the response said: leaderless (`-1`) or a node
    the client has never heard of ⇒ `None`; otherwise that node, at the address the cache knows for it
    (which is the response's address when the response lists the node) -/
def leaderMirror (after : Cache) (topic : String) (p : PartMeta) : Bool :=
  match get? (topic, p.part) after.t2b with
  | none => false
  | some none => p.leader == -1 || !hasKey p.leader after.brokers
  | some (some b) => p.leader != -1 && b.nodeId == p.leader && get? p.leader after.brokers == some b

/-- one covered topic equals the response: error, sorted partition list, leader per partition, and no
    routing entry for a partition the response does not list -/
def topicMirror (after : Cache) (tm : TopicMeta) : Bool :=
  let parts := respParts tm
  get? tm.name after.topicErrs == some tm.err &&
  (if parts.isEmpty then !hasKey tm.name after.topicParts && (t2bOf after tm.name).isEmpty
   else
     get? tm.name after.topicParts == some (sortInts (parts.map (·.1))) &&
     parts.all (fun e => leaderMirror after tm.name e.2) &&
     (t2bOf after tm.name).all (fun e => hasKey e.1.2 parts))

/-- every topic the response does not mention is untouched -/
def othersUntouched (before after : Cache) (ts : List TopicMeta) : Bool :=
  let covered : String → Bool := fun t => hasKey t (respTopics ts)
  after.t2b.filter (fun e => !covered e.1.1) == before.t2b.filter (fun e => !covered e.1.1) &&
  after.topicParts.filter (fun e => !covered e.1) == before.topicParts.filter (fun e => !covered e.1) &&
  after.topicErrs.filter (fun e => !covered e.1) == before.topicErrs.filter (fun e => !covered e.1) &&
  after.groups == before.groups

/-- broker clients: a full, non-empty refresh closes exactly the clients of brokers it does not list
    (and forgets them); any other response closes none and keeps every client -/
def closesMissing (before after : Cache) (bs : List Broker) (fetchedAll : Bool) (closed : List Int) : Bool :=
  let listed : Int → Bool := fun n => hasKey n (respBrokers bs)
  if fetchedAll && !bs.isEmpty then
    sortInts closed == sortInts ((before.clients.filter (fun cl => !listed cl.1)).map (·.1)) &&
    after.clients.map (·.1) == (before.clients.filter (fun cl => listed cl.1)).map (·.1)
  else closed.isEmpty && after.clients.map (·.1) == before.clients.map (·.1)

/-- C08, first sentence, for one metadata response -/
def mirrorOk (before after : Cache) (bs : List Broker) (ts : List TopicMeta) (fetchedAll : Bool)
    (closed : List Int) : Bool :=
  brokersMirror after bs &&
  (respTopics ts).all (fun e => topicMirror after e.2) &&
  othersUntouched before after ts &&
  closesMissing before after bs fetchedAll closed

/-- the topic has no routing information left: the next request for it must re-resolve -/
def topicInvalid (c : Cache) (topic : String) : Bool :=
  !hasKey topic c.topicParts && (t2bOf c topic).isEmpty && !hasKey topic c.topicErrs

/-- C08, second sentence, for one pass of `_handle_responses` over `(topic, error)` responses in which
    `handled` responses were examined (all of them, or up to and including the one that raised):
    a not-leader / unknown-partition answer invalidates the topic, a coordinator error the group. -/
def invalidateOk (after : Cache) (group : Option String) (examined : List (String × Int)) : Bool :=
  examined.all (fun r =>
    (!clientTopicResetErrnos.contains r.2 || topicInvalid after r.1) &&
    (!clientGroupResetErrnos.contains r.2 ||
      (match group with | some g => !hasKey g after.groups | none => true)))

/-- a failed send leaves no routing at all -/
def allInvalid (c : Cache) : Bool :=
  c.t2b.isEmpty && c.topicParts.isEmpty && c.topicErrs.isEmpty && c.groups.isEmpty

/-- the client never forgets the address of a broker it has learned (`_brokers` is only ever added to or
    overwritten): the known brokers are what a broker-agnostic request - the metadata reload that heals stale
    routing - is tried on before the bootstrap hosts, which may be gone by then.  Evaluated on every pair of
    consecutive dumps; proved of every event of the model (`C08_brokers_never_forgotten`). -/
def brokersKept (before after : Cache) : Bool :=
  before.brokers.all (fun e => Afkak.ClientCache.hasKey e.1 after.brokers)

/-- cache well-formedness that the real client maintains (checked on every observed dump):
    unique keys, and a routing entry only for a partition listed for its topic -/
def wf (c : Cache) : Bool :=
  c.t2b.all (fun e => c.topicParts.any (fun tp => tp.1 == e.1.1 && tp.2.contains e.1.2)) &&
  -- every broker the routing refers to - a partition's leader, a group's coordinator - is a known broker
  -- (`_brokers` is never pruned: `_get_brokerclient` of a cached coordinator cannot meet an unknown node id)
  c.t2b.all (fun e => match e.2 with | some b => Afkak.ClientCache.hasKey b.nodeId c.brokers | none => true) &&
  c.groups.all (fun e => Afkak.ClientCache.hasKey e.2.nodeId c.brokers)

end Afkak.Monitor.C08
