import Afkak.Monitor.ProducerTrace
/-!
# Monitors for C09 — per-partition send order is preserved and retries are disciplined
-/
namespace Afkak.Monitor.C09
open Afkak.Consts Afkak.Producer Afkak.Monitor.ProducerTrace

def increasing : List Sid → Bool
  | a :: b :: rest => decide (a < b) && increasing (b :: rest)
  | _ => true

/-- Order: inside a payload the sends are in submission order (send ids are handed out in call order),
    each send is in one payload of the request only, and a payload for a topic/partition is either the
    one sent before for it (a retry) or made of sends all later than every send in the previous one. -/
def orderOk (t : Track) : Ob → Bool
  | .produce _ ps =>
    decide (payloadSids ps).Nodup &&
    ps.all (fun p => increasing p.sids &&
      (t.lastP.filter (·.1 == p.tp)).all (fun old =>
        old.2 == p.sids || old.2.all (fun a => p.sids.all (fun b => decide (a < b)))))
  | _ => true

def orderStep (pre : Snap) (t : Track) (s : Step) : Bool :=
  checkObs orderOk s.ev (isRetryStep t s.ev) (trackEv pre t s.ev) s.obs

/-- One batch in flight: a produce request that is not a retry is made only when NO PRODUCE REQUEST IS UNANSWERED
    (none was made yet, or the client has answered the last one - in this very step at the latest); it carries only
    sends that were never in a request, and is made only when every send of every earlier request has fired (the
    earlier batches are resolved) - except the sends of a batch for which the client did not account for every
    payload (C07; `ex1`: that batch only, not the ones before or after).  A retry carries only sends of the request
    it retries. -/
def oneBatchOk (retry : Bool) (t : Track) : Ob → Bool
  | .produce _ ps =>
    if retry then
      match t.cur with
      | some (_, prev) => (payloadSids ps).all (· ∈ payloadSids prev)
      | none => false
    else
      (t.cur.isNone || t.curRes.isSome) &&
      (payloadSids ps).all (· ∉ t.produced) && t.produced.all (fun x => t.fired.contains x || t.ex1.contains x)
  | _ => true

def oneBatchStep (pre : Snap) (t : Track) (s : Step) : Bool :=
  checkObs (oneBatchOk (isRetryStep t s.ev)) s.ev (isRetryStep t s.ev) (trackEv pre t s.ev) s.obs

/-- Retry only what failed: a retry sends exactly the payloads the previous attempt's result reported as failed
    (failed payloads, then error-coded responses, in that order; for a total failure - nothing was sent - the
    payloads of THAT request, all of them and nothing else), each unchanged, and never a payload acknowledged
    earlier in the batch. -/
def retryOk (retry : Bool) (t : Track) : Ob → Bool
  | .produce _ ps =>
    if retry then
      match t.curRes, t.cur with
      | some res, some (_, prev) =>
        (match res with
         | .err _ => decide (ps.map (·.tp)).Nodup && (ps.map (·.tp)).all (· ∈ prev.map (·.tp)) &&
                     (prev.map (·.tp)).all (· ∈ ps.map (·.tp))
         | _ => ps.map (·.tp) == failedTps [] res) &&
        ps.all (fun p => p.tp ∉ t.acked && (t.lastP.filter (·.1 == p.tp)).all (·.2 == p.sids) &&
                         t.lastP.any (·.1 == p.tp))
      | _, _ => false
    else true
  | _ => true

def retryStep (pre : Snap) (t : Track) (s : Step) : Bool :=
  checkObs (retryOk (isRetryStep t s.ev)) s.ev (isRetryStep t s.ev) (trackEv pre t s.ev) s.obs

/-- Attempt bound: at most `max(1, max_req_attempts)` produce requests per batch. -/
def attemptOk (cfg : Cfg) (retry : Bool) (t : Track) : Ob → Bool
  | .produce _ _ => decide (((if retry then t.chain + 1 else 1 : Nat) : Int) ≤ max 1 cfg.maxAttempts)
  | _ => true

def attemptStep (cfg : Cfg) (pre : Snap) (t : Track) (s : Step) : Bool :=
  checkObs (attemptOk cfg (isRetryStep t s.ev)) s.ev (isRetryStep t s.ev) (trackEv pre t s.ev) s.obs

/-- Geometric delays: the k-th timer (back-off or retry) set since the batch in flight was
    dispatched waits `init * factor^k`; the count restarts when the batch resolves. -/
def closeTo (tol a b : Rat) : Bool :=
  decide (a - b ≤ tol * max 1 b) && decide (b - a ≤ tol * max 1 b)

/-- `tol`: relative tolerance for comparing an implementation's float with the exact value
    (0 for model traces: exact equality). -/
def geometricOk (cfg : Cfg) (tol : Rat) (t : Track) : Ob → Bool
  | .setTimer _ d =>
    -- delays GROW: the factor in the source is above 1
    decide (1 < producerRetryFactor) && closeTo tol d (cfg.initInterval * producerRetryFactor ^ t.timersSinceReset)
  | _ => true

def geometricStep (cfg : Cfg) (tol : Rat) (pre : Snap) (t : Track) (s : Step) : Bool :=
  checkObs (geometricOk cfg tol) s.ev (isRetryStep t s.ev) (trackEv pre t s.ev) s.obs

/-- what an answer says failed, and how: failed payloads with their failure, then error-coded responses with
    their code; a total failure of Kafka kind fails every payload of the request -/
def failedKinds (ps : List Payload) : ProdRes → List (TP × ErrKind)
  | .responses rs => (rs.filter (·.error ≠ 0)).map (fun r => (r.tp, .broker r.error))
  | .failed rs fs => fs.map (fun f => (f.tp, f.kind)) ++ (rs.filter (·.error ≠ 0)).map (fun r => (r.tp, .broker r.error))
  | .err k => if k.isKafka then ps.map (fun p => (p.tp, k)) else []
  | .none => []

/-- every send of the payloads `ps` for `tp` that is still outstanding fires `o` in this step -/
def firesOn (pre : Snap) (s : Step) (ps : List Payload) (tp : TP) (o : Outcome) : Bool :=
  (ps.filter (·.tp = tp)).all (fun p => p.sids.all (fun sid =>
    !pre.outstanding.contains sid || s.obs.contains (.fire sid o)))

/-- Acknowledged ones are reported at once: in the step that takes the client's answer to the request in flight,
    every send riding on a payload the answer acknowledges (error 0) that was still outstanding fires `ok` with
    that very response; when the answer ends the batch for good (attempts used up, not stopping) every send
    still outstanding on a payload it reports failed fails with THAT error; and a failure that is no Kafka error
    fails every send of the request with it, retries left or not. -/
def reportedStep (cfg : Cfg) (pre : Snap) (t : Track) (s : Step) : Bool :=
  match (if effective t s.ev then completionOf s.ev else none), t.cur, t.curRes with
  | some r, some (_, ps), none =>
    ((respsOf r).filter (·.error = 0)).all (fun resp => firesOn pre s ps resp.tp (.ok resp)) &&
    (!(decide (cfg.maxAttempts ≤ pre.attempts) && !(trackEv pre t s.ev).stopped) ||
      (failedKinds ps r).all (fun f => firesOn pre s ps f.1 (.err f.2))) &&
    (match r with
     | .err k => k.isKafka || ps.all (fun p => firesOn pre s ps p.tp (.err k))
     | _ => true)
  | _, _, _ => true

def order (cfg : Cfg) (tr : List Step) : Bool := checkTrace cfg orderStep tr
def reported (cfg : Cfg) (tr : List Step) : Bool := checkTrace cfg (reportedStep cfg) tr
def oneBatch (cfg : Cfg) (tr : List Step) : Bool := checkTrace cfg oneBatchStep tr
def retryOnlyFailed (cfg : Cfg) (tr : List Step) : Bool := checkTrace cfg retryStep tr
def attemptBound (cfg : Cfg) (tr : List Step) : Bool := checkTrace cfg (attemptStep cfg) tr
def geometric (cfg : Cfg) (tol : Rat) (tr : List Step) : Bool := checkTrace cfg (geometricStep cfg tol) tr

end Afkak.Monitor.C09
