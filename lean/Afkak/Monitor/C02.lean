import Afkak.Consumer
/-!
# Monitors for C02 — evaluated by the driver on IMPLEMENTATION traces, proved of every model trace.

A trace is the chronological list of `Item`s: applied events (`ev`), rejected events (`rej`, ignored)
and observations (`ob`).  Every monitor is a fold `stepM` over the trace with a small state; `none` =
the property is violated.  `runR` folds a NEWEST-FIRST list (the shape the model accumulates), `…Ok`
takes the chronological trace.
-/
namespace Afkak.Monitor
open Afkak.Consumer

/-- Fold a monitor over a newest-first trace. -/
def runR {σ : Type} (f : σ → Item → Option σ) (init : σ) : List Item → Option σ
  | [] => some init
  | x :: rest => (runR f init rest).bind (fun m => f m x)

def accepts {σ : Type} (f : σ → Item → Option σ) (init : σ) (tr : List Item) : Bool :=
  (runR f init tr.reverse).isSome

/-- strictly increasing offsets, all above `lo` when given -/
def incFrom : Option Int → List Msg → Bool
  | _, [] => true
  | none, m :: ms => incFrom (some m.off) ms
  | some lo, m :: ms => decide (lo < m.off) && incFrom (some m.off) ms

def lastOff : List Msg → Option Int
  | [] => none
  | [m] => some m.off
  | _ :: ms => lastOff ms

namespace C02

/-! ### Strictly increasing delivery; the only discontinuities are `start` and the reset policy -/

structure IncSt where
  last : Option Int := none     -- offset of the last message handed to the processor
  armed : Bool := false         -- a permitted discontinuity has happened since the last descent
  saved : Bool := false         -- `armed` before the latest `start` call (restored if it raised)
  deriving DecidableEq, Repr

/-- `hasReset`: an `auto_offset_reset` policy is configured. -/
def incStep (hasReset : Bool) (m : IncSt) : Item → Option IncSt
  | .ev (.start _) => some { m with armed := true, saved := m.armed }
  | .ob .raisedRestart => some { m with armed := m.saved }
  | .ev (.fetchErr _ .outOfRange _) => some (if hasReset then { m with armed := true } else m)
  | .ob (.proc blk) =>
    match blk with
    | [] => none                      -- the processor is never called with an empty list
    | b :: _ =>
      if incFrom none blk then
        match m.last with
        | none => some { m with last := lastOff blk }
        | some l =>
          if l < b.off then some { m with last := lastOff blk }
          else if m.armed then some { m with last := lastOff blk, armed := false }
          else none
      else none
  | _ => some m

def increasingOk (hasReset : Bool) (tr : List Item) : Bool := accepts (incStep hasReset) {} tr

/-! ### The processor is never invoked while its previous result is pending -/

def ovStep (pending : Bool) : Item → Option Bool
  | .ob (.proc _) => if pending then none else some false
  | .ob (.procRet .defer) => some true
  | .ob .procCancel => some false
  | .ev .procOk => some false
  | .ev (.procErr _ _) => some false
  | _ => some pending

def noOverlapOk (tr : List Item) : Bool := accepts ovStep false tr

/-! ### One outstanding (uncancelled) fetch/offset request, one scheduled refetch -/

structure SfSt where
  req : Option Nat := none
  timer : Bool := false
  deriving DecidableEq, Repr

def sfDone (m : SfSt) (k : Nat) : SfSt := if m.req == some k then { m with req := none } else m

def sfStep (m : SfSt) : Item → Option SfSt
  | .ob (.fetch k _ _) => if m.req.isNone then some { m with req := some k } else none
  | .ob (.offsets k _) => if m.req.isNone then some { m with req := some k } else none
  | .ob (.offsetFetch k) => if m.req.isNone then some { m with req := some k } else none
  | .ob (.cancelReq k) => some (sfDone m k)
  | .ev (.fetchOk k _) => some (sfDone m k)
  | .ev (.fetchErr k _ _) => some (sfDone m k)
  | .ev (.offsetOk k _) => some (sfDone m k)
  | .ev (.offsetErr k _ _) => some (sfDone m k)
  | .ev (.offsetFetchOk k _) => some (sfDone m k)
  | .ev (.offsetFetchErr k _ _) => some (sfDone m k)
  | .ob (.setTimer .retry _) => if m.timer then none else some { m with timer := true }
  | .ob (.cancelTimer .retry) => some { m with timer := false }
  | .ev .retryFire => some { m with timer := false }
  | _ => some m

def singleFetchOk (tr : List Item) : Bool := accepts sfStep {} tr

/-! ### Every delivered message is one a fetch reply carried (offset and payload as stored) -/

def payStep (seen : List Msg) : Item → Option (List Msg)
  | .ev (.fetchOk _ r) => some (r.msgs ++ seen)
  | .ob (.proc blk) => if blk.all (fun m => seen.contains m) then some seen else none
  | _ => some seen

def payloadOk (tr : List Item) : Bool := accepts payStep [] tr

/-! ### No gap, no duplicate, against a partition log (environment contract `FaithfulLog`) -/

/-- the first log entry at or above `off` (the log is ascending) -/
def firstFrom (log : List Msg) (off : Int) : Option Msg := (log.filter (fun m => decide (off ≤ m.off))).head?

/-- the log entry following the one with offset `off` -/
def succIn (log : List Msg) (off : Int) : Option Msg := firstFrom log (off + 1)

structure GapSt where
  from? : Option Int := none     -- delivery must (re)start at the first log entry ≥ this
  last : Option Int := none      -- otherwise it continues after this offset
  deriving DecidableEq, Repr

/-- check one block: each message is the log entry expected next -/
def gapBlock (log : List Msg) : GapSt → List Msg → Option GapSt
  | m, [] => some m
  | m, x :: xs =>
    let expected := match m.from?, m.last with
      | some f, _ => firstFrom log f
      | none, some l => succIn log l
      | none, none => none
    if expected == some x then gapBlock log { from? := none, last := some x.off } xs else none

def gapStep (log : List Msg) (reset : Option Int) (m : GapSt) : Item → Option GapSt
  | .ev (.start off) => some (if 0 ≤ off then { from? := some off, last := none } else { from? := none, last := none })
  | .ev (.offsetOk _ off) => some { from? := some off, last := none }
  | .ev (.offsetFetchOk _ off) => some (if 0 ≤ off then { from? := some (off + 1), last := none } else m)
  | .ob (.proc blk) => gapBlock log m blk
  | _ => let _ := reset; some m

def noGapOk (log : List Msg) (reset : Option Int) (tr : List Item) : Bool := accepts (gapStep log reset) {} tr

end C02
end Afkak.Monitor
