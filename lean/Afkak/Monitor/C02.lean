import Afkak.Consumer
/-!
# Monitors for C02 — evaluated by the driver on IMPLEMENTATION traces, proved of every model trace.

A trace is the chronological list of `Item`s: applied events (`ev`), rejected events (`rej`, ignored)
and observations (`ob`).  Every monitor is a fold over the trace with a small state whose flag `bad`
is set (and never cleared) when the property is violated.  `runR` folds a NEWEST-FIRST list (the shape the model accumulates), `…Ok`
takes the chronological trace.
-/
namespace Afkak.Monitor
open Afkak.Consumer

/-- Fold a monitor over a newest-first trace (the shape the model accumulates). -/
def runR {σ : Type} (f : σ → Item → σ) (init : σ) : List Item → σ
  | [] => init
  | x :: rest => f (runR f init rest) x

/-- A monitor state records a violation in a sticky flag. -/
class HasBad (σ : Type) where
  bad : σ → Bool

def accepts {σ : Type} [HasBad σ] (f : σ → Item → σ) (init : σ) (tr : List Item) : Bool :=
  !HasBad.bad (runR f init tr.reverse)

/-- strictly increasing offsets, all above `lo` when given -/
def incFrom : Option Int → List Msg → Bool
  | _, [] => true
  | none, m :: ms => incFrom (some m.off) ms
  | some lo, m :: ms => decide (lo < m.off) && incFrom (some m.off) ms

def lastOff : List Msg → Option Int
  | [] => none
  | [m] => some m.off
  | _ :: ms => lastOff ms

namespace C02

/-! ### Strictly increasing delivery; the only discontinuities are `start` and the reset policy -/

structure IncSt where
  last : Option Int := none     -- offset of the last message handed to the processor
  armed : Bool := false         -- a permitted discontinuity has happened since the last descent
  saved : Bool := false         -- `armed` before the latest `start` call (restored if it raised)
  bad : Bool := false
  deriving DecidableEq, Repr

instance : HasBad IncSt := ⟨IncSt.bad⟩

/-- `hasReset`: an `auto_offset_reset` policy is configured. -/
def incStep (hasReset : Bool) (m : IncSt) : Item → IncSt
  | .ev (.start _) => { m with armed := true, saved := m.armed }
  | .ob .raisedRestart => { m with armed := m.saved }
  | .ev (.fetchErr _ .outOfRange _) => if hasReset then { m with armed := true } else m
  | .ob (.proc blk) =>
    match blk with
    | [] => { m with bad := true }        -- the processor is never called with an empty list
    | b :: _ =>
      if incFrom none blk then
        match m.last with
        | none => { m with last := lastOff blk }
        | some l =>
          if l < b.off then { m with last := lastOff blk }
          else if m.armed then { m with last := lastOff blk, armed := false }
          else { m with bad := true }
      else { m with bad := true }
  | _ => m

def increasingOk (hasReset : Bool) (tr : List Item) : Bool := accepts (incStep hasReset) {} tr

/-! ### The processor is never invoked while its previous result is pending -/

structure OvSt where
  pending : Bool := false
  bad : Bool := false
  deriving DecidableEq, Repr

instance : HasBad OvSt := ⟨OvSt.bad⟩

def ovStep (m : OvSt) : Item → OvSt
  | .ob (.proc _) => if m.pending then { m with bad := true } else m
  | .ob (.procRet .defer) => { m with pending := true }
  | .ob .procCancel => { m with pending := false }
  | .ev .procOk => { m with pending := false }
  | .ev (.procErr _ _) => { m with pending := false }
  | _ => m

def noOverlapOk (tr : List Item) : Bool := accepts ovStep {} tr

/-! ### One outstanding (uncancelled) fetch/offset request, one scheduled refetch -/

structure SfSt where
  req : Option Nat := none
  timer : Bool := false
  bad : Bool := false
  deriving DecidableEq, Repr

instance : HasBad SfSt := ⟨SfSt.bad⟩

def sfDone (m : SfSt) (k : Nat) : SfSt := if m.req == some k then { m with req := none } else m

def sfIssue (m : SfSt) (k : Nat) : SfSt := if m.req.isNone then { m with req := some k } else { m with bad := true }

def sfStep (m : SfSt) : Item → SfSt
  | .ob (.fetch k _ _) => sfIssue m k
  | .ob (.offsets k _) => sfIssue m k
  | .ob (.offsetFetch k) => sfIssue m k
  | .ob (.cancelReq k) => sfDone m k
  | .ev (.fetchOk k _) => sfDone m k
  | .ev (.fetchErr k _ _) => sfDone m k
  | .ev (.offsetOk k _) => sfDone m k
  | .ev (.offsetErr k _ _) => sfDone m k
  | .ev (.offsetFetchOk k _) => sfDone m k
  | .ev (.offsetFetchErr k _ _) => sfDone m k
  | .ob (.setTimer .retry _) => if m.timer then { m with bad := true } else { m with timer := true }
  | .ob (.cancelTimer .retry) => { m with timer := false }
  | .ev .retryFire => { m with timer := false }
  | _ => m

def singleFetchOk (tr : List Item) : Bool := accepts sfStep {} tr

/-! ### Every delivered message is one a fetch reply carried (offset and payload as stored) -/

structure PaySt where
  seen : List Msg := []
  bad : Bool := false
  deriving DecidableEq, Repr

instance : HasBad PaySt := ⟨PaySt.bad⟩

def payStep (m : PaySt) : Item → PaySt
  | .ev (.fetchOk _ r) => { m with seen := r.msgs ++ m.seen }
  | .ob (.proc blk) => if blk.all (fun x => m.seen.contains x) then m else { m with bad := true }
  | _ => m

def payloadOk (tr : List Item) : Bool := accepts payStep {} tr

/-! ### No gap, no duplicate, against a partition log (environment contract `FaithfulLog`) -/

/-- the first log entry at or above `off` (the log is ascending) -/
def firstFrom (log : List Msg) (off : Int) : Option Msg := (log.filter (fun m => decide (off ≤ m.off))).head?

/-- the log entry following the one with offset `off` -/
def succIn (log : List Msg) (off : Int) : Option Msg := firstFrom log (off + 1)

structure GapSt where
  from? : Option Int := none     -- a (re)start is pending: delivery may jump to the first log entry ≥ this
  last : Option Int := none      -- offset of the last message delivered in this run
  savedFrom : Option Int := none -- both, as they were before the latest `start` call (restored if it raised)
  savedLast : Option Int := none
  bad : Bool := false
  deriving DecidableEq, Repr

instance : HasBad GapSt := ⟨GapSt.bad⟩

/-- the rest of a block: each message is the log entry following the previous one -/
def gapRest (log : List Msg) : Int → List Msg → Option Int
  | l, [] => some l
  | l, x :: xs => if succIn log l == some x then gapRest log x.off xs else none

/-- one block: it continues after the last delivered message, or takes the pending (re)start -/
def gapBlock (log : List Msg) (m : GapSt) : List Msg → GapSt
  | [] => { m with bad := true }
  | x :: xs =>
    let continues := match m.last with
      | some l => succIn log l == some x
      | none => false
    let restarts := match m.from? with
      | some f => firstFrom log f == some x
      | none => false
    match gapRest log x.off xs with
    | none => { m with bad := true }
    | some l =>
      if continues then { m with last := some l }
      else if restarts then { m with from? := none, last := some l }
      else { m with bad := true }

def gapStep (log : List Msg) (m : GapSt) : Item → GapSt
  | .ev (.start off) => { m with from? := (if 0 ≤ off then some off else none), last := none, savedFrom := m.from?, savedLast := m.last }
  | .ob .raisedRestart => { m with from? := m.savedFrom, last := m.savedLast }
  | .ev (.offsetOk _ off) => { m with from? := some off }
  | .ev (.offsetFetchOk _ off) => if 0 ≤ off then { m with from? := some (off + 1) } else m
  | .ob (.proc blk) => gapBlock log m blk
  | _ => m

def noGapOk (log : List Msg) (tr : List Item) : Bool := accepts (gapStep log) {} tr

/-- `noGapOk` and, at the end of a FAIR run that was driven until nothing more can happen, everything
    in the log from the start position has been delivered. -/
def completeOk (log : List Msg) (tr : List Item) : Bool :=
  let m := runR (gapStep log) {} tr.reverse
  !m.bad && (match m.from?, m.last with
    | some f, _ => (firstFrom log f).isNone
    | none, some l => (succIn log l).isNone
    | none, none => true)

/-! ### Every fetched message is handed to the processor promptly

A reply that carries a message at or above the offset the request asked for, arriving while the
consumer runs (not shutting down, not halted by a processor failure, no processor result pending) makes
the processor run in the same step; a reply that arrived while a result was pending is handled as soon
as that result arrives. -/

structure PrSt where
  running : Bool := false
  savedRunning : Bool := false
  shut : Bool := false
  savedShut : Bool := false
  halted : Bool := false
  savedHalted : Bool := false
  pending : Bool := false          -- a processor result is pending
  parked : Option Int := none      -- a reply with new messages (from this offset) waits behind it
  offs : List (Nat × Int) := []    -- fetch requests: (id, offset asked for)
  cancelled : List Nat := []
  expect : Bool := false
  bad : Bool := false
  deriving DecidableEq, Repr

instance : HasBad PrSt := ⟨PrSt.bad⟩

def prStep (m : PrSt) : Item → PrSt
  | .ev (.start _) => { m with running := true, savedRunning := m.running, halted := false, savedHalted := m.halted }
  | .ob .raisedRestart => { m with running := m.savedRunning, halted := m.savedHalted }
  | .ev .shutdown => { m with shut := true, savedShut := m.shut }
  | .ob (.act .shutdown) => { m with shut := true, savedShut := m.shut }
  | .ob .shutdownRejected => { m with shut := m.savedShut }
  | .ob (.shutdownFired _) => { m with shut := false, running := false, parked := none, pending := false, expect := false }
  | .ob (.stopReturned _) => { m with running := false, parked := none, pending := false, expect := false }
  | .ob (.act .stop) => { m with expect := false }
  | .ob (.fetch k off _) => { m with offs := (k, off) :: m.offs }
  | .ob (.cancelReq k) => { m with cancelled := k :: m.cancelled }
  | .ev (.fetchOk k r) =>
    match m.offs.lookup k with
    | some off =>
      if r.msgs.any (fun x => decide (off ≤ x.off)) && !m.cancelled.contains k && m.running && !m.shut && !m.halted then
        (if m.pending then { m with parked := (r.msgs.filter (fun x => decide (off ≤ x.off))).head?.map (·.off) } else { m with expect := true })
      else m
    | none => m
  | .ob (.proc blk) =>
    { m with expect := false,
             parked := match m.parked with
               | some po => if blk.any (fun x => decide (po ≤ x.off)) then none else some po
               | none => none }
  | .ob (.procRet .defer) => { m with pending := true }
  -- a processor that raises (whatever the class: CancelledError is swallowed only while `_stopping`, and then
  -- `stopReturned` follows and the next `start` clears `halted`) is passed on: the consumer is halted
  | .ob (.procRet (.err _ _)) => { m with halted := true, parked := none }
  | .ob .procCancel => { m with pending := false, parked := none }
  | .ev .procOk => if m.parked.isSome && m.running && !m.shut && !m.halted then { m with pending := false, expect := true } else { m with pending := false }
  | .ev (.procErr _ _) => { m with pending := false, halted := true, parked := none }
  | .ob (.probe _ _) => if m.expect then { m with bad := true } else m
  | _ => m

def promptOk (tr : List Item) : Bool := accepts prStep {} tr

end C02
end Afkak.Monitor
