import Afkak.Producer
/-!
# `Producer.send_messages`: argument validation (the `try:` block at its head)

`Afkak/Producer.lean`'s `send` event carries arguments that are already well typed (a topic, `bytes | None` key,
a list of `bytes | None` messages); of the validation only "`msgs` is empty ⇒ ValueError" was inside the model.
Here are the arguments as Python hands them over - any object in any position - and the checks in the order the
code makes them:

    topic = _coerce_topic(topic)                       # not str: TypeError; len < 1 or > 249: ValueError
    if key is not None and not isinstance(key, bytes): raise TypeError
    if not msgs: raise ValueError                      # None, (), [], "", b"", 0, …
    msg_cnt = len(msgs)                                # no len(): TypeError
    for index, m in enumerate(msgs): None → skip; not bytes → TypeError; byte_cnt += len(m)
    except Exception: return fail()

A refused call returns an already failed Deferred and touches NOTHING of the Producer (no Deferred is registered,
no counter moves); an accepted call IS the model's `send` event with the coerced arguments, and the counts it adds
are the model's (`msgs.length`, `msgBytes msgs`).
-/
namespace Afkak.ProducerArgs
open Afkak.Producer Afkak.Consts

/-- the `topic` argument: a `str` (its length, and which topic of the model it names) or anything else -/
inductive PyTopic
  | str (len : Nat) (t : Topic)
  | other
  deriving DecidableEq, Repr

/-- the `key` argument -/
inductive PyKey
  | none
  | bytes (b : List UInt8)
  | other
  deriving DecidableEq, Repr

/-- one element of `msgs` -/
inductive PyMsg
  | none
  | bytes (size : Nat)
  | other                     -- str, int (an element of a bytes object), bytearray, …
  deriving DecidableEq, Repr

/-- the `msgs` argument -/
inductive PyMsgs
  | falsy                     -- `not msgs`: None, an empty sequence/str/bytes, 0, False
  | sized (ms : List PyMsg)   -- a truthy object with `len()` and iteration: list, tuple, str, bytes (elements: `other`)
  | unsized                   -- truthy, no `len()`: a generator, an int, an object
  deriving DecidableEq, Repr

structure Args where
  topic : PyTopic
  key : PyKey
  msgs : PyMsgs
  deriving DecidableEq, Repr

def typeError : ErrKind := .other 3
def valueError : ErrKind := .other 4

def PyMsg.toModel : PyMsg → Option (Option Nat)
  | .none => some Option.none
  | .bytes n => some (some n)
  | .other => Option.none

/-- the loop over `enumerate(msgs)`: the first element that is neither `None` nor `bytes` raises TypeError -/
def checkMsgs : List PyMsg → Except ErrKind (List (Option Nat))
  | [] => .ok []
  | m :: rest =>
    match m.toModel with
    | Option.none => .error typeError
    | some v => match checkMsgs rest with
      | .error e => .error e
      | .ok vs => .ok (v :: vs)

/-- what the call is accepted as: the model's `send` arguments -/
structure Accepted where
  topic : Topic
  key : Option (List UInt8)
  msgs : List (Option Nat)
  deriving DecidableEq, Repr

/-- the `try:` block of `send_messages`, check by check, in the code's order -/
def validate (a : Args) : Except ErrKind Accepted :=
  match a.topic with
  | .other => .error typeError
  | .str len t =>
    if len < producerTopicMinLen then .error valueError
    else if len > producerTopicMaxLen then .error valueError
    else
      let key : Except ErrKind (Option (List UInt8)) := match a.key with
        | .none => .ok Option.none
        | .bytes b => .ok (some b)
        | .other => .error typeError
      match key with
      | .error e => .error e
      | .ok k =>
        match a.msgs with
        | .falsy => .error valueError
        | .unsized => .error typeError
        | .sized [] => .error valueError      -- (an empty sized object is falsy)
        | .sized ms =>
          match checkMsgs ms with
          | .error e => .error e
          | .ok vs => .ok { topic := t, key := k, msgs := vs }

/-- events of the Producer with `send_messages` taking raw arguments -/
inductive EvA
  | flat (e : Ev)
  | sendRaw (a : Args)

/-- observations: the Producer's, or "the call returned an already failed Deferred" (which is not one of
    `_outstanding`: it has no send id) -/
inductive ObA
  | flat (o : Ob)
  | refused (k : ErrKind)
  deriving DecidableEq, Repr

/-- `send_messages(topic, key, msgs)` with raw arguments: refused by the validation (nothing changes), or the
    model's `send` with the next send id -/
def stepA (cfg : Cfg) (st : St) : EvA → St × List ObA
  | .flat e => let r := step cfg st e; (r.1, r.2.map .flat)
  | .sendRaw a =>
    match validate a with
    | .error k => (st, [.refused k])
    | .ok acc => let r := step cfg st (.send st.nextSid acc.topic acc.key acc.msgs); (r.1, r.2.map .flat)

def runA (cfg : Cfg) : St → List EvA → St × List ObA
  | st, [] => (st, [])
  | st, e :: es =>
    let (st1, obs1) := stepA cfg st e
    let (st2, obs2) := runA cfg st1 es
    (st2, obs1 ++ obs2)

/-- the Producer events of a run with raw sends: refused calls erased, accepted ones as `send` -/
def erase (cfg : Cfg) : St → List EvA → List Ev
  | _, [] => []
  | st, .flat e :: es => e :: erase cfg (step cfg st e).1 es
  | st, .sendRaw a :: es =>
    match validate a with
    | .error _ => erase cfg st es
    | .ok acc =>
      .send st.nextSid acc.topic acc.key acc.msgs :: erase cfg (step cfg st (.send st.nextSid acc.topic acc.key acc.msgs)).1 es

def flatObs : List ObA → List Ob
  | [] => []
  | .flat o :: r => o :: flatObs r
  | .refused _ :: r => flatObs r

end Afkak.ProducerArgs
