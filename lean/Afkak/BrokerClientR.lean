import Afkak.BrokerClient
/-!
# `_KafkaBrokerClient` with RE-ENTRANT callbacks

`Afkak/BrokerClient.lean` treats every API call / network event as one atomic step.  That is exact as
long as the callbacks a caller attaches to the Deferreds of `makeRequest` do not call back into the
broker client.  Twisted runs callbacks synchronously inside `callback()`/`errback()`/`cancel()`, so a
caller's callback that calls `close()`, `disconnect()`, `makeRequest()` or cancels another request
runs IN THE MIDDLE of `_sendQueued`'s loop, of `close()`'s pop loop or between two packets of one
`dataReceived`.  This file is the same machine with those loops written out as the code has them, so
that a callback ("hook") can run at the exact point the code fires a Deferred:

* `_sendQueued` iterates over a COPY of the table taken when the connection came up; an entry that
  is no longer in the table when its turn comes (cancelled or failed by a callback run by an earlier
  iteration) is skipped, everything else that is still unsent is sent (`sendLoop`);
* `close()` pops the table entry by entry and errbacks each uncancelled one (`closeLoop`);
* `IntNStringReceiver.dataReceived` keeps delivering the packets of the chunk after a callback has
  called `close()`/`disconnect()` (`frames`).

The harness attaches its callbacks right after `makeRequest` returned, so a Deferred that fired inside
`makeRequest` (request failed at once, or written without expecting a reply) runs its hook after the
call, and `down` is observed after `close()` returned.  Observations are those of the flat model plus
markers: `made` (makeRequest returned Deferred number `serial`), `closing` (`close()` went ahead),
`hookBegin`/`hookEnd` around everything a re-entrant action does.

The endpoint may also report the outcome of `connect()` SYNCHRONOUSLY (`syncMode ok|fail`: the Deferred has
already fired when `connect()` returns — an in-process endpoint, `reactor.connectTCP` raising, a failing
endpoint factory): then `cbConnect` (with `_sendQueued` and every callback it runs) or `ebConnect` (the
back-off timer) runs INSIDE `tryConnect()`, i.e. inside `makeRequest` (`makeS`), inside `_connectionLost`
(`lost`) or inside the timer (`dial`).  With `syncMode none` these tasks are not used and the model is the
one above.

A hook is a finite list of actions; each Deferred fires at most once, so hooks nest at most as deep as
there are requests; `fuel` (decremented on every call) bounds the recursion structurally, `fuelOut` would be
emitted if it ran out (it cannot for fuel ≥ the size of the scenario; the driver uses 100000).
-/
namespace Afkak.BrokerClientR
open Afkak.Frame Afkak.BrokerClient Afkak.Consts

/-- one call a callback makes into the broker client -/
inductive Action
  | close
  | disconnect
  | cancel (id : Int)
  | make (id : Int) (expect : Bool)
  deriving DecidableEq, Repr

/-- a callback: any finite sequence of calls (each call's own exception — `AssertionError` of a second
    `close()`, `DuplicateRequestError` — is caught by the callback, the next call still runs) -/
abbrev Hook := List Action

inductive ObR
  | ob (o : Ob)
  | made (serial : Nat) (id : Int)
  | closing
  | hookBegin (serial : Nat)
  | hookEnd
  | fuelOut
  /-- an exception the model does not know escaped from a call into the implementation (never emitted by
      the model; lets the monitors judge a trace of a broken implementation to its end) -/
  | raisedOther (what : String)
  deriving DecidableEq, Repr

/-- how the endpoint's `connect()` reports its outcome: `none` = later (a Deferred that is still pending when
    `connect()` returns — every real TCP endpoint on the happy path), `ok` / `fail` = the Deferred has ALREADY
    fired when `connect()` returns, so `cbConnect` / `ebConnect` run inside `tryConnect()` -/
inductive Sync
  | none | ok | fail
  deriving DecidableEq, Repr

/-- what the endpoint's `connect()` Deferred fails with when it is cancelled: `CancelledError` (a Deferred without a
    canceller, `deferLater`, the test endpoints), `ConnectingCancelledError` (Twisted's TCP / hostname / TLS
    endpoints) or any other failure -/
inductive CancelKind
  | cancelled | connecting | other
  deriving DecidableEq, Repr

inductive EvR
  | make (id : Int) (expect : Bool) (hook : Option Hook)
  | flat (e : Ev)
  /-- environment switch: the endpoint IGNORES `cancel()` of a connection attempt and connects from
      inside the canceller (the pathological endpoint of `test_close_connecting_succeed`) -/
  | stubborn (on : Bool)
  /-- environment switch: from now on the endpoint answers `connect()` synchronously (or not) -/
  | syncMode (m : Sync)
  /-- environment switch: from now on a cancelled connection attempt fails with this kind of failure.  The code
      never looks at it (`ebConnect` tests `self._dDown`, `connectingFailed` handles whatever comes), so the
      switch changes nothing in the model: `close()` during an attempt ends the retry loop and fires the
      close Deferred whatever the endpoint reports. -/
  | cancelMode (k : CancelKind)
  deriving DecidableEq, Repr

structure StR where
  core : St
  /-- callbacks waiting on unfired Deferreds, by serial -/
  hooks : List (Nat × Hook)
  stubborn : Bool := false
  sync : Sync := .none
  deriving DecidableEq, Repr

def StR.init (host port : Nat) : StR := { core := St.init host port, hooks := [], stubborn := false, sync := .none }

/-- `cbConnect`: the connection is up -/
def established (c : St) : St :=
  { c with failures := 0, connector := .none, proto := some c.nconn, nconn := c.nconn + 1, losing := false, rbuf := [] }

inductive Task
  | fire (k : Nat) (id : Int) (r : Res)
  | fireAll (l : List (Nat × Int)) (r : Res)
  | acts (h : List Action)
  | act (a : Action)
  | make (id : Int) (ex : Bool) (h : Option Hook)
  | cancel (id : Int)
  | close
  | closeLoop
  | sendLoop (c : Nat) (snap : List Nat)
  | frames (c : Nat) (fs : List Bytes) (f : Fed)
  /-- `makeRequest` with an endpoint that answers synchronously -/
  | makeS (id : Int) (ex : Bool) (h : Option Hook)
  /-- `_connectionLost` with an endpoint that answers synchronously -/
  | lost
  /-- `tryConnect()` -/
  | dial

def obs (l : List Ob) : List ObR := l.map .ob

def lookupHook (hooks : List (Nat × Hook)) (k : Nat) : Option Hook :=
  match hooks.filter (fun p => p.1 == k) with
  | [] => none
  | p :: _ => some p.2

def exec (cfg : Cfg) : Nat → StR → Task → StR × List ObR
  | 0, s, _ => (s, [.fuelOut])
  | n + 1, s, task =>
    let c := s.core
    match task with
    | .fire k id r =>
      match lookupHook s.hooks k with
      | none => (s, [.ob (.fire k id r)])
      | some h =>
        let r2 := exec cfg n { s with hooks := s.hooks.filter (fun p => p.1 != k) } (.acts h)
        (r2.1, [.ob (.fire k id r), .hookBegin k] ++ r2.2 ++ [.hookEnd])
    | .fireAll [] _ => (s, [])
    | .fireAll (p :: ps) r =>
      let r1 := exec cfg n s (.fire p.1 p.2 r)
      let r2 := exec cfg n r1.1 (.fireAll ps r)
      (r2.1, r1.2 ++ r2.2)
    | .acts [] => (s, [])
    | .acts (a :: as) =>
      let r1 := exec cfg n s (.act a)
      let r2 := exec cfg n r1.1 (.acts as)
      (r2.1, r1.2 ++ r2.2)
    | .act .close => exec cfg n s .close
    | .act .disconnect => let r := step cfg c .disconnect; ({ s with core := r.1 }, obs r.2)
    | .act (.cancel id) => exec cfg n s (.cancel id)
    | .act (.make id ex) => if s.sync = .none then exec cfg n s (.make id ex none) else exec cfg n s (.makeS id ex none)
    | .make id ex h =>
      if c.reqs.any (fun r => r.id == id) then (s, [.ob (.raiseDup id)])
      else
        let k := c.nmake
        let reg : List (Nat × Hook) := match h with | some h => (k, h) :: s.hooks | none => s.hooks
        if c.closed then
          let r := exec cfg n { s with core := { c with nmake := k + 1 }, hooks := reg } (.fire k id (.err .clientError))
          (r.1, .made k id :: r.2)
        else
          let rq : Req := { serial := k, id, expect := ex, sent := false, cancelled := false }
          match c.proto with
          | some conn =>
            if c.wfail then
              let r := exec cfg n { s with core := { c with nmake := k + 1 }, hooks := reg } (.fire k id (.err .writeError))
              (r.1, .made k id :: r.2)
            else
              let w : Ob := if c.losing then .writeLost conn k id else .write conn k id
              if ex then ({ s with core := { c with nmake := k + 1, reqs := c.reqs ++ [{ rq with sent := true }] }, hooks := reg },
                          [.ob w, .made k id])
              else
                let r := exec cfg n { s with core := { c with nmake := k + 1 }, hooks := reg } (.fire k id .none)
                (r.1, [.ob w, .made k id] ++ r.2)
          | none =>
            let c1 := { c with nmake := k + 1, reqs := c.reqs ++ [rq] }
            if c.connector = .none then
              let r := connect_ c1
              ({ s with core := r.1, hooks := reg }, obs r.2 ++ [.made k id])
            else ({ s with core := c1, hooks := reg }, [.made k id])
    | .cancel id =>
      if c.reqs.any (fun r => r.id == id && !r.cancelled) then
        let c1 := { c with reqs := (c.reqs.filter (fun r => r.id != id || r.sent)).map
                              (fun r => if r.id == id then { r with cancelled := true } else r) }
        exec cfg n { s with core := c1 }
          (.fireAll ((c.reqs.filter (fun r => r.id == id && !r.cancelled)).map (fun r => (r.serial, r.id))) (.err .cancelled))
      else (s, [.ob .badOp])
    | .close =>
      if c.closed then (s, [.ob .raiseAssert])
      else
        match c.proto with
        | some conn =>
          let r := exec cfg n { s with core := { c with closed := true, losing := true } } .closeLoop
          (r.1, [.closing, .ob (.lose conn)] ++ r.2)
        | none =>
          if s.stubborn && c.connector == .attempt then
            -- the endpoint connects from inside `connector.cancel()`: `cbConnect` runs with `_dDown` set
            let conn := c.nconn
            let c1 : St := { c with closed := true, failures := 0, connector := .none, proto := some conn,
                                    nconn := c.nconn + 1, losing := true, rbuf := [] }
            let r := exec cfg n { s with core := c1 } .closeLoop
            (r.1, [.closing, .ob .cancelConnect, .ob (.lose conn)] ++ r.2)
          else
          let pre : List ObR := match c.connector with
            | .attempt => [.ob .cancelConnect]
            | .backoff _ => [.ob .cancelTimer]
            | _ => []
          let co : Connector := match c.connector with
            | .attempt => .stale
            | .backoff _ => .stale
            | x => x
          let r := exec cfg n { s with core := { c with closed := true, connector := co } } .closeLoop
          (r.1, [.closing] ++ pre ++ r.2 ++ [.ob .down])
    | .closeLoop =>
      match (if closePopLast then c.reqs.getLast? else c.reqs.head?) with
      | none => (s, [])
      | some rq =>
        let s1 := { s with core := { c with reqs := c.reqs.filter (fun r => r.serial != rq.serial) } }
        let r1 := if rq.cancelled then (s1, []) else exec cfg n s1 (.fire rq.serial rq.id (.err .clientError))
        let r2 := exec cfg n r1.1 .closeLoop
        (r2.1, r1.2 ++ r2.2)
    | .sendLoop _ [] => (s, [])
    | .sendLoop conn (k :: ks) =>
      match c.reqs.filter (fun r => r.serial == k && !r.sent) with
      | [] => exec cfg n s (.sendLoop conn ks)
      | rq :: _ =>
        let r1 : StR × List ObR :=
          if c.wfail then
            exec cfg n { s with core := { c with reqs := c.reqs.filter (fun r => r.serial != k) } } (.fire k rq.id (.err .writeError))
          else
            let w : Ob := if c.losing then .writeLost conn k rq.id else .write conn k rq.id
            if rq.expect then
              ({ s with core := { c with reqs := c.reqs.map (fun r => if r.serial == k then { r with sent := true } else r) } }, [.ob w])
            else
              let r := exec cfg n { s with core := { c with reqs := c.reqs.filter (fun r => r.serial != k) } } (.fire k rq.id .none)
              (r.1, .ob w :: r.2)
        let r2 := exec cfg n r1.1 (.sendLoop conn ks)
        (r2.1, r1.2 ++ r2.2)
    | .frames conn [] f =>
      if f.exceeded then ({ s with core := { c with rbuf := f.buf, losing := true } }, [.ob (.lose conn)])
      else ({ s with core := { c with rbuf := f.buf } }, [])
    | .frames conn (b :: bs) f =>
      match corrId b with
      | none =>
        if s.sync = .none then
          let l := lostStep c
          ({ s with core := l.1 }, .ob .raiseUnderflow :: obs l.2)
        else
          let r := exec cfg n s .lost
          (r.1, .ob .raiseUnderflow :: r.2)
      | some id =>
        let c1 := { c with reqs := c.reqs.filter (fun r => r.id != id) }
        let r1 : StR × List ObR :=
          if c.reqs.any (fun r => r.id == id) then
            exec cfg n { s with core := c1 }
              (.fireAll ((c.reqs.filter (fun r => r.id == id && !r.cancelled)).map (fun r => (r.serial, r.id))) (.ok b))
          else ({ s with core := c1 }, [.ob (.unexpected id)])
        let r2 := exec cfg n r1.1 (.frames conn bs f)
        (r2.1, r1.2 ++ r2.2)
    | .makeS id ex h =>
      -- with a synchronous endpoint `_connect()` has connected (or failed) when it returns
      if s.sync != .none && !c.closed && c.proto.isNone && c.connector == .none && !c.reqs.any (fun r => r.id == id) then
        match s.sync with
        | .ok =>
          -- `cbConnect` ran inside `_connect()`: the queued request is written by `_sendQueued` exactly as
          -- `makeRequest` on a connected client writes it (an idle client has an empty table)
          let r := exec cfg n { s with core := established c } (.make id ex h)
          (r.1, .ob (.connect c.host c.port) :: r.2)
        | _ =>
          -- `ebConnect` ran inside `_connect()`: the first failure, the back-off timer is armed
          let k := c.nmake
          let reg : List (Nat × Hook) := match h with | some h => (k, h) :: s.hooks | none => s.hooks
          let rq : Req := { serial := k, id, expect := ex, sent := false, cancelled := false }
          ({ s with core := { c with nmake := k + 1, reqs := c.reqs ++ [rq], failures := 1,
                                     connector := .backoff (c.now + cfg.policy 1) }, hooks := reg },
           [.ob (.connect c.host c.port), .ob (.setTimer (cfg.policy 1)), .made k id])
      else exec cfg n s (.make id ex h)
    | .lost =>
      let reqs' := (c.reqs.filter (fun r => !r.cancelled)).map (fun r => { r with sent := false })
      let c1 := { c with proto := none, losing := false, rbuf := [], reqs := reqs' }
      if c.closed then ({ s with core := c1 }, [.ob .down])
      else if reqs'.isEmpty then ({ s with core := c1 }, [])
      else exec cfg n { s with core := { c1 with failures := 0 } } .dial
    | .dial =>
      -- unreachable when closed: `close()` cancels the timer and `_connectionLost` does not reconnect
      if c.closed then (s, [.ob .badOp])
      else
        match s.sync with
        | .none => ({ s with core := { c with connector := .attempt } }, [.ob (.connect c.host c.port)])
        | .fail =>
          ({ s with core := { c with failures := c.failures + 1, connector := .backoff (c.now + cfg.policy (c.failures + 1)) } },
           [.ob (.connect c.host c.port), .ob (.setTimer (cfg.policy (c.failures + 1)))])
        | .ok =>
          let r := exec cfg n { s with core := established c } (.sendLoop c.nconn (c.reqs.map (·.serial)))
          (r.1, .ob (.connect c.host c.port) :: r.2)

def stepRWith (cfg : Cfg) (fuel : Nat) (s : StR) : EvR → StR × List ObR
  | .make id ex h => if s.sync = .none then exec cfg fuel s (.make id ex h) else exec cfg fuel s (.makeS id ex h)
  | .flat (.make id ex) => if s.sync = .none then exec cfg fuel s (.make id ex none) else exec cfg fuel s (.makeS id ex none)
  | .flat (.cancel id) => exec cfg fuel s (.cancel id)
  | .flat .close => exec cfg fuel s .close
  | .flat .connOk =>
    let c := s.core
    if c.connector = .attempt then
      let conn := c.nconn
      let c1 := { c with failures := 0, connector := .none, proto := some conn, nconn := c.nconn + 1,
                         losing := false, rbuf := [] }
      if c.closed then ({ s with core := { c1 with losing := true } }, [.ob (.lose conn)])
      else exec cfg fuel { s with core := c1 } (.sendLoop conn (c.reqs.map (·.serial)))
    else (s, [.ob .badOp])
  | .flat (.bytesIn chunk) =>
    let c := s.core
    match c.proto with
    | none => (s, [.ob .badOp])
    | some conn =>
      if c.losing then (s, [.ob .badOp])
      else
        let f := feed c.rbuf chunk
        exec cfg fuel s (.frames conn f.frames f)
  | .flat .lost =>
    if s.sync = .none then let r := step cfg s.core .lost; ({ s with core := r.1 }, obs r.2)
    else match s.core.proto with
      | none => (s, [.ob .badOp])
      | some _ => exec cfg fuel s .lost
  | .flat (.advance dt) =>
    if s.sync = .none then let r := step cfg s.core (.advance dt); ({ s with core := r.1 }, obs r.2)
    else if dt < 0 then (s, [.ob .badOp])
    else
      let c1 := { s.core with now := s.core.now + dt }
      match s.core.connector with
      | .backoff due => if due ≤ c1.now then exec cfg fuel { s with core := c1 } .dial else ({ s with core := c1 }, [])
      | _ => ({ s with core := c1 }, [])
  | .flat e => let r := step cfg s.core e; ({ s with core := r.1 }, obs r.2)
  | .stubborn on => ({ s with stubborn := on }, [])
  | .syncMode m => ({ s with sync := m }, [])
  | .cancelMode _ => (s, [])

/-- the fuel the driver runs with -/
def fuel : Nat := 100000

def stepR (cfg : Cfg) (s : StR) (e : EvR) : StR × List ObR := stepRWith cfg fuel s e

def traceRWith (cfg : Cfg) (fuel : Nat) (s : StR) : List EvR → List (EvR × List ObR)
  | [] => []
  | e :: es => (e, (stepRWith cfg fuel s e).2) :: traceRWith cfg fuel (stepRWith cfg fuel s e).1 es

def traceR (cfg : Cfg) (s : StR) : List EvR → List (EvR × List ObR)
  | [] => []
  | e :: es => (e, (stepR cfg s e).2) :: traceR cfg (stepR cfg s e).1 es

/-- the plain observations of a step (markers dropped) -/
def plain : List ObR → List Ob
  | [] => []
  | .ob o :: l => o :: plain l
  | _ :: l => plain l

/-- did a re-entrant action run in this step? -/
def hooked (l : List ObR) : Bool := l.any fun o => match o with | .hookBegin _ => true | .raisedOther _ => true | _ => false

end Afkak.BrokerClientR
