import Afkak.Frame
/-!
# `KafkaBootstrapProtocol` (`afkak/_protocol.py`)

One connected protocol instance: `_pending` (a dict, insertion ordered, keyed by the correlation id
BYTES `request[4:8]`), `_failed`, the framing buffer and the transport's `disconnecting` flag.

Twisted folded in: the request Deferreds have no canceller, so `cancel()` fires `CancelledError`
and leaves the `_pending` entry; the `callback`/`errback` that later reaches such a Deferred is
swallowed (`_suppressAlreadyCalled`).  After `loseConnection()` the remaining packets of the SAME
`dataReceived` call are still delivered (the loop does not look at the transport).
`connectionLost(reason)` fails every pending Deferred with that very `reason` and keeps it in `_failed`:
a `request()` made afterwards fails with the same reason.
-/
namespace Afkak.Bootstrap
open Afkak.Frame Afkak.Consts

/-- the `reason` handed to `connectionLost`, by class: `ConnectionDone` (closed cleanly, also what
    `loseConnection()` ends in), `ConnectionLost` (unclean), anything else -/
inductive Reason
  | done | lost | other
  deriving DecidableEq, Repr

inductive Res
  | ok (b : Bytes)
  | connLost (r : Reason)   -- the `reason` of `connectionLost`, which is also what `_failed` keeps
  | cancelled
  deriving DecidableEq, Repr

structure Pend where
  cid : Bytes
  serial : Nat
  cancelled : Bool
  deriving DecidableEq, Repr

structure St where
  /-- `self._pending`; `none` after `connectionLost` -/
  pending : Option (List Pend)
  failed : Bool
  /-- `self._failed` once it is set: the reason `connectionLost` was called with -/
  reason : Reason := .done
  rbuf : Bytes
  losing : Bool
  nreq : Nat
  deriving DecidableEq, Repr

def St.init : St := { pending := some [], failed := false, reason := .done, rbuf := [], losing := false, nreq := 0 }

inductive Ev
  | request (payload : Bytes)
  | cancel (serial : Nat)
  | bytesIn (chunk : Bytes)
  | lost (reason : Reason)
  deriving DecidableEq, Repr

inductive Ob
  | write (serial : Nat)
  | writeLost (serial : Nat)
  | lose
  | fire (serial : Nat) (r : Res)
  | raiseAssert
  | badOp
  deriving DecidableEq, Repr

/-- Python `data[lo:hi]` for `0 ≤ lo ≤ hi` -/
def slice (data : Bytes) (lo hi : Nat) : Bytes := (data.drop lo).take (hi - lo)

def reqCid (payload : Bytes) : Bytes := slice payload bootReqIdLo bootReqIdHi
def respCid (frame : Bytes) : Bytes := slice frame bootRespIdLo bootRespIdHi

/-- `stringReceived(response)` -/
def stringReceived (ps : List Pend) (losing : Bool) (frame : Bytes) : List Pend × Bool × List Ob :=
  if ps.any (fun p => p.cid == respCid frame) then
    (ps.filter (fun p => p.cid != respCid frame), losing,
     (ps.filter (fun p => p.cid == respCid frame && !p.cancelled)).map (fun p => .fire p.serial (.ok frame)))
  else (ps, true, [.lose])

def deliver (ps : List Pend) (losing : Bool) : List Bytes → List Pend × Bool × List Ob
  | [] => (ps, losing, [])
  | f :: fs =>
    let r1 := stringReceived ps losing f
    let r2 := deliver r1.1 r1.2.1 fs
    (r2.1, r2.2.1, r1.2.2 ++ r2.2.2)

def step (s : St) : Ev → St × List Ob
  | .request payload =>
    if s.failed then ({ s with nreq := s.nreq + 1 }, [.fire s.nreq (.connLost s.reason)])
    else match s.pending with
      | none => (s, [.badOp])       -- unreachable: `_pending is None` only when `_failed` is set
      | some ps =>
        if ps.any (fun p => p.cid == reqCid payload) then (s, [.raiseAssert])
        else ({ s with nreq := s.nreq + 1, pending := some (ps ++ [⟨reqCid payload, s.nreq, false⟩]) },
              [if s.losing then .writeLost s.nreq else .write s.nreq])
  | .cancel k =>
    match s.pending with
    | none => (s, [.badOp])
    | some ps =>
      if ps.any (fun p => p.serial == k && !p.cancelled) then
        ({ s with pending := some (ps.map (fun p => if p.serial == k then { p with cancelled := true } else p)) },
         [.fire k .cancelled])
      else (s, [.badOp])
  | .bytesIn chunk =>
    match s.pending with
    | none => (s, [.badOp])
    | some ps =>
      if s.losing then (s, [.badOp])
      else
        let f := feed s.rbuf chunk
        let r := deliver ps s.losing f.frames
        ({ s with pending := some r.1, rbuf := f.buf, losing := r.2.1 || f.exceeded },
         r.2.2 ++ (if f.exceeded then [.lose] else []))
  | .lost rsn =>
    match s.pending with
    | none => (s, [.badOp])
    | some ps =>
      ({ s with pending := none, failed := true, reason := rsn },
       (ps.filter (fun p => !p.cancelled)).map (fun p => .fire p.serial (.connLost rsn)))

def trace (s : St) : List Ev → List (Ev × List Ob)
  | [] => []
  | e :: es => (e, (step s e).2) :: trace (step s e).1 es

def run (s : St) : List Ev → St
  | [] => s
  | e :: es => run (step s e).1 es

end Afkak.Bootstrap
