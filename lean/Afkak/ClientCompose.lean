import Afkak.ClientNet
import Afkak.BrokerClient
/-!
# `KafkaClient` composed with its `_KafkaBrokerClient`s (C11, C20 end to end)

DESIGN §2.9 composes the layers "by contract": `ClientNet` treats the broker clients as environment (its
down-calls `mk / bcCancel / bcDisconnect / bcClose / bcUpdate` are observations; request completions, `connected()`
changes and close notifications are events) and books, inside its own step, what a broker client does
synchronously (`fired k cancelled` after `bcCancel k`, `fired k clientClosed … down b` after `bcClose b`, `fired k
ok` of a request that expects no reply on a connected broker).  Here the two models are put together:

* the state is the client state × one `BrokerClient.St` per broker-client instance (`bcs[b]`);
* a client step's observations addressed to a broker client become that broker client's events (`route`), in order;
* what the broker-client model then fires synchronously must be exactly what the client model booked
  (`Ob.mismatch` otherwise – the interface contract, checked on every step);
* network-level events of a broker client (`connOk / connFail / lost / reply`) are executed by its model and what
  comes out (a request Deferred firing, `connected()` changing, the close Deferred firing) becomes client events.

The correlation id of client request `k` is `k` (the real client draws them from one counter; the harness maps).
Clock: `advance dt` must not jump over a due time of either layer; at the instant reached, the broker clients listed
in `bcFirst` fire their reconnect timers before the client's timers (in that order), those in `bcAfter` after them
(in that order), the rest last (`twisted`'s Clock orders simultaneous calls by insertion, which neither model
records: the environment says).
Core-only (compiled into `model_client`).
-/
namespace Afkak.ClientCompose
open Afkak

structure Cfg where
  cl : ClientNet.Cfg
  bc : BrokerClient.Cfg

structure St where
  cl : ClientNet.St := {}
  bcs : List BrokerClient.St := []
  /-- where broker client `b` connects to (`updateMetadata` changes it) -/
  addr : List (String × Int) := []
  /-- connection attempts of broker clients still to fail inside `endpoint.connect()` -/
  syncRefuse : Nat := 0

inductive Ev where
  /-- an API call / bootstrap-endpoint event of the client layer (`fire`, `down`, `conn`, `advance` are internal
      here and refused) with the environment's synchronous answers; `more`: the answers for the client steps the
      event causes later (completions of requests that expect no reply) -/
  | api (env : ClientNet.Env) (e : ClientNet.Ev)
  | connOk (b : Nat) (envs : List ClientNet.Env)
  | connFail (b : Nat)
  | lost (b : Nat) (env : ClientNet.Env)
  /-- the broker's answer to request `k` arrives, whole, on `b`'s connection -/
  | reply (b : Nat) (k : Nat) (p : ClientNet.Payload) (env : ClientNet.Env)
  | advance (dt : Rat) (bcFirst bcAfter : List Nat) (env : ClientNet.Env)
  | setSyncRefuse (n : Nat)
  deriving Repr

inductive Ob where
  | cl (o : ClientNet.Ob)
  | bc (b : Nat) (o : BrokerClient.Ob)
  /-- broker client `b` asks its endpoint for a connection -/
  | connect (b : Nat) (host : String) (port : Int)
  /-- the two models disagree about what happens synchronously at the interface -/
  | mismatch (why : String)
  | badOp (why : String)
  deriving Repr, DecidableEq

def isConnect : BrokerClient.Ob → Bool
  | .connect _ _ => true
  | _ => false

/-- show a broker client's observations, replacing its `connect` by the one with the real address -/
def liftObs (s : St) (b : Nat) (obs : List BrokerClient.Ob) : List Ob :=
  obs.map (fun o => match o with
    | .connect _ _ => (match s.addr[b]? with | some a => Ob.connect b a.1 a.2 | none => Ob.badOp "addr")
    | o => Ob.bc b o)

/-- one event of broker client `b`; a connection attempt it starts fails at once while `syncRefuse > 0` -/
def bcStep (cfg : Cfg) (s : St) (b : Nat) (e : BrokerClient.Ev) : St × List BrokerClient.Ob :=
  match s.bcs[b]? with
  | none => (s, [.badOp])
  | some x =>
    let r := BrokerClient.step cfg.bc x e
    if r.2.any isConnect && s.syncRefuse > 0 then
      let r2 := BrokerClient.step cfg.bc r.1 .connFail
      ({ s with bcs := s.bcs.set b r2.1, syncRefuse := s.syncRefuse - 1 }, r.2 ++ r2.2)
    else ({ s with bcs := s.bcs.set b r.1 }, r.2)

/-- what a broker client fired synchronously, in the client layer's vocabulary -/
inductive Sync where
  | fired (k : Nat) (r : Option ClientNet.Kind)
  | down (b : Nat)
  deriving DecidableEq, Repr

def kindOf : BrokerClient.ErrKind → ClientNet.Kind
  | .cancelled => .cancelled
  | .clientError => .clientClosed
  | .writeError => .other "write"

def syncOfBc (b : Nat) (obs : List BrokerClient.Ob) : List Sync :=
  obs.filterMap (fun o => match o with
    | .fire _ id (.err k) => some (Sync.fired id.toNat (some (kindOf k)))
    | .fire _ id _ => some (Sync.fired id.toNat none)
    | .down => some (Sync.down b)
    | _ => none)

def syncOfCl (obs : List ClientNet.Ob) : List Sync :=
  obs.filterMap (fun o => match o with
    | .fired k r => some (Sync.fired k r)
    | .down b => some (Sync.down b)
    | _ => none)

/-- the down-call an observation of the client layer is, as an event of a broker client -/
def downCall (cl : ClientNet.St) : ClientNet.Ob → Option (Nat × BrokerClient.Ev)
  | .mk k b expect _ => some (b, .make (k : Int) expect)
  | .bcCancel k => (ClientNet.reqGet cl k).map (fun q => (q.b, .cancel (k : Int)))
  | .bcDisconnect b => some (b, .disconnect)
  | .bcClose b => some (b, .close)
  | _ => none

/-- hand the down-calls among `obs` (observations of one client step, `cl` the client state after it) to the broker
    clients, in order; returns the broker clients' observations and what they fired synchronously -/
def route (cfg : Cfg) (cl : ClientNet.St) : St → List ClientNet.Ob → List Ob → List Sync → St × List Ob × List Sync
  | s, [], out, sy => (s, out, sy)
  | s, o :: rest, out, sy =>
    match o with
    | .bcNew b _ host port =>
      if b == s.bcs.length then
        route cfg cl { s with bcs := s.bcs ++ [BrokerClient.St.init 0 0], addr := s.addr ++ [(host, port)] } rest out sy
      else route cfg cl s rest (out ++ [.mismatch "bcNew"]) sy
    | .bcUpdate b host port => route cfg cl { s with addr := s.addr.set b (host, port) } rest out sy
    | o =>
      match downCall cl o with
      | none => route cfg cl s rest out sy
      | some (b, e) =>
        let r := bcStep cfg s b e
        route cfg cl r.1 rest (out ++ liftObs r.1 b r.2) (sy ++ syncOfBc b r.2)

def internal : ClientNet.Ev → Bool
  | .fire .. | .down _ | .conn .. | .advance _ => true
  | _ => false

/-- one step of the client layer inside the composition: run it, route its down-calls, compare what was fired -/
def clientStep (cfg : Cfg) (s : St) (env : ClientNet.Env) (e : ClientNet.Ev) : St × List Ob :=
  let r := ClientNet.step cfg.cl s.cl env e
  let (s1, out, sy) := route cfg r.1 { s with cl := r.1 } r.2 [] []
  (s1, r.2.map Ob.cl ++ out ++ (if sy == syncOfCl r.2 then [] else [.mismatch "sync"]))

/-- what the client layer sees when a request Deferred fires with `res` (`payload`: the decoded reply, if the event is one) -/
def resOf (payload : Option ClientNet.Payload) : BrokerClient.Res → Option ClientNet.Res
  | .none => some (.ok .none)
  | .ok _ => payload.map ClientNet.Res.ok
  | .err k => some (.err (kindOf k))

/-- completions a broker client reports from a network event, handed to the client layer one by one -/
def deliver (cfg : Cfg) (payload : Option ClientNet.Payload) :
    St → List BrokerClient.Ob → List ClientNet.Env → List Ob → St × List Ob
  | s, [], _, out => (s, out)
  | s, o :: rest, envs, out =>
    match o with
    | .fire _ id res =>
      (match resOf payload res with
       | none => deliver cfg payload s rest envs (out ++ [.badOp "payload"])
       | some r =>
         let c := clientStep cfg s (envs.headD {}) (.fire id.toNat r)
         deliver cfg payload c.1 rest envs.tail (out ++ c.2))
    | _ => deliver cfg payload s rest envs out

def minDue (l : List Rat) : Option Rat :=
  l.foldl (fun m d => match m with | none => some d | some x => some (if d < x then d else x)) none

/-- the time until the next reconnect timer of broker client `x` -/
def bcGap (x : BrokerClient.St) : Option Rat :=
  match x.connector with
  | .backoff due => some (due - x.now)
  | _ => none

/-- the shared clock moves on for a broker client whose own timer is not fired yet -/
def tick (x : BrokerClient.St) (dt : Rat) : BrokerClient.St := { x with now := x.now + dt }

def advanceBcs (cfg : Cfg) (dt : Rat) : St → List Nat → List Ob → St × List Ob
  | s, [], out => (s, out)
  | s, b :: rest, out =>
    let r := bcStep cfg s b (.advance dt)
    advanceBcs cfg dt r.1 rest (out ++ liftObs r.1 b r.2)

def step (cfg : Cfg) (s : St) : Ev → St × List Ob
  | .api env e =>
    if internal e then (s, [.badOp "internal"]) else clientStep cfg s env e
  | .setSyncRefuse n => ({ s with syncRefuse := n }, [])
  | .connOk b envs =>
    match s.bcs[b]? with
    | none => (s, [.badOp "connOk"])
    | some x =>
      -- `connected()` turns true before the queue is written (not observed on a closed broker client)
      let s0 := if x.closed then s else { s with cl := (ClientNet.step cfg.cl s.cl {} (.conn b true)).1 }
      let r := bcStep cfg s0 b .connOk
      deliver cfg none r.1 r.2 envs (liftObs r.1 b r.2)
  | .connFail b =>
    let r := bcStep cfg s b .connFail
    (r.1, liftObs r.1 b r.2)
  | .lost b env =>
    match s.bcs[b]? with
    | none => (s, [.badOp "lost"])
    | some x =>
      let r := bcStep cfg s b .lost
      if x.closed then
        -- the close Deferred of the broker client fires: the client layer's `down b`
        let c := clientStep cfg r.1 env (.down b)
        (c.1, liftObs r.1 b r.2 ++ c.2)
      else
        ({ r.1 with cl := (ClientNet.step cfg.cl r.1.cl {} (.conn b false)).1 }, liftObs r.1 b r.2)
  | .reply b k p env =>
    match s.bcs[b]? with
    | none => (s, [.badOp "reply"])
    | some x =>
      -- a transport that was told to close (or is gone) delivers nothing more
      if x.proto.isNone || x.losing then (s, []) else
      let frame := Afkak.Frame.prefix32 k
      let r := bcStep cfg s b (.bytesIn (Afkak.Frame.encode frame))
      deliver cfg (some p) r.1 r.2 [env] (liftObs r.1 b r.2)
  | .advance dt bcFirst bcAfter env =>
    if dt < 0 then (s, [.badOp "advance"]) else
    -- nothing is jumped over: every pending due time of either layer is at or after the instant reached
    let gaps := s.bcs.filterMap bcGap ++ s.cl.timers.map (fun t => t.due - s.cl.now)
    if gaps.any (fun g => g < dt) then (s, [.badOp "advance past a timer"]) else
    let first := bcFirst.filter (fun b => b < s.bcs.length)
    -- `bcAfter`: the order in which the reconnect timers that fire after the client's timers do so
    let others := bcAfter.filter (fun b => b < s.bcs.length && !first.contains b) ++
      (List.range s.bcs.length).filter (fun b => !first.contains b && !bcAfter.contains b)
    let r1 := advanceBcs cfg dt s first []
    -- the reactor's clock is one: the other broker clients see the new time while the client's timers run, their
    -- own timers fire after those
    let s1 := { r1.1 with bcs := (List.range r1.1.bcs.length).zip r1.1.bcs |>.map (fun e => if others.contains e.1 then tick e.2 dt else e.2) }
    let c := clientStep cfg s1 env (.advance dt)
    let r2 := advanceBcs cfg 0 c.1 others []
    (r2.1, r1.2 ++ c.2 ++ r2.2)

def run (cfg : Cfg) (s : St) : List Ev → St
  | [] => s
  | e :: es => run cfg (step cfg s e).1 es

def trace (cfg : Cfg) (s : St) : List Ev → List (Ev × List Ob)
  | [] => []
  | e :: es => (e, (step cfg s e).2) :: trace cfg (step cfg s e).1 es

end Afkak.ClientCompose
