/-!
# Bytes: big-endian integers and Python slicing over `List UInt8`

Core Lean only.  Used by the wire models (`Afkak/Wire/*`) and the independent grammar
(`Afkak/Codec/*`, `Afkak/Wire/Spec.lean`).
-/
namespace Afkak

abbrev Bytes := List UInt8

namespace Bytes

/-- The `w` big-endian bytes of `n mod 256^w`. -/
def ofNatBE : Nat → Nat → Bytes
  | 0, _ => []
  | w+1, n => UInt8.ofNat (n / 256 ^ w % 256) :: ofNatBE w n

/-- Big-endian value of a byte string. -/
def toNatBE : Bytes → Nat
  | [] => 0
  | b :: bs => b.toNat * 256 ^ bs.length + toNatBE bs

/-- Two's-complement big-endian encoding of `i` in `w` bytes (of `i mod 256^w`). -/
def ofIntBE (w : Nat) (i : Int) : Bytes := ofNatBE w (i % (256 ^ w : Nat)).toNat

/-- Two's-complement value of a byte string. -/
def toIntBE (bs : Bytes) : Int :=
  let n := toNatBE bs
  if 2 * n < 256 ^ bs.length then (n : Int) else (n : Int) - (256 ^ bs.length : Nat)

/-- Python `data[lo:hi]` for a `bytes` object, any integers `lo`, `hi` (negative indices count
    from the end, everything is clamped). -/
def pySlice (data : Bytes) (lo hi : Int) : Bytes :=
  let len : Int := data.length
  let norm (i : Int) : Int := if i < 0 then (if i + len < 0 then 0 else i + len) else (if i > len then len else i)
  let lo' := norm lo
  let hi' := norm hi
  if lo' < hi' then (data.drop lo'.toNat).take (hi' - lo').toNat else []

end Bytes
end Afkak
