import Afkak.Producer
import Afkak.ClientCache
import Afkak.Monitor.ProducerTrace
/-!
# Producer × KafkaClient: the product machine at the seam `send_produce_request`

`Afkak/Producer.lean` models the Producer against the client INTERFACE: the client's answer to a produce request
is an input event `produceDone rid r` with ANY result `r`.  Here the answer is no longer free: it is what the
client model's `send_produce_request(payloads, fail_on_error=False)` makes of

* the metadata cache `c` it routes with (`Afkak.ClientCache.route`: `_send_broker_aware_request`'s resolution
  loop and `payloads_by_broker`, one request per leader, in first-seen order) and
* what each of those broker requests came to (`outs`, one `BrokerResult` per request: the decoded responses of a
  broker that answered, or the failure of the request - lost connection, timeout, cancel),

assembled by the client's tail (`Afkak.ClientCache.assemble`: responses in payload order,
`FailedPayloadsError(responses, failed payloads)` if any request failed).  A composed event carries `c` and `outs`;
the result handed to the Producer is COMPUTED (`sendProduce`).  The composed machine is the Producer machine run
on the computed events (`stepC_eq_step`), so every theorem about `Afkak.Producer.run` is a theorem about it.

Not composed (they stay raw input events of the Producer, `rawOK`): answers of the client that carry no response
at all - a failure before anything was sent (metadata reload inside the call failed, cancellation while
resolving), the empty answer of a request without acknowledgements.  None of them can make a send succeed with a
`ProduceResponse`, which is what the composed theorems are about.
-/
namespace Afkak.ProducerCompose
open Afkak.Producer
open Afkak.ClientCache (Cache Broker route assemble BrokerResult RouteErr)

abbrev CResp := Afkak.ClientCache.Resp
abbrev CTP := Afkak.ClientCache.TP

/-- the client's key of a payload (`nm`: topic names) -/
def key (nm : Topic → String) (tp : TP) : CTP := (nm tp.topic, tp.part)

/-- a response of the client, as the Producer sees it (`tag` stands for the offset) -/
def backResp (nm : Topic → String) (keys : List TP) (r : CResp) : Option Resp :=
  (keys.find? (fun tp => key nm tp == r.key)).map (fun tp => ⟨tp, r.err, r.tag⟩)

/-- a failed payload (index into the payload list) of `FailedPayloadsError` -/
def backFail (keys : List TP) (f : Nat × ErrKind) : Option FailedP :=
  keys[f.1]?.map (fun tp => ⟨tp, f.2, true⟩)

/-- what the tail of `_send_broker_aware_request` + `_handle_responses(fail_on_error=False)` hand back, given the
    broker requests (payload indices) and what each came to -/
def clientResult (nm : Topic → String) (keys : List TP) (results : List (List Nat × BrokerResult ErrKind)) : ProdRes :=
  let a := assemble (keys.map (key nm)) results
  let rs := a.1.filterMap (backResp nm keys)
  let fs := a.2.filterMap (backFail keys)
  if fs.isEmpty then .responses rs else .failed rs fs

/-- one outcome per broker request of the call, in issue order -/
abbrev Outcomes := List (BrokerResult ErrKind)

/-- the broker requests of a call with their outcomes: `(node id, payload indices)` and what the request came to -/
def brokerRequests (gs : List (Int × List Nat)) (outs : Outcomes) : List ((Int × List Nat) × BrokerResult ErrKind) :=
  gs.zip outs

/-- `send_produce_request(payloads, fail_on_error=False)` with the cache `c` (every leader is looked up in it; a
    partition it does not know fails the call with PartitionUnavailableError, one without a leader with
    LeaderUnavailableError - before anything is sent).  `none`: `outs` is not one outcome per request. -/
def sendProduce (nm : Topic → String) (c : Cache) (keys : List TP) (outs : Outcomes) : Option ProdRes :=
  match route c (keys.map (key nm)) none with
  | .error (.partitionUnavailable _) => some (.err .partitionUnavailable)
  | .error (.leaderUnavailable _) => some (.err .leaderUnavailable)
  | .error .coordinatorNotAvailable => none
  | .ok gs =>
    if outs.length = gs.length then
      some (clientResult nm keys ((brokerRequests gs outs).map (fun x => (x.1.2, x.2))))
    else none

/-- events of the product machine -/
inductive CEv
  /-- an event of the Producer that is not an answer of the client carrying responses -/
  | ev (e : Ev)
  /-- the client completes produce request `rid`: it routed with cache `c`, its broker requests came to `outs` -/
  | clientDone (rid : Rid) (c : Cache) (outs : Outcomes)
  /-- `stop()`; the client answers the cancel of the produce request in flight at once (`outs`: what its broker
      requests had come to, the unanswered ones failing with the cancellation), or leaves it pending (`none`) -/
  | stopC (wipe : Bool) (c : Cache) (outs : Option Outcomes) (mouts : List (Rid × MetaRes))

open Afkak.Monitor.ProducerTrace (respsOf)

/-- raw Producer events allowed in a composed run: everything but a client answer that carries responses -/
def rawOK : Ev → Bool
  | .produceDone _ r => (respsOf r).isEmpty
  | .stop _ (some r) _ => (respsOf r).isEmpty
  | _ => true

/-- an event the Producer model answers with `badOp` and no change, in every state -/
def noOp (st : St) : Ev := .send (st.nextSid + 1) 0 none []

/-- the Producer event a composed event amounts to in state `st` -/
def toEv (nm : Topic → String) (st : St) : CEv → Ev
  | .ev e => if rawOK e then e else noOp st
  | .clientDone rid c outs =>
    match st.phase with
    | .sending _ b =>
      match sendProduce nm c b.current outs with
      | some r => .produceDone rid r
      | none => noOp st
    | _ => noOp st
  | .stopC wipe c outs mouts =>
    match st.phase, outs with
    | .sending _ b, some o =>
      match sendProduce nm c b.current o with
      | some r => .stop wipe (some r) mouts
      | none => noOp st
    | _, _ => .stop wipe none mouts

/-- one step of the product machine -/
def stepC (cfg : Cfg) (nm : Topic → String) (st : St) (ce : CEv) : St × List Ob :=
  step cfg st (toEv nm st ce)

def runC (cfg : Cfg) (nm : Topic → String) : St → List CEv → St × List Ob
  | st, [] => (st, [])
  | st, e :: es =>
    let (st1, obs1) := stepC cfg nm st e
    let (st2, obs2) := runC cfg nm st1 es
    (st2, obs1 ++ obs2)

/-- the Producer events of a composed run -/
def flatten (cfg : Cfg) (nm : Topic → String) : St → List CEv → List Ev
  | _, [] => []
  | st, e :: es => toEv nm st e :: flatten cfg nm (stepC cfg nm st e).1 es

/-- ENVIRONMENT HYPOTHESIS of "answered by the leader": a broker answers only for partitions it was asked about
    (request `idxs`, payload keys `ks`).  The client matches responses to payloads by (topic, partition) alone, so
    an answer for a partition from a broker that was not asked would be taken for the leader's. -/
def onlyAsked (ks : List CTP) (idxs : List Nat) (rs : List CResp) : Bool :=
  rs.all (fun r => idxs.any (fun i => ks[i]? == some r.key))

def outcomesOnlyAsked (ks : List CTP) (reqs : List ((Int × List Nat) × BrokerResult ErrKind)) : Bool :=
  reqs.all (fun x => match x.2 with | .ok rs => onlyAsked ks x.1.2 rs | .fail _ => true)

/-- distinct topics have distinct names -/
def namesDistinct (nm : Topic → String) (keys : List TP) : Bool :=
  keys.all (fun a => keys.all (fun b => nm a.topic != nm b.topic || a.topic == b.topic))

/-- the hypotheses on one call of the client, as one decidable predicate -/
def callOK (nm : Topic → String) (c : Cache) (keys : List TP) (outs : Outcomes) : Bool :=
  namesDistinct nm keys &&
  match route c (keys.map (key nm)) none with
  | .ok gs => outcomesOnlyAsked (keys.map (key nm)) (brokerRequests gs outs)
  | .error _ => true

/-- ACCOUNTING hypothesis on one call (for "fires exactly once"): every broker that answers, answers for EXACTLY the
    partitions it was asked (not only `onlyAsked`: a reply that OMITS a requested partition leaves its sends without
    an outcome - see C01's note), one outcome per request, one payload per topic/partition -/
def answersAll (ks : List CTP) (idxs : List Nat) (rs : List CResp) : Bool :=
  idxs.all (fun i => match ks[i]? with | some k => rs.any (fun r => r.key == k) | none => true)

def callAccounts (nm : Topic → String) (c : Cache) (keys : List TP) (outs : Outcomes) : Bool :=
  callOK nm c keys outs && decide keys.Nodup &&
  match route c (keys.map (key nm)) none with
  | .ok gs => decide (outs.length = gs.length) &&
      (brokerRequests gs outs).all (fun x => match x.2 with
        | .ok rs => answersAll (keys.map (key nm)) x.1.2 rs | .fail _ => true)
  | .error _ => true

/-- … of a composed event in state `st` -/
def evOK (nm : Topic → String) (st : St) : CEv → Bool
  | .ev _ => true
  | .clientDone _ c outs =>
    match st.phase with
    | .sending _ b => callOK nm c b.current outs
    | _ => true
  | .stopC _ c outs _ =>
    match st.phase, outs with
    | .sending _ b, some o => callOK nm c b.current o
    | _, _ => true

/-- … of a whole composed run -/
def runOK (cfg : Cfg) (nm : Topic → String) : St → List CEv → Bool
  | _, [] => true
  | st, e :: es => evOK nm st e && runOK cfg nm (stepC cfg nm st e).1 es

end Afkak.ProducerCompose
