import Afkak.ClientCache
/-!
# `KafkaClient` above the broker-client interface (`afkak/client.py`)

The client is modelled between two boundaries:

* above: API calls (`load_metadata_for_topics`, `send_*_request`, `load_coordinator_for_group`,
  `_send_request_to_coordinator`, `cancel()` of a returned Deferred, `close()`), each with an op id;
* below: the `_KafkaBrokerClient` interface (`makeRequest` ⇒ a Deferred the environment completes,
  `cancel`, `disconnect`, `updateMetadata`, `close` ⇒ its close Deferred, `connected()`), the
  bootstrap endpoint (`connect`, `request`, `loseConnection`) and the reactor clock.

`inlineCallbacks` coroutines are explicit continuation states; synchronous callback chains are an
explicit stack of pending actions (`Act`) executed depth first, exactly like nested Python calls.
Answers of the environment to down-calls that are given synchronously (`random.shuffle`, a close
Deferred that fires inside `close()`) are parameters of the event (`Env`).
Time is `Rat`; the timer queue is ordered like `twisted.internet.task.Clock` (due time, then insertion).
-/
namespace Afkak.ClientNet
open Afkak.ClientCache Afkak.Consts

/-- decoded body of a reply (the harness decides what the simulated broker answers) -/
inductive Payload where
  | metadata (bs : List Broker) (ts : List TopicMeta)
  | coord (err : Int) (b : Broker)
  /-- per-partition responses of a produce/fetch/offset/commit reply: key, error, identity tag -/
  | items (rs : List (TP × Int × Int))
  /-- a reply that only carries an error code (LeaveGroup …) -/
  | simple (err : Int)
  /-- `expectResponse=False`: the Deferred fires with `None` -/
  | none
  /-- bytes the decoder rejects -/
  | garbage
  deriving DecidableEq, Repr

/-- failure kinds as the layers above can tell them apart (canonical names in `ClientIface`) -/
inductive Kind where
  | clientClosed          -- ClientError
  | cancelled             -- twisted.internet.defer.CancelledError
  | afkakCancelled        -- afkak.common.CancelledError
  | brokerError (e : Int) -- BrokerResponseError subclass (RequestTimedOutError = 7, CoordinatorNotAvailable = 15)
  | unavailable           -- KafkaUnavailableError
  | partitionUnavailable
  | leaderUnavailable
  | twTimeout             -- twisted TimeoutError (bootstrap addTimeout)
  | connLost              -- the bootstrap connection went away
  | connFailed            -- the bootstrap connection attempt failed
  | other (cls : String)
  deriving DecidableEq, Repr

def Kind.timedOut : Kind := .brokerError clientRequestTimedOutErrno
def Kind.coordNA : Kind := .brokerError clientCoordinatorNotAvailableErrno

/-- `isinstance(e, KafkaError)`: what the broker loop of `_send_broker_unaware_request` swallows -/
def Kind.isKafkaError : Kind → Bool
  | .clientClosed | .afkakCancelled | .brokerError _ | .unavailable | .partitionUnavailable | .leaderUnavailable => true
  | _ => false

/-- `failure.check(t_CancelledError, CancelledError)` in `_handleMetadataErr` -/
def Kind.isCancel : Kind → Bool
  | .cancelled | .afkakCancelled => true
  | _ => false

inductive Res where
  | ok (p : Payload)
  | err (k : Kind)
  deriving DecidableEq, Repr

/-- result of an API operation as its Deferred reports it -/
inductive OpRes where
  | okTrue | okNone
  /-- list of responses (tags), in payload order -/
  | responses (tags : List Int)
  | failedPayloads (tags : List Int) (failed : List (Nat × Kind))
  | simple (err : Int)
  | fail (k : Kind)
  deriving DecidableEq, Repr

inductive Waiter where
  | api (o : Nat) | send (s : Nat) | srtc (r : Nat)
  deriving DecidableEq, Repr

/-- who consumes the result of `load_metadata_for_topics` -/
inductive LOwner where
  | api (o : Nat)
  | leader (s : Nat)
  deriving DecidableEq, Repr

/-- who consumes the result of `_send_broker_unaware_request` -/
inductive UOwner where
  | load (fetchAll : Bool) (lo : LOwner)
  | cfetch (g : String)
  /-- `_load_topic_partitions` call `l` -/
  | ltp (l : Nat)
  deriving DecidableEq, Repr

inductive ReqOwner where
  | unaware (u : Nat) (rest : List Int)
  | slot (s : Nat) (j : Nat)
  | srtc (r : Nat)
  deriving DecidableEq, Repr

/-- what a broker request carries (for the request log) -/
inductive ReqWhat where
  | metadata (topics : List String)
  | coord (g : String)
  | payloads (idxs : List Nat) (keys : List TP)
  | group (g : String)
  deriving DecidableEq, Repr

/-- one `_make_request_to_broker` instance -/
structure Req where
  k : Nat
  b : Nat
  issued : Rat
  due : Rat
  pending : Bool := true
  /-- `failure` recorded by `_mrtb_timeout` -/
  timedOut : Bool := false
  /-- the group of a `_send_request_to_coordinator` request -/
  grp : Option String := none
  owner : ReqOwner
  deriving DecidableEq, Repr

inductive TimerWhat where
  | mrtb (k : Nat)
  | boot (j : Nat)
  /-- retry delay of `_load_topic_partitions` call `l` -/
  | retry (l : Nat)
  deriving DecidableEq, Repr

structure Timer where
  what : TimerWhat
  due : Rat
  deriving DecidableEq, Repr

/-- a `_KafkaBrokerClient` instance -/
structure BcInst where
  b : Nat
  node : Int
  /-- still a value of `self.clients` (popped before it is closed) -/
  inClients : Bool := true
  /-- `close()` has been called on it -/
  closed : Bool := false
  /-- its close Deferred has fired -/
  down : Bool := false
  /-- `connected()` as last reported by the environment -/
  conn : Bool := false
  deriving DecidableEq, Repr

/-- a `DeferredList` built by `_close_brokerclients` -/
structure Agg where
  a : Nat
  /-- broker clients whose close Deferred has not fired -/
  waiting : List Nat
  /-- the earlier aggregate nested into this one, while unfired -/
  prev : Option Nat
  fired : Bool := false
  deriving DecidableEq, Repr

inductive UState where
  | onBroker (k : Nat)
  | bootConn (j : Nat) (rest : List (String × Int))
  | bootReq (j : Nat) (rest : List (String × Int))
  | done
  deriving DecidableEq, Repr

inductive UKind where
  | metadata (topics : List String)
  | coord (g : String)
  deriving DecidableEq, Repr

structure Unaware where
  u : Nat
  kind : UKind
  st : UState
  owner : UOwner
  deriving DecidableEq, Repr

structure CFetch where
  g : String
  /-- waiters in order; `true` = cancelled (its later callback is suppressed) -/
  waiters : List (Waiter × Bool)
  deriving DecidableEq, Repr

structure Slot where
  node : Int
  idxs : List Nat
  /-- request id once issued -/
  k : Option Nat := none
  res : Option Res := none
  deriving DecidableEq, Repr

inductive SPhase where
  | resolving (i : Nat)
  | inflight (slots : List Slot)
  | done
  deriving DecidableEq, Repr

structure Send where
  s : Nat
  o : Nat
  keys : List TP
  group : Option String
  failOnError : Bool
  expect : Bool
  /-- `(leader node id, payload index)` of the payloads resolved so far -/
  routed : List (Int × Nat) := []
  phase : SPhase
  deriving DecidableEq, Repr

inductive RPhase where
  | resolving | inflight (k : Nat) | done
  deriving DecidableEq, Repr

structure Srtc where
  r : Nat
  o : Nat
  g : String
  minTimeout : Option Rat
  phase : RPhase
  deriving DecidableEq, Repr

structure Cfg where
  timeout : Rat
  disconnectOnTimeout : Bool
  bootHosts : List (String × Int)
  /-- what `retry_policy(attempt)` returns (the harness passes a constant policy) -/
  retryDelay : Rat := 1/2
  deriving Repr

inductive LPhase where
  | waiting | sleeping | done
  deriving DecidableEq, Repr

/-- a `_load_topic_partitions` call: `topics` is the (re-bound) local of the coroutine -/
structure Ltp where
  l : Nat
  o : Nat
  topics : List String
  phase : LPhase
  deriving DecidableEq, Repr

/-- environment answers given synchronously inside a step -/
structure Env where
  /-- results of successive `random.shuffle` calls, as index permutations -/
  shuffles : List (List Nat) := []
  /-- broker clients whose close Deferred fires inside `close()` (nothing to tear down) -/
  syncDown : List Nat := []
  /-- the order in which `close()` iterates the SET of sleeping `_load_topic_partitions` retry delays
      (hash order of Deferred objects: not determined by anything the model knows) -/
  delayOrder : List Nat := []
  deriving Repr

structure St where
  cache : Cache := {}
  closing : Bool := false
  now : Rat := 0
  reqs : List Req := []
  timers : List Timer := []
  bcs : List BcInst := []
  aggs : List Agg := []
  /-- `self.close_dlist` -/
  closeDlist : Option Nat := none
  /-- the aggregate the Deferred returned by `close()` is -/
  closeWait : List (Nat × Nat) := []
  ltps : List Ltp := []
  unawares : List Unaware := []
  cfetches : List CFetch := []
  sends : List Send := []
  srtcs : List Srtc := []
  /-- bootstrap attempts issued so far (ids are sequential) -/
  nBoot : Nat := 0
  /-- API ops whose Deferred has not fired -/
  liveOps : List Nat := []
  env : Env := {}
  deriving Repr

inductive Ob where
  | bcNew (b : Nat) (node : Int) (host : String) (port : Int)
  | bcUpdate (b : Nat) (host : String) (port : Int)
  | mk (k b : Nat) (expect : Bool) (what : ReqWhat)
  | setTimer (t : TimerWhat) (due : Rat)
  | cancelTimer (t : TimerWhat)
  | bcCancel (k : Nat)
  /-- a broker request Deferred fired inside the step (not as the step's own event) -/
  | fired (k : Nat) (r : Option Kind)
  | bcDisconnect (b : Nat)
  | bcClose (b : Nat)
  | down (b : Nat)
  | bootConnect (j : Nat) (host : String) (port : Int)
  | bootCancel (j : Nat)
  | bootWrite (j : Nat)
  | bootLose (j : Nat)
  | result (o : Nat) (r : OpRes)
  | closeFired (o : Nat)
  | raised (o : Nat) (cls : String)
  | late (k : Nat)
  | badOp (why : String)
  deriving DecidableEq, Repr

/-- pending synchronous work, executed depth first -/
inductive Act where
  | fireReq (k : Nat) (r : Res) (nested : Bool)
  /-- hand the (already substituted) result of request `k` to its owner -/
  | deliver (owner : ReqOwner) (k : Nat) (r : Res)
  | timeoutFired (k : Nat)
  | cancelReq (k : Nat)
  | bootTimeout (j : Nat)
  | disconnect (b : Nat)
  | unawareStart (u : Nat)
  | unawareNext (u : Nat) (nodes : List Int)
  | bootNext (u : Nat) (hosts : List (String × Int))
  | bootResult (j : Nat) (r : Res)
  | unawareDone (u : Nat) (r : Res)
  | waiterFire (w : Waiter) (r : Res)
  | sendResolve (s : Nat)
  | sendLoaded (s : Nat) (r : Res)
  | sendCoordLoaded (s : Nat) (r : Res)
  | sendLookup (s : Nat)
  | sendFail (s : Nat) (k : Kind)
  | sendIssue (s : Nat)
  | issueSlot (s : Nat) (j : Nat)
  | sendCheck (s : Nat)
  | srtcCoordLoaded (r : Nat) (res : Res)
  | srtcGo (r : Nat)
  | srtcDone (r : Nat) (res : Res)
  | srtcFail (r : Nat) (k : Kind)
  | closeBc (b : Nat)
  | newAgg (bs : List Nat)
  | bcDown (b : Nat) (nested : Bool)
  | aggCheck
  | cancelBoots
  | cancelU (u : Nat)
  | mergeTopics (ts : List TopicMeta) (lo : LOwner)
  | ltpMerged (l : Nat) (ts : List TopicMeta)
  | ltpWake (l : Nat)
  | ltpFail (l : Nat) (k : Kind)
  | cancelDelays
  | cancelDelay (l : Nat)
  | finishClose (o : Nat)
  | closeAgain (o : Nat)
  | opResult (o : Nat) (r : OpRes)
  deriving Repr

/-! ## small helpers -/

def applyPerm {α} (perm : List Nat) (xs : List α) : Option (List α) :=
  if perm.length == xs.length && (List.range xs.length).all (fun i => perm.contains i) then
    perm.mapM (fun i => xs[i]?)
  else none

/-- `random.shuffle(xs)`: consume the next recorded permutation -/
def shuffle {α} (st : St) (xs : List α) : Option (St × List α) :=
  match st.env.shuffles with
  | [] => none
  | p :: ps => (applyPerm p xs).map (fun ys => ({ st with env := { st.env with shuffles := ps } }, ys))

/-- `callLater`: insert after every timer that is due no later (Clock keeps a stable sort) -/
def insertTimer (t : Timer) : List Timer → List Timer
  | [] => [t]
  | x :: l => if t.due < x.due then t :: x :: l else x :: insertTimer t l

def timerActive (st : St) (w : TimerWhat) : Bool := st.timers.any (fun t => t.what == w)

def cancelTimer (st : St) (w : TimerWhat) : St := { st with timers := st.timers.filter (fun t => !(t.what == w)) }

def bcOfNode (st : St) (node : Int) : Option BcInst :=
  (st.bcs.filter (fun i => i.node == node && i.inClients)).head?

def bcGet (st : St) (b : Nat) : Option BcInst := (st.bcs.filter (fun i => i.b == b)).head?

def reqGet (st : St) (k : Nat) : Option Req := (st.reqs.filter (fun r => r.k == k)).head?

def setReq (st : St) (k : Nat) (f : Req → Req) : St :=
  { st with reqs := st.reqs.map (fun r => if r.k == k then f r else r) }

def setUnaware (st : St) (u : Nat) (f : Unaware → Unaware) : St :=
  { st with unawares := st.unawares.map (fun x => if x.u == u then f x else x) }

def setSend (st : St) (s : Nat) (f : Send → Send) : St :=
  { st with sends := st.sends.map (fun x => if x.s == s then f x else x) }

def setSrtc (st : St) (r : Nat) (f : Srtc → Srtc) : St :=
  { st with srtcs := st.srtcs.map (fun x => if x.r == r then f x else x) }

def unawareGet (st : St) (u : Nat) : Option Unaware := (st.unawares.filter (fun x => x.u == u)).head?
def sendGet (st : St) (s : Nat) : Option Send := (st.sends.filter (fun x => x.s == s)).head?
def srtcGet (st : St) (r : Nat) : Option Srtc := (st.srtcs.filter (fun x => x.r == r)).head?

/-- `_get_brokerclient(node)`: `ClientError` when closing; creates the broker client on first use.
    Returns the instance id. `KeyError` (unknown node) is `.other`. -/
def getBrokerClient (st : St) (node : Int) : Except Kind (St × Nat × List Ob) :=
  if st.closing then .error .clientClosed else
  match bcOfNode st node with
  | some i => .ok (st, i.b, [])
  | none => match get? node st.cache.brokers with
    | none => .error (.other "KeyError")
    | some bm =>
      let b := st.bcs.length
      .ok ({ st with bcs := st.bcs ++ [{ b := b, node := node }],
                     cache := { st.cache with clients := st.cache.clients ++ [(node, bm)] } },
           b, [.bcNew b node bm.host bm.port])

/-- `expectResponse=False` on a connected broker client: the Deferred fires inside `makeRequest` -/
def syncFire (st : St) (b : Nat) (expect : Bool) : Bool :=
  !expect && (match bcGet st b with | some i => i.conn | none => false)

def grpOf : ReqWhat → Option String
  | .group g => some g
  | _ => none

/-- `_make_request_to_broker(broker, …)`: `makeRequest`, then `callLater(timeout)`; with
    `expectResponse=False` on a connected broker client the Deferred has already fired when
    `addBoth(_mrtb_cb)` runs.  Returns the request id and the follow-up actions. -/
def makeRequest (cfg : Cfg) (st : St) (b : Nat) (owner : ReqOwner) (expect : Bool) (what : ReqWhat)
    (minTimeout : Option Rat) : St × Nat × List Ob × List Act :=
  let k := st.reqs.length
  let timeout := match minTimeout with
    | some m => if cfg.timeout < m then m else cfg.timeout
    | none => cfg.timeout
  let due := st.now + timeout
  -- when the Deferred fires inside `makeRequest`, `_mrtb_cb` runs as soon as it is attached and
  -- cancels the timer that was just armed
  let sync := syncFire st b expect
  let st1 := { st with reqs := st.reqs ++ [{ k := k, b := b, issued := st.now, due := due, pending := !sync, grp := grpOf what, owner := owner }],
                       timers := if sync then st.timers else insertTimer { what := .mrtb k, due := due } st.timers }
  let obs := [Ob.mk k b expect what] ++ (if sync then [Ob.fired k none] else []) ++ [Ob.setTimer (.mrtb k) due]
    ++ (if sync then [Ob.cancelTimer (.mrtb k)] else [])
  (st1, k, obs, if sync then [Act.deliver owner k (.ok .none)] else [])

structure IssueOk where
  st : St
  k : Nat
  obs : List Ob
  acts : List Act

structure IssueErr where
  st : St
  obs : List Ob
  kind : Kind

/-- `broker = self._get_brokerclient(node)` (may create the broker client), the encoder (`reject`: it
    refuses the payloads), then `_make_request_to_broker(broker, …)` -/
def issueTo (cfg : Cfg) (st : St) (node : Int) (owner : ReqOwner) (expect : Bool) (what : ReqWhat)
    (minTimeout : Option Rat) (reject : Bool) : Except IssueErr IssueOk :=
  match getBrokerClient st node with
  | .error kd => .error { st := st, obs := [], kind := kd }
  | .ok (st1, b, obs1) =>
    if reject then .error { st := st1, obs := obs1, kind := .other "ValueError" } else
    let mr := makeRequest cfg st1 b owner expect what minTimeout
    .ok { st := mr.1, k := mr.2.1, obs := obs1 ++ mr.2.2.1, acts := mr.2.2.2 }

def insertByNode (a : BcInst) : List BcInst → List BcInst
  | [] => [a]
  | x :: l => if a.node ≤ x.node then a :: x :: l else x :: insertByNode a l

/-- iteration order of a Python `set` of small node ids (ascending) -/
def sortByNode : List BcInst → List BcInst
  | [] => []
  | a :: l => insertByNode a (sortByNode l)

/-- `_update_brokers` on the live client: cache kernel + `updateMetadata` calls + closing the popped
    broker clients (`_close_brokerclients(to_close)`). -/
def applyUpdate (st : St) (c' : Cache) (closedNodes : List Int) (bs : List Broker) : St × List Ob × List Act :=
  let byId := dictOfList (bs.map (fun b => (b.nodeId, b)))
  let upd : List Ob := byId.flatMap (fun e => match bcOfNode st e.1 with
    | some i => [Ob.bcUpdate i.b e.2.host e.2.port]
    | none => [])
  let toClose := (sortByNode (st.bcs.filter (fun i => i.inClients && closedNodes.contains i.node))).map (·.b)
  ({ st with cache := c', bcs := st.bcs.map (fun i => if toClose.contains i.b then { i with inClients := false } else i) }, upd,
   if toClose.isEmpty then [] else toClose.map Act.closeBc ++ [Act.newAgg toClose])


/-! ## the interpreter -/

def garbageCls : String := "BufferUnderflowError"

/-- `d.callback/errback` of the Deferred `load_metadata_for_topics` returned -/
def deliverLoad (lo : LOwner) (r : Res) : List Act :=
  match lo with
  | .api o => [.opResult o (match r with
      | .ok (.simple 1) => .okTrue
      | .ok _ => .okNone
      | .err k => .fail k)]
  | .leader s => [.sendLoaded s r]

/-- result of `_mrtb_cb` handed to whoever waits on the request -/
def reqDone (st : St) (owner : ReqOwner) (k : Nat) (r : Res) : St × List Act :=
  match owner with
  | .unaware u rest => match r with
    | .ok _ => (st, [.unawareDone u r])
    | .err kind => if kind.isKafkaError then (st, [.unawareNext u rest]) else (st, [.unawareDone u r])
  | .slot s _ =>
    (setSend st s (fun x => match x.phase with
      | .inflight slots => { x with phase := .inflight (slots.map (fun sl => if sl.k == some k then { sl with res := some r } else sl)) }
      | _ => x), [.sendCheck s])
  | .srtc r' => (st, [.srtcDone r' r])

/-- join (or start) the coordinator lookup for `g` as waiter `w` (`load_coordinator_for_group`) -/
def cloadJoin (st : St) (w : Waiter) (g : String) : St × List Act :=
  if st.cfetches.any (fun f => f.g == g) then
    ({ st with cfetches := st.cfetches.map (fun f => if f.g == g then { f with waiters := f.waiters ++ [(w, false)] } else f) }, [])
  else
    let u := st.unawares.length
    ({ st with unawares := st.unawares ++ [{ u := u, kind := .coord g, st := .done, owner := .cfetch g }],
               cfetches := st.cfetches ++ [{ g := g, waiters := [(w, false)] }] }, [.unawareStart u])

def suppressWaiter (st : St) (w : Waiter) : St :=
  { st with cfetches := st.cfetches.map (fun f => { f with waiters := f.waiters.map (fun x => if x.1 == w then (x.1, true) else x) }) }

/-- cancel what an unaware request is waiting on (`Deferred.cancel()` reaching it) -/
def cancelUnaware (x : Unaware) : List Ob × List Act :=
  match x.st with
  | .onBroker k => ([], [.cancelReq k])
  | .bootConn j rest => ([.bootCancel j], [.bootNext x.u rest])
  | .bootReq j _ => ([], [.bootResult j (.err .cancelled)])
  | .done => ([], [])

/-- `self.clients[node_id].connected()`, `False` on `KeyError` -/
def nodeConnected (st : St) (n : Int) : Bool :=
  match bcOfNode st n with | some i => i.conn | none => false

/-- `node_ids.sort(reverse=True, key=connected)` (stable) -/
def connectedFirst (st : St) (nodes : List Int) : List Int :=
  nodes.filter (nodeConnected st) ++ nodes.filter (fun n => !nodeConnected st n)

def decodeItems (rs : List (TP × Int × Int)) : List Resp := rs.map (fun r => { key := r.1, err := r.2.1, tag := r.2.2 })

/-- the loop over `zip(results, payloadsList)`: `none` = a reply failed to decode -/
def slotResults (expect : Bool) : List Slot → Option (List (List Nat × BrokerResult Kind))
  | [] => some []
  | sl :: rest =>
    let here : Option (List Nat × BrokerResult Kind) := match sl.res with
      | some (.err k) => some (sl.idxs, .fail k)
      | some (.ok (.items rs)) => some (sl.idxs, .ok (if expect then decodeItems rs else []))
      | some (.ok .none) => if expect then none else some (sl.idxs, .ok [])
      | _ => none
    match here, slotResults expect rest with
    | some h, some t => some (h :: t)
    | _, _ => none

def exec (cfg : Cfg) (st : St) : Act → St × List Ob × List Act
  | .fireReq k r nested =>
    match reqGet st k with
    | none => (st, [.badOp "fireReq"], [])
    | some q =>
      -- a nested completion (close, cancel) skips a request that has meanwhile been resolved; a reply
      -- from the network to a resolved request is swallowed by the broker client (`late`)
      if !q.pending then (st, if nested then [] else [.late k], []) else
      let st1 := setReq st k (fun x => { x with pending := false })
      let (st2, obs) := if timerActive st1 (.mrtb k) then (cancelTimer st1 (.mrtb k), [Ob.cancelTimer (.mrtb k)]) else (st1, [])
      let r' := if q.timedOut then Res.err Kind.timedOut else r
      let (st3, acts) := reqDone st2 q.owner k r'
      (st3, (if nested then [Ob.fired k (match r with | .ok _ => none | .err kd => some kd)] else []) ++ obs, acts)
  | .deliver owner k r =>
    let (st1, acts) := reqDone st owner k r
    (st1, [], acts)
  | .timeoutFired k =>
    -- `_mrtb_timeout`: record the failure, `d.cancel()` (the broker client errbacks at once and
    -- `_mrtb_cb` substitutes the recorded failure), then the optional `disconnect()`
    match reqGet st k with
    | none => (st, [.badOp "timeoutFired"], [])
    | some q =>
      if !q.pending then (st, [.badOp "timeoutFired resolved"], []) else
      let st1 := setReq st k (fun x => { x with timedOut := true, pending := false })
      let (st2, acts) := reqDone st1 q.owner k (.err Kind.timedOut)
      (st2, [.bcCancel k, .fired k (some .cancelled)],
       acts ++ (if cfg.disconnectOnTimeout then [.disconnect q.b] else []))
  | .cancelReq k =>
    match reqGet st k with
    | none => (st, [.badOp "cancelReq"], [])
    | some q => if q.pending then (st, [.bcCancel k], [.fireReq k (.err .cancelled) true]) else (st, [], [])
  | .disconnect b => (st, [.bcDisconnect b], [])
  | .unawareStart u =>
    if st.closing then (st, [], [.unawareDone u (.err .clientClosed)]) else
    match shuffle st (st.cache.brokers.map (·.1)) with
    | none => (st, [.badOp "shuffle"], [])
    | some (st1, nodes) => (st1, [], [.unawareNext u (connectedFirst st1 nodes)])
  | .unawareNext u nodes =>
    match unawareGet st u with
    | none => (st, [.badOp "unawareNext"], [])
    | some x =>
      match nodes with
      | [] =>
        match shuffle st cfg.bootHosts with
        | none => (st, [.badOp "shuffle"], [])
        | some (st1, hosts) => (st1, [], [.bootNext u hosts])
      | n :: rest =>
        match issueTo cfg st n (.unaware u rest) true
            (match x.kind with | .metadata ts => ReqWhat.metadata ts | .coord g => ReqWhat.coord g) none false with
        | .error e => (e.st, e.obs, [.unawareDone u (.err e.kind)])
        | .ok i => (setUnaware i.st u (fun y => { y with st := .onBroker i.k }), i.obs, i.acts)
  | .bootNext u hosts =>
    if st.closing then (st, [], [.unawareDone u (.err .afkakCancelled)]) else
    match hosts with
    | [] => (st, [], [.unawareDone u (.err .unavailable)])
    | (h, p) :: rest =>
      let j := st.nBoot
      (setUnaware { st with nBoot := j + 1 } u (fun y => { y with st := .bootConn j rest }), [.bootConnect j h p], [])
  | .bootTimeout j => (st, [], [.bootResult j (.err .twTimeout)])
  | .bootResult j r =>
    match (st.unawares.filter (fun x => match x.st with | .bootReq j' _ => j' == j | _ => false)).head? with
    | none => (st, [.badOp "bootResult"], [])
    | some x =>
      let rest := match x.st with | .bootReq _ rest => rest | _ => []
      let (st1, obs) := if timerActive st (.boot j) then (cancelTimer st (.boot j), [Ob.cancelTimer (.boot j)]) else (st, [])
      match r with
      | .ok _ => (st1, obs ++ [.bootLose j], [.unawareDone x.u r])
      | .err _ => (st1, obs ++ [.bootLose j], [.bootNext x.u rest])
  | .unawareDone u r =>
    match unawareGet st u with
    | none => (st, [.badOp "unawareDone"], [])
    | some x =>
      let st0 := setUnaware st u (fun y => { y with st := .done })
      match x.owner with
      | .load fetchAll lo =>
        match r with
        | .ok (.metadata bs ts) =>
          -- `_merge_topic_metadata`: `_update_brokers` first — closing broker clients there fails their
          -- requests synchronously (which may reset the cache) — then the per-topic loop
          let byId := dictOfList (bs.map (fun b => (b.nodeId, b)))
          let ub := updateBrokersDict st0.cache byId (fetchAll && !byId.isEmpty)
          let au := applyUpdate st0 ub.1 ub.2 bs
          (au.1, au.2.1, au.2.2 ++ [.mergeTopics ts lo])
        | .ok .garbage => (st0, [], deliverLoad lo (.err (.other garbageCls)))
        | .ok _ => (st0, [.badOp "payload"], [])
        | .err kd => (st0, [], deliverLoad lo (if kd.isCancel then .ok .none else .err .unavailable))
      | .ltp l =>
        match r with
        | .ok (.metadata bs ts) =>
          let byId := dictOfList (bs.map (fun b => (b.nodeId, b)))
          let ub := updateBrokersDict st0.cache byId false
          let au := applyUpdate st0 ub.1 ub.2 bs
          (au.1, au.2.1, au.2.2 ++ [.ltpMerged l ts])
        | .ok .garbage => (st0, [], [.ltpFail l (.other garbageCls)])
        | .ok _ => (st0, [.badOp "payload"], [])
        | .err kd => (st0, [], [.ltpFail l kd])
      | .cfetch g =>
        let ws := ((st0.cfetches.filter (fun f => f.g == g)).flatMap (·.waiters)).filter (fun w => !w.2)
        let st1 := { st0 with cfetches := st0.cfetches.filter (fun f => !(f.g == g)) }
        match r with
        | .ok (.coord 0 b) =>
          let c1 := { st1.cache with groups := upsert g b st1.cache.groups }
          let ub := updateBrokers c1 [b] false
          let au := applyUpdate { st1 with cache := c1 } ub.1 ub.2 [b]
          (au.1, au.2.1, au.2.2 ++ ws.map (fun w => Act.waiterFire w.1 (.ok (.simple 1))))
        | _ =>
          ({ st1 with cache := resetGroup st1.cache g }, [], ws.map (fun w => Act.waiterFire w.1 (.err Kind.coordNA)))
  | .waiterFire w r =>
    match w with
    | .api o => (st, [], [.opResult o (match r with | .ok _ => .okTrue | .err kd => .fail kd)])
    | .send s => (st, [], [.sendCoordLoaded s r])
    | .srtc r' => (st, [], [.srtcCoordLoaded r' r])
  | .sendResolve s =>
    match sendGet st s with
    | none => (st, [.badOp "sendResolve"], [])
    | some x =>
      match x.phase with
      | .resolving i =>
        match x.keys[i]? with
        | none => (st, [], [.sendIssue s])
        | some key =>
          match x.group with
          | none =>
            match get? key st.cache.t2b with
            | some (some _) => (st, [], [.sendLookup s])
            | _ =>
              let u := st.unawares.length
              ({ st with unawares := st.unawares ++ [{ u := u, kind := .metadata [key.1], st := .done, owner := .load false (.leader s) }] },
               [], [.unawareStart u])
          | some g =>
            match get? g st.cache.groups with
            | some _ => (st, [], [.sendLookup s])
            | none => let (st1, acts) := cloadJoin st (.send s) g; (st1, [], acts)
      | _ => (st, [.badOp "sendResolve phase"], [])
  | .sendLoaded s r =>
    match r with
    | .err kd => (st, [], [.sendFail s kd])
    | .ok _ => (st, [], [.sendLookup s])
  | .sendCoordLoaded s r =>
    match r with
    | .err kd => (st, [], [.sendFail s kd])
    | .ok _ => (st, [], [.sendLookup s])
  | .sendLookup s =>
    match sendGet st s with
    | none => (st, [.badOp "sendLookup"], [])
    | some x =>
      match x.phase with
      | .resolving i =>
        match x.keys[i]? with
        | none => (st, [.badOp "sendLookup idx"], [])
        | some key =>
          let leader : Except Kind Broker := match x.group with
            | none => match get? key st.cache.t2b with
              | none => .error .partitionUnavailable
              | some none => .error .leaderUnavailable
              | some (some b) => .ok b
            | some g => match get? g st.cache.groups with
              | none => .error Kind.coordNA
              | some b => .ok b
          match leader with
          | .error kd => (st, [], [.sendFail s kd])
          | .ok b => (setSend st s (fun y => { y with routed := y.routed ++ [(b.nodeId, i)], phase := .resolving (i + 1) }), [], [.sendResolve s])
      | _ => (st, [.badOp "sendLookup phase"], [])
  | .sendFail s kd =>
    match sendGet st s with
    | none => (st, [.badOp "sendFail"], [])
    | some x => (setSend st s (fun y => { y with phase := .done }), [], [.opResult x.o (.fail kd)])
  | .sendIssue s =>
    match sendGet st s with
    | none => (st, [.badOp "sendIssue"], [])
    | some x =>
      let groups := groupByNode x.routed
      let slots : List Slot := groups.map (fun g => { node := g.1, idxs := g.2 })
      (setSend st s (fun y => { y with phase := .inflight slots }), [],
       (List.range slots.length).map (fun j => Act.issueSlot s j) ++ [.sendCheck s])
  | .issueSlot s j =>
    match sendGet st s with
    | none => (st, [.badOp "issueSlot"], [])
    | some x =>
      match x.phase with
      | .inflight slots =>
        match slots[j]? with
        | none => (st, [.badOp "issueSlot idx"], [])
        | some sl =>
          -- the encoder refuses a repeated (topic, partition) in one request (`ValueError`, raised after
          -- the broker client was looked up): the send fails, requests already issued stay in flight
          match issueTo cfg st sl.node (.slot s j) x.expect (.payloads sl.idxs (sl.idxs.filterMap (fun i => x.keys[i]?))) none
              (clientEncoderRefusesDuplicates && (sortHP (sl.idxs.filterMap (fun i => x.keys[i]?))).length != sl.idxs.length) with
          | .error e => (e.st, e.obs, [.sendFail s e.kind])
          | .ok i =>
            (setSend i.st s (fun y => match y.phase with
              | .inflight sls => { y with phase := .inflight ((List.range sls.length).zip sls |>.map (fun e => if e.1 == j then { e.2 with k := some i.k } else e.2)) }
              | _ => y), i.obs, i.acts)
      | _ => (st, [], [])   -- the send failed while issuing: the generator is gone
  | .sendCheck s =>
    match sendGet st s with
    | none => (st, [.badOp "sendCheck"], [])
    | some x =>
      match x.phase with
      | .inflight slots =>
        if !slots.all (fun sl => sl.res.isSome) then (st, [], []) else
        match slotResults x.expect slots with
        | none => (st, [], [.sendFail s (.other garbageCls)])
        | some results =>
          let (resps, failed) := assemble x.keys results
          let st1 := setSend st s (fun y => { y with phase := .done })
          if !failed.isEmpty then
            ({ st1 with cache := resetAll st1.cache }, [], [.opResult x.o (.failedPayloads (resps.map (·.tag)) failed)])
          else
            let (c', raised) := handleResponses st1.cache x.failOnError x.group (resps.map (fun r => (r.key.1, r.err)))
            ({ st1 with cache := c' }, [], [.opResult x.o (match raised with
              | none => .responses (resps.map (·.tag))
              | some (.errno e) => .fail (.brokerError e)
              | some .typeError => .fail (.other "TypeError"))])
      | _ => (st, [], [])
  | .srtcCoordLoaded r res =>
    match res with
    | .err kd => (st, [], [.srtcFail r kd])
    | .ok _ => (st, [], [.srtcGo r])
  | .srtcFail r kd =>
    match srtcGet st r with
    | none => (st, [.badOp "srtcFail"], [])
    | some x => (setSrtc st r (fun y => { y with phase := .done }), [], [.opResult x.o (.fail kd)])
  | .srtcGo r =>
    match srtcGet st r with
    | none => (st, [.badOp "srtcGo"], [])
    | some x =>
      match get? x.g st.cache.groups with
      | none => (st, [], [.srtcFail r Kind.coordNA])
      | some bm =>
        match issueTo cfg st bm.nodeId (.srtc r) true (.group x.g) x.minTimeout false with
        | .error e => (e.st, e.obs, [.srtcFail r e.kind])
        | .ok i => (setSrtc i.st r (fun y => { y with phase := .inflight i.k }), i.obs, i.acts)
  | .srtcDone r res =>
    match srtcGet st r with
    | none => (st, [.badOp "srtcDone"], [])
    | some x =>
      match res with
      | .err kd => (st, [], [.srtcFail r kd])
      | .ok (.simple e) =>
        if e == 0 then (setSrtc st r (fun y => { y with phase := .done }), [], [.opResult x.o (.simple 0)])
        else if clientTopicResetErrnos.contains e then (st, [], [.srtcFail r (.other "AttributeError")])
        else if clientGroupResetErrnos.contains e then
          ({ st with cache := resetGroup st.cache x.g }, [], [.srtcFail r (.brokerError e)])
        else (st, [], [.srtcFail r (.brokerError e)])
      | .ok .garbage => (st, [], [.srtcFail r (.other garbageCls)])
      | .ok _ => (st, [.badOp "srtc payload"], [])
  | .closeBc b =>
    let pend := (st.reqs.filter (fun q => q.pending && q.b == b)).reverse
    ({ st with bcs := st.bcs.map (fun i => if i.b == b then { i with closed := true, conn := false } else i) },
     [.bcClose b],
     -- the close Deferred fires before the requests are failed, but nothing can observe it in between
     pend.map (fun q => Act.fireReq q.k (.err .clientClosed) true) ++ (if st.env.syncDown.contains b then [Act.bcDown b true] else []))
  | .newAgg bs =>
    let a := st.aggs.length
    let waiting := bs.filter (fun b => match bcGet st b with | some i => !i.down | none => false)
    ({ st with aggs := st.aggs ++ [{ a := a, waiting := waiting, prev := st.closeDlist }], closeDlist := some a }, [], [.aggCheck])
  | .bcDown b nested =>
    ({ st with bcs := st.bcs.map (fun i => if i.b == b then { i with down := true } else i),
               aggs := st.aggs.map (fun g => { g with waiting := g.waiting.filter (fun x => !(x == b)) }) },
     if nested then [.down b] else [], [.aggCheck])
  | .aggCheck =>
    let ready : Agg → Bool := fun g => !g.fired && g.waiting.isEmpty &&
      (match g.prev with | none => true | some p => st.aggs.any (fun (h : Agg) => h.a == p && h.fired))
    match (st.aggs.filter ready).head? with
    | none => (st, [], [])
    | some g =>
      let st1 := { st with aggs := st.aggs.map (fun (h : Agg) => if h.a == g.a then { h with fired := true } else h),
                           closeDlist := if st.closeDlist == some g.a then none else st.closeDlist }
      ({ st1 with closeWait := st1.closeWait.filter (fun w => !(w.2 == g.a)) },
       (st1.closeWait.filter (fun w => w.2 == g.a)).map (fun w => Ob.closeFired w.1), [.aggCheck])
  | .cancelBoots =>
    let bs := st.unawares.filter (fun x => match x.st with | .bootConn _ _ => true | .bootReq _ _ => true | _ => false)
    (st, [], bs.map (fun x => Act.cancelU x.u))
  | .mergeTopics ts lo =>
    let tdict := dictOfList (ts.map (fun t => (t.name, t)))
    ({ st with cache := tdict.foldl (fun c e => mergeTopic c e.2) st.cache }, [], deliverLoad lo (.ok (.simple 1)))
  | .ltpMerged l ts =>
    match (st.ltps.filter (fun x => x.l == l)).head? with
    | none => (st, [.badOp "ltpMerged"], [])
    | some x =>
      let tdict := dictOfList (ts.map (fun t => (t.name, t)))
      let c' := tdict.foldl (fun c e => mergeTopic c e.2) st.cache
      -- `for topic in topics`: the REQUESTED topics, one that the response omits is missing (9b87dea); before
      -- that fix the decode re-bound the local, so the loop (and the retry) used the RESPONSE's topics
      let names := if clientLtpKeepsRequestedTopics then x.topics else tdict.map (·.1)
      let missing := names.any (fun t =>
        (clientLtpKeepsRequestedTopics && !hasKey t tdict) ||
        (match get? t c'.topicErrs with | some err => err != 0 | none => true) ||
        (match get? t c'.topicParts with | some ps => ps.isEmpty | none => true))
      if missing then
        let due := st.now + cfg.retryDelay
        ({ st with cache := c', ltps := st.ltps.map (fun y => if y.l == l then { y with topics := names, phase := .sleeping } else y),
                   timers := insertTimer { what := .retry l, due := due } st.timers },
         [.setTimer (.retry l) due], [])
      else
        ({ st with cache := c', ltps := st.ltps.map (fun y => if y.l == l then { y with phase := .done } else y) },
         [], [.opResult x.o .okTrue])
  | .ltpWake l =>
    match (st.ltps.filter (fun x => x.l == l)).head? with
    | none => (st, [.badOp "ltpWake"], [])
    | some x =>
      let u := st.unawares.length
      ({ st with unawares := st.unawares ++ [{ u := u, kind := .metadata x.topics, st := .done, owner := .ltp l }],
                 ltps := st.ltps.map (fun y => if y.l == l then { y with phase := .waiting } else y) }, [], [.unawareStart u])
  | .ltpFail l kd =>
    match (st.ltps.filter (fun x => x.l == l)).head? with
    | none => (st, [.badOp "ltpFail"], [])
    | some x => ({ st with ltps := st.ltps.map (fun y => if y.l == l then { y with phase := .done } else y) }, [], [.opResult x.o (.fail kd)])
  | .cancelDelays =>
    -- every sleeping delay is cancelled once; the environment picks the order among them
    let sl := (st.ltps.filter (fun x => x.phase == .sleeping)).map (fun x => x.l)
    (st, [], ((st.env.delayOrder.filter sl.contains) ++ sl.filter (fun l => !st.env.delayOrder.contains l)).map Act.cancelDelay)
  | .cancelDelay l =>
    -- `deferLater(...).cancel()`: the delayed call is cancelled and the coroutine sees CancelledError
    if timerActive st (.retry l) then (cancelTimer st (.retry l), [.cancelTimer (.retry l)], [.ltpFail l .cancelled])
    else (st, [], [])
  | .cancelU u =>
    match unawareGet st u with
    | none => (st, [.badOp "cancelU"], [])
    | some x => (st, (cancelUnaware x).1, (cancelUnaware x).2)
  | .finishClose o =>
    let st1 := { st with cache := resetAll st.cache }
    match st1.closeDlist with
    | none => (st1, [.closeFired o], [])
    | some a => ({ st1 with closeWait := st1.closeWait ++ [(o, a)] }, [], [])
  | .closeAgain o =>
    -- `return self.close_dlist or defer.succeed(None)` of a repeated close()
    match st.closeDlist with
    | none => (st, [.closeFired o], [])
    | some a => ({ st with closeWait := st.closeWait ++ [(o, a)] }, [], [])
  | .opResult o r =>
    if st.liveOps.contains o then ({ st with liveOps := st.liveOps.filter (fun x => !(x == o)) }, [.result o r], [])
    else (st, [.badOp "opResult"], [])

/-- run the action stack to completion (depth first) -/
def runActs (cfg : Cfg) : Nat → St → List Act → List Ob → St × List Ob
  | 0, st, _, obs => (st, obs ++ [.badOp "fuel"])
  | _, st, [], obs => (st, obs)
  | fuel+1, st, a :: rest, obs =>
    let (st1, obs1, acts) := exec cfg st a
    runActs cfg fuel st1 (acts ++ rest) (obs ++ obs1)

def fuel : Nat := 100000

/-- inputs: API calls, completions from below, clock -/
inductive Ev where
  | load (o : Nat) (topics : List String)
  | send (o : Nat) (keys : List TP) (group : Option String) (failOnError expect : Bool)
  | cload (o : Nat) (g : String)
  | srtc (o : Nat) (g : String) (minTimeout : Option Rat)
  | ltp (o : Nat) (topics : List String)
  | cancel (o : Nat)
  | close (o : Nat)
  | resetTopics (ts : List String)
  | fire (k : Nat) (r : Res)
  | down (b : Nat)
  | conn (b : Nat) (v : Bool)
  | bootOk (j : Nat)
  | bootFail (j : Nat)
  | bootReply (j : Nat) (p : Payload)
  | bootLost (j : Nat)
  | advance (dt : Rat)
  deriving Repr

/-- what `cancel()` on the Deferred of op `o` reaches -/
def cancelOp (st : St) (o : Nat) : St × List Ob × List Act :=
  if !st.liveOps.contains o then (st, [], []) else
  -- load_metadata_for_topics called by the application
  match (st.unawares.filter (fun x => x.owner == .load true (.api o) || x.owner == .load false (.api o))).head? with
  | some x => (st, (cancelUnaware x).1, (cancelUnaware x).2)
  | none =>
  match (st.sends.filter (fun x => x.o == o)).head? with
  | some x =>
    match x.phase with
    | .resolving _ =>
      match (st.unawares.filter (fun y => y.owner == .load false (.leader x.s) && y.st != .done)).head? with
      | some y => (st, (cancelUnaware y).1, (cancelUnaware y).2)
      | none => (suppressWaiter st (.send x.s), [], [.sendCoordLoaded x.s (.err .cancelled)])
    | .inflight slots =>
      let live := slots.filter (fun sl => sl.res.isNone)
      (st, [], live.flatMap (fun sl => match sl.k with | some k => [Act.cancelReq k] | none => []))
    | .done => (st, [], [])
  | none =>
  match (st.srtcs.filter (fun x => x.o == o)).head? with
  | some x =>
    match x.phase with
    | .resolving => (suppressWaiter st (.srtc x.r), [], [.srtcCoordLoaded x.r (.err .cancelled)])
    | .inflight k => (st, [], [.cancelReq k])
    | .done => (st, [], [])
  | none =>
  match (st.ltps.filter (fun x => x.o == o)).head? with
  | some x =>
    match x.phase with
    | .waiting =>
      match (st.unawares.filter (fun y => y.owner == .ltp x.l && y.st != .done)).head? with
      | some y => (st, (cancelUnaware y).1, (cancelUnaware y).2)
      | none => (st, [], [])
    | .sleeping => (st, [], [.cancelDelay x.l])
    | .done => (st, [], [])
  | none =>
    -- a waiter of load_coordinator_for_group
    if st.cfetches.any (fun f => f.waiters.any (fun w => w.1 == .api o && !w.2)) then
      (suppressWaiter st (.api o), [], [.opResult o (.fail .cancelled)])
    else (st, [], [])

/-- what the reactor calls when a timer fires -/
def timerAct : TimerWhat → Act
  | .mrtb k => .timeoutFired k
  | .boot j => .bootTimeout j
  | .retry l => .ltpWake l

/-- fire due timers one at a time, each to completion, in Clock order -/
def fireDue (cfg : Cfg) : Nat → St → List Ob → St × List Ob
  | 0, st, obs => (st, obs ++ [.badOp "fuel"])
  | n+1, st, obs =>
    match st.timers with
    | [] => (st, obs)
    | t :: rest =>
      if st.now < t.due then (st, obs) else
      let st1 := { st with timers := rest }
      let (st2, obs2) := runActs cfg fuel st1 [timerAct t.what] obs
      fireDue cfg n st2 obs2

def step (cfg : Cfg) (st : St) (env : Env) (e : Ev) : St × List Ob :=
  let st := { st with env := env }
  match e with
  | .load o topics =>
    let u := st.unawares.length
    let nu : Unaware := { u := u, kind := .metadata topics, st := .done, owner := .load topics.isEmpty (.api o) }
    runActs cfg fuel { st with liveOps := st.liveOps ++ [o], unawares := st.unawares ++ [nu] } [.unawareStart u] []
  | .send o keys group foe expect =>
    let st1 := { st with liveOps := st.liveOps ++ [o] }
    if keys.isEmpty then runActs cfg fuel st1 [.opResult o (.fail (.other "ValueError"))] [] else
    -- a repeated (topic, partition) is refused before anything is resolved or sent (c97bc61)
    if clientSendValidatesKeysFirst && (sortHP keys).length != keys.length then
      runActs cfg fuel st1 [.opResult o (.fail (.other "ValueError"))] [] else
    let s := st.sends.length
    let ns : Send := { s := s, o := o, keys := keys, group := group, failOnError := foe, expect := expect, phase := .resolving 0 }
    runActs cfg fuel { st1 with sends := st1.sends ++ [ns] } [.sendResolve s] []
  | .cload o g =>
    let (st1, acts) := cloadJoin { st with liveOps := st.liveOps ++ [o] } (.api o) g
    runActs cfg fuel st1 acts []
  | .srtc o g minT =>
    let r := st.srtcs.length
    let st1 := { st with liveOps := st.liveOps ++ [o], srtcs := st.srtcs ++ [{ r := r, o := o, g := g, minTimeout := minT, phase := .resolving }] }
    match get? g st1.cache.groups with
    | some _ => runActs cfg fuel st1 [.srtcGo r] []
    | none => let (st2, acts) := cloadJoin st1 (.srtc r) g; runActs cfg fuel st2 acts []
  | .ltp o topics =>
    let l := st.ltps.length
    runActs cfg fuel { st with liveOps := st.liveOps ++ [o], ltps := st.ltps ++ [{ l := l, o := o, topics := topics, phase := .sleeping }] }
      [.ltpWake l] []
  | .cancel o =>
    let (st1, obs, acts) := cancelOp st o
    runActs cfg fuel st1 acts obs
  | .close o =>
    if st.closing then
      -- a second close(): AttributeError before 1d62725, the pending close Deferred after it
      (if clientCloseIdempotent then runActs cfg fuel st [.closeAgain o] [] else (st, [.raised o "AttributeError"])) else
    let open_ := st.cache.clients.filterMap (fun cl => (bcOfNode st cl.1).map (·.b))
    runActs cfg fuel { st with closing := true, cache := { st.cache with clients := [] },
                               bcs := st.bcs.map (fun i => { i with inClients := false }) }
      (open_.map Act.closeBc ++ [.newAgg open_, .cancelBoots] ++ (if clientCloseWakesRetryDelays then [.cancelDelays] else []) ++ [.finishClose o]) []
  | .resetTopics ts => ({ st with cache := resetTopics st.cache ts }, [])
  | .fire k r => runActs cfg fuel st [.fireReq k r false] []
  | .down b => runActs cfg fuel st [.bcDown b false] []
  | .conn b v => ({ st with bcs := st.bcs.map (fun i => if i.b == b then { i with conn := v } else i) }, [])
  | .bootOk j =>
    match (st.unawares.filter (fun x => match x.st with | .bootConn j' _ => j' == j | _ => false)).head? with
    | none => (st, [.badOp "bootOk"])
    | some x =>
      let rest := match x.st with | .bootConn _ rest => rest | _ => []
      let due := st.now + cfg.timeout
      let st1 := setUnaware st x.u (fun y => { y with st := .bootReq j rest })
      ({ st1 with timers := insertTimer { what := .boot j, due := due } st1.timers },
       [.bootWrite j, .setTimer (.boot j) due])
  | .bootFail j =>
    match (st.unawares.filter (fun x => match x.st with | .bootConn j' _ => j' == j | _ => false)).head? with
    | none => (st, [.badOp "bootFail"])
    | some x =>
      let rest := match x.st with | .bootConn _ rest => rest | _ => []
      runActs cfg fuel st [.bootNext x.u rest] []
  | .bootReply j p => runActs cfg fuel st [.bootResult j (.ok p)] []
  | .bootLost j => runActs cfg fuel st [.bootResult j (.err .connLost)] []
  | .advance dt =>
    if dt < 0 then (st, [.badOp "advance"]) else
    fireDue cfg (st.timers.length + fuel) { st with now := st.now + dt } []

end Afkak.ClientNet

namespace Afkak.ClientNet
open Afkak.ClientCache

/-- One item of an OBSERVED trace of the real client (recorded by `harness/lib/client_sim.py`): the
    up-call that starts a step, the down-calls/results it caused, and the harness's annotations
    (cache dump and reactor timers after the step; which operation a broker request belongs to;
    what the simulated network saw). The monitors `Afkak.Monitor.C07/C11/C20` fold over these. -/
inductive TItem where
  | ev (e : Ev)
  | ob (o : Ob)
  | dump (c : Cache)
  | timers (l : List (TimerWhat × Rat))
  /-- request `k` carries the payloads `idxs` of the send operation `o` -/
  | attr (k : Nat) (o : Nat) (idxs : List Nat)
  /-- request `k` / bootstrap attempt `j` was made by the broker-unaware request instance `u` -/
  | uattr (k : Nat) (u : Nat)
  | battr (j : Nat) (u : Nat)
  /-- the broker-unaware request instance `u` serves the metadata load operation `o` -/
  | uop (u : Nat) (o : Nat)
  /-- request `k` was written to connection `cid`; the client told connection `cid` to close -/
  | wrote (k : Nat) (cid : Nat)
  | lose (cid : Nat)
  /-- the connection of bootstrap attempt `j` has gone (its connection-lost notification was delivered) -/
  | bootGone (j : Nat)
  /-- the simulated network saw a connection attempt / a frame (recorded after `close()` only) -/
  | net (what : String)
  /-- an exception of class `cls` escaped from a callback into the reactor (which logs it and goes on).
      No step of the model produces this item. -/
  | exc (cls : String)
  /-- harness annotation at the end of a step: broker client `b` (not closed) has neither a connection, nor a
      connection attempt in progress, nor a retry scheduled -/
  | bcIdle (b : Nat)
  /-- harness annotation at the end of a trace: no connection is open or being attempted and no
      connection-closed notification is outstanding -/
  | netQuiet
  deriving Repr

/-- the model's own trace for a list of events, in the same vocabulary -/
def traceOf (cfg : Cfg) : St → List (Env × Ev) → List TItem
  | _, [] => []
  | st, (env, e) :: rest =>
    let (st', obs) := step cfg st env e
    [TItem.ev e] ++ obs.map TItem.ob ++ [TItem.dump st'.cache, TItem.timers (st'.timers.map (fun t => (t.what, t.due)))]
      ++ traceOf cfg st' rest

/-- no step of the run reports that the interpreter ran out of fuel (`runActs`/`fireDue` are fuel-bounded:
    a callback chain longer than `fuel` actions ends the step with the observation `badOp "fuel"`) -/
def NoFuel (cfg : Cfg) : St → List (Env × Ev) → Prop
  | _, [] => True
  | st, (env, e) :: rest => Ob.badOp "fuel" ∉ (step cfg st env e).2 ∧ NoFuel cfg (step cfg st env e).1 rest

end Afkak.ClientNet
