/-!
# CRC-32 (zlib / IEEE 802.3, reflected, polynomial 0xEDB88320)

`afkak/kafkacodec.py` computes message checksums with `zlib.crc32(data[4:]) & 0xFFFFFFFF`.
zlib is an external library: this file is the model of it, compared with `zlib.crc32` itself on
every run of the correspondence check.

Two forms:

* `crcBits` — the definition: a bit-serial LFSR over `BitVec 32`.  Bits enter least significant bit
  of each byte first (that is the order in which the reflected CRC consumes a byte).
* `crc32` — the byte-table form (what zlib and the driver run), proved equal to the definition in
  `AfkakProofs/Crc/Table.lean` (`crc32_eq_crcBits`).
-/
namespace Afkak.Crc32

/-- The reflected generator polynomial (bit 31 = coefficient of x^0 … bit 0 = coefficient of x^31;
    x^32 implicit). -/
def poly : BitVec 32 := 0xEDB88320#32

/-- One LFSR step consuming input bit `b`. -/
def stepBit (s : BitVec 32) (b : Bool) : BitVec 32 :=
  (s >>> 1) ^^^ (if s.getLsbD 0 != b then poly else 0#32)

/-- The zero-input step. -/
def zstep (s : BitVec 32) : BitVec 32 := stepBit s false

/-- `n` zero-input steps. -/
def zpow : Nat → BitVec 32 → BitVec 32
  | 0, s => s
  | n+1, s => zpow n (zstep s)

/-- Feed a list of bits (first element first). -/
def feed (s : BitVec 32) : List Bool → BitVec 32
  | [] => s
  | b :: bs => feed (stepBit s b) bs

/-- The 8 bits of a byte in the order the CRC consumes them: least significant first. -/
def byteBits (b : UInt8) : List Bool :=
  [b.toNat.testBit 0, b.toNat.testBit 1, b.toNat.testBit 2, b.toNat.testBit 3,
   b.toNat.testBit 4, b.toNat.testBit 5, b.toNat.testBit 6, b.toNat.testBit 7]

/-- The bit string of a byte string, in CRC consumption order. -/
def bitsOf : List UInt8 → List Bool
  | [] => []
  | b :: bs => byteBits b ++ bitsOf bs

/-- CRC-32 of a bit string: preset all ones, final complement. -/
def crcBits (bits : List Bool) : BitVec 32 := ~~~ (feed (BitVec.allOnes 32) bits)

/-- CRC-32 of a byte string, by definition. -/
def crcSpec (data : List UInt8) : BitVec 32 := crcBits (bitsOf data)

/-! ## Byte-table form -/

/-- Table entry `i`: eight zero-input steps applied to `i`. -/
def tableEntry (i : Nat) : BitVec 32 := zpow 8 (BitVec.ofNat 32 i)

/-- The 256-entry table (computed once when the driver starts). -/
def table : Array (BitVec 32) := Array.ofFn (n := 256) (fun i => tableEntry i.val)

/-- zlib's inner loop body: `c = table[(c ^ b) & 0xff] ^ (c >> 8)`. -/
def updByte (c : BitVec 32) (b : UInt8) : BitVec 32 :=
  table.getD ((c ^^^ BitVec.ofNat 32 b.toNat) &&& 0xFF#32).toNat 0#32 ^^^ (c >>> 8)

/-- `zlib.crc32(data) & 0xFFFFFFFF`. -/
def crc32 (data : List UInt8) : BitVec 32 :=
  ~~~ (data.foldl updByte (BitVec.allOnes 32))

/-! ## XOR of byte strings (error patterns) -/

/-- Pointwise XOR; the result has the length of the shorter argument (callers give equal lengths). -/
def xorBytes (a b : List UInt8) : List UInt8 := List.zipWith (· ^^^ ·) a b

def xorBits (a b : List Bool) : List Bool := List.zipWith (· != ·) a b

end Afkak.Crc32
