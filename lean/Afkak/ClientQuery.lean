import Afkak.ClientCache
import Afkak.Monitor.C08
import Afkak.Generated.ClientqueryConsts
/-!
# The cache QUERY methods of `KafkaClient` (`afkak/client.py`), as functions of the cache

`has_metadata_for_topic`, `metadata_error_for_topic`, `consumer_group_to_brokers` answer from the dictionaries the
metadata merge maintains (`topic_partitions`, `topic_errors`, `_group_to_coordinator`).  They are what the producer
and the consumer group poll to decide whether a topic exists yet.  (`partition_fully_replicated` /
`topic_fully_replicated` read replicas/isr of `partition_meta`, which the cache model does not carry: not modelled.)
Shapes and the default error code are read from the source (`harness/consts/clientquery.py`).
-/
namespace Afkak.ClientQuery
open Afkak.ClientCache Afkak.Consts

/-- `has_metadata_for_topic(topic)`: `topic in self.topic_partitions` -/
def hasMetadataForTopic (c : Cache) (topic : String) : Bool := hasKey topic c.topicParts

/-- `metadata_error_for_topic(topic)`: `self.topic_errors.get(topic, UnknownTopicOrPartitionError.errno)` -/
def metadataErrorForTopic (c : Cache) (topic : String) : Int :=
  match get? topic c.topicErrs with
  | some e => e
  | none => clientMetadataErrorDefault

/-- `consumer_group_to_brokers`: a copy of `_group_to_coordinator` -/
def consumerGroupToBrokers (c : Cache) : List (String × Broker) := c.groups

/-- what `(has_metadata_for_topic(t), metadata_error_for_topic(t))` answer for the given topics -/
def answers (c : Cache) (topics : List String) : List (String × Bool × Int) :=
  topics.map (fun t => (t, hasMetadataForTopic c t, metadataErrorForTopic c t))

/-- MONITOR (evaluated on the answers of the real methods right after a metadata response was merged; proved of the
    model: `C08_query_monitor_holds`): for every topic the response covers the client answers the response's error
    code, and "has metadata" iff the response listed at least one partition of it -/
def queryMirror (ts : List TopicMeta) (ans : List (String × Bool × Int)) : Bool :=
  (Afkak.Monitor.C08.respTopics ts).all (fun e =>
    get? e.1 ans == some (!(Afkak.Monitor.C08.respParts e.2).isEmpty, e.2.err))

end Afkak.ClientQuery
