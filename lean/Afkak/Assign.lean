import Afkak.Generated.AssignConsts
/-!
# Group assignment (`afkak/_group.py: _ConsumerProtocol`, member codecs of `afkak/kafkacodec.py`)

The round-robin assignor exactly as written: `generate_assignments` builds the `member_metadata`
dict (last value wins for a repeated member id), `_round_robin_assignment` takes the union of the
subscriptions, raises `_NeedTopicPartitions` when a topic has no entry in `topic_partitions`, sorts
the `(topic, partition)` pairs, cycles over the sorted member ids skipping members that are not
subscribed to the topic, and `generate_assignments` then encodes one member assignment per member
*in the order the members were listed*.  `decode_assignment` is the byte-level decoder.

Conventions: a Python `str` is the list of its code points (`Str`), so `<` on `str` is the
lexicographic order on `List Nat`; a `dict` is an association list in insertion order (`dset`,
`dget`, `dupd` below keep the first-inserted position exactly like CPython does); Python exceptions
are `Except.error`; the `while` loop of `_round_robin_assignment` runs on fuel and reports
`Err.diverges` when the fuel (one full turn of the cycle) is used up, which is exactly when the
Python loop would spin forever (`AfkakProps/C15.lean: C15_terminates` proves it never happens).
-/
namespace Afkak.Assign
open Afkak.Consts

abbrev Str := List Nat
abbrev Bytes := List UInt8
abbrev Dict (κ β : Type) := List (κ × β)

/-- Python exception classes that can leave the modelled functions. -/
inductive Err
  | assertion                      -- `assert all_topics`
  | need (topics : List Str)       -- `_NeedTopicPartitions(all_topics)`; the set as an ascending list
  | stopIteration                  -- `next()` on an empty `itertools.cycle`
  | keyError                       -- `member_metadata[member_id]`
  | diverges                       -- the `while` loop would never end
  | structError                    -- `struct.error`
  | unicodeEncode | unicodeDecode
  | bufferUnderflow                -- `BufferUnderflowError`
  | attributeError                 -- `None.decode(...)`
  | protocolError                  -- unsupported version
  deriving DecidableEq, Repr

/-! ## Python orders and `sorted` -/

/-- `a <= b` on `str`: lexicographic by code point. -/
def strLe : Str → Str → Bool
  | [], _ => true
  | _ :: _, [] => false
  | a :: as, b :: bs => if a = b then strLe as bs else decide (a < b)

/-- `a <= b` on `(topic, partition)` tuples. -/
def tpLe (x y : Str × Int) : Bool :=
  if x.1 = y.1 then decide (x.2 ≤ y.2) else strLe x.1 y.1

def insertBy {α : Type} (le : α → α → Bool) (a : α) : List α → List α
  | [] => [a]
  | b :: l => if le a b then a :: b :: l else b :: insertBy le a l

/-- `sorted(l)` / `l.sort()` — insertion sort (structural, so it evaluates in the kernel).  For an
    order whose equal elements are identical the result does not depend on the algorithm. -/
def sortBy {α : Type} (le : α → α → Bool) : List α → List α
  | [] => []
  | a :: l => insertBy le a (sortBy le l)

/-- The elements of a Python `set` built from a list (one representative each; order is irrelevant
    because every use sorts it or tests membership). -/
def dedup {α : Type} [DecidableEq α] : List α → List α
  | [] => []
  | a :: l => if a ∈ l then dedup l else a :: dedup l

/-! ## `dict` -/

/-- `d[k] = v` -/
def dset {κ β : Type} [DecidableEq κ] (k : κ) (v : β) : Dict κ β → Dict κ β
  | [] => [(k, v)]
  | (k', v') :: d => if k' = k then (k', v) :: d else (k', v') :: dset k v d

/-- `d.get(k)` -/
def dget {κ β : Type} [DecidableEq κ] (k : κ) : Dict κ β → Option β
  | [] => none
  | (k', v') :: d => if k' = k then some v' else dget k d

/-- `d[k] = f(d[k])` on a `defaultdict` whose default value is `dflt`. -/
def dupd {κ β : Type} [DecidableEq κ] (k : κ) (dflt : β) (f : β → β) : Dict κ β → Dict κ β
  | [] => [(k, f dflt)]
  | (k', v') :: d => if k' = k then (k', f v') :: d else (k', v') :: dupd k dflt f d

def keys {κ β : Type} (d : Dict κ β) : List κ := d.map (·.1)

/-! ## `_round_robin_assignment` -/

/-- A member as `generate_assignments` sees it after decoding its metadata: id and subscriptions. -/
abbrev Member := Str × List Str
/-- `{member_id: {topic: [partition, ...]}}` -/
abbrev Asg := Dict Str (Dict Str (List Int))

/-- `member_metadata = {}; for member in members: member_metadata[member.member_id] = ...` -/
def memberMetadata (members : List Member) : Dict Str (List Str) :=
  members.foldl (fun d m => dset m.1 m.2 d) []

/-- `all_topics = set(); for metadata in member_metadata.values(): all_topics.update(...)` -/
def allTopics (md : Dict Str (List Str)) : List Str := dedup (md.flatMap (·.2))

/-- `[(topic, partition) for topic in all_topics for partition in topic_partitions[topic]]`;
    `none` is the `KeyError`. -/
def allTopicPartitions (tp : Dict Str (List Int)) : List Str → Option (List (Str × Int))
  | [] => some []
  | t :: ts =>
    match dget t tp, allTopicPartitions tp ts with
    | some ps, some rest => some (ps.map (fun p => (t, p)) ++ rest)
    | _, _ => none

/-- `member_id = next(member_iter)` followed by
    `while topic not in member_metadata[member_id].subscriptions: member_id = next(member_iter)`.
    `rot` is the `itertools.cycle` iterator: the rotation of the sorted ids whose head comes next.
    One unit of fuel per `next`. -/
def pick (md : Dict Str (List Str)) (t : Str) : Nat → List Str → Except Err (Str × List Str)
  | 0, _ => .error .diverges
  | _ + 1, [] => .error .stopIteration
  | fuel + 1, m :: rest =>
    match dget m md with
    | none => .error .keyError
    | some subs => if t ∈ subs then .ok (m, rest ++ [m]) else pick md t fuel (rest ++ [m])

/-- The `for topic, partition in all_topic_partitions` loop; returns the sequence of
    `assignment[member_id][topic].append(partition)` operations it performs. -/
def assignLoop (md : Dict Str (List Str)) : List Str → List (Str × Int) → Except Err (List (Str × Str × Int))
  | _, [] => .ok []
  | rot, (t, p) :: rest =>
    match pick md t rot.length rot with
    | .error e => .error e
    | .ok (m, rot') =>
      match assignLoop md rot' rest with
      | .error e => .error e
      | .ok log => .ok ((m, t, p) :: log)

/-- `assignment[member_id][topic].append(partition)` on the
    `defaultdict(lambda: defaultdict(list))`. -/
def addTo (a : Asg) (x : Str × Str × Int) : Asg :=
  dupd x.1 [] (fun inner => dupd x.2.1 [] (fun ps => ps ++ [x.2.2]) inner) a

def nest (log : List (Str × Str × Int)) : Asg := log.foldl addTo []

def roundRobin (md : Dict Str (List Str)) (tp : Dict Str (List Int)) : Except Err Asg :=
  let topics := allTopics md
  if topics = [] then .error .assertion else
  match allTopicPartitions tp topics with
  | none => .error (.need (sortBy strLe topics))
  | some atp =>
    match assignLoop md (sortBy strLe (keys md)) (sortBy tpLe atp) with
    | .error e => .error e
    | .ok log => .ok (nest log)

/-! ## Integers and strings on the wire (`struct`, `afkak/_util.py`) -/

/-- `w` big-endian bytes of `n mod 256^w` -/
def beBytes : Nat → Nat → Bytes
  | 0, _ => []
  | w + 1, n => UInt8.ofNat (n / 256 ^ w % 256) :: beBytes w n

def beNat (bs : Bytes) : Nat := bs.foldl (fun acc b => acc * 256 + b.toNat) 0

/-- `struct.pack` of one signed big-endian field of `w` bytes (two's complement); a value outside
    `-(256^w)/2 ≤ v < (256^w)/2` is `struct.error`.  (Written by cases on the sign so that the
    range test is a comparison of naturals.) -/
def packInt (w : Nat) : Int → Except Err Bytes
  | .ofNat n => if n < 256 ^ w / 2 then .ok (beBytes w n) else .error .structError
  | .negSucc n => if n < 256 ^ w / 2 then .ok (beBytes w (256 ^ w - 1 - n)) else .error .structError

/-- `struct.unpack` of one signed big-endian field occupying all of `bs` (two's complement). -/
def unpackInt (bs : Bytes) : Int :=
  let n := beNat bs
  if 256 ^ bs.length ≤ 2 * n then Int.negSucc (256 ^ bs.length - 1 - n) else Int.ofNat n

/-- Python's normalisation of one slice bound against a sequence of length `n`. -/
def pyIndex (n : Nat) (i : Int) : Nat := if i < 0 then (n + i).toNat else min i.toNat n

/-- `data[a:b]` -/
def pySlice (data : Bytes) (a b : Int) : Bytes :=
  let lo := pyIndex data.length a
  let hi := pyIndex data.length b
  (data.drop lo).take (hi - lo)

/-- `relative_unpack(fmt, data, cur)` for a format of one field of `w` bytes. -/
def relUnpack1 (w : Nat) (data : Bytes) (cur : Int) : Except Err (Int × Int) :=
  if (data.length : Int) < cur + w then .error .bufferUnderflow else
  let sl := pySlice data cur (cur + w)
  if sl.length ≠ w then .error .structError else .ok (unpackInt sl, cur + w)

/-- `relative_unpack(fmt, data, cur)` for a format of two fields of `w1`, `w2` bytes. -/
def relUnpack2 (w1 w2 : Nat) (data : Bytes) (cur : Int) : Except Err (Int × Int × Int) :=
  if (data.length : Int) < cur + (w1 + w2 : Nat) then .error .bufferUnderflow else
  let sl := pySlice data cur (cur + (w1 + w2 : Nat))
  if sl.length ≠ w1 + w2 then .error .structError
  else .ok (unpackInt (sl.take w1), unpackInt (sl.drop w1), cur + (w1 + w2 : Nat))

def chunkInts (w : Nat) : Nat → Bytes → List Int
  | 0, _ => []
  | n + 1, bs => unpackInt (bs.take w) :: chunkInts w n (bs.drop w)

/-- `relative_unpack(">%si" % n, data, cur)`: `n` fields of `w` bytes; a negative count makes the
    format string invalid (`struct.error`). -/
def relUnpackN (w : Nat) (n : Int) (data : Bytes) (cur : Int) : Except Err (List Int × Int) :=
  if n < 0 then .error .structError else
  let size := n.toNat * w
  if (data.length : Int) < cur + size then .error .bufferUnderflow else
  let sl := pySlice data cur (cur + size)
  if sl.length ≠ size then .error .structError else .ok (chunkInts w n.toNat sl, cur + size)

/-- `s.encode("ascii")` -/
def asciiEncode (s : Str) : Except Err Bytes :=
  if s.all (· < 128) then .ok (s.map UInt8.ofNat) else .error .unicodeEncode

/-- `b.decode("ascii")` -/
def asciiDecode (b : Bytes) : Except Err Str :=
  if b.all (· < 128) then .ok (b.map UInt8.toNat) else .error .unicodeDecode

/-- `write_short_bytes(b)` for `b` not `None` -/
def writeShortBytes (b : Bytes) : Except Err Bytes :=
  if b.length > asgShortStrMax then .error .structError else
  match packInt asgShortLenEncW b.length with
  | .error e => .error e
  | .ok l => .ok (l ++ b)

/-- `write_short_ascii(s)` for a `str` -/
def writeShortAscii (s : Str) : Except Err Bytes :=
  match asciiEncode s with
  | .error e => .error e
  | .ok b => writeShortBytes b

/-- `write_int_string(s)` for `s` not `None` -/
def writeIntString (b : Bytes) : Except Err Bytes :=
  match packInt asgIntLenEncW b.length with
  | .error e => .error e
  | .ok l => .ok (l ++ b)

/-- `read_short_bytes(data, cur)`; `none` is Python's `None` (length −1); any other negative
    length is a `BufferUnderflowError` (repo commit 410f678).  Slices follow Python's rules. -/
def readShortBytes (data : Bytes) (cur : Int) : Except Err (Option Bytes × Int) :=
  if (data.length : Int) < cur + asgShortLenSkip then .error .bufferUnderflow else
  let sl := pySlice data cur (cur + asgShortLenSkip)
  if sl.length ≠ asgShortLenDecW then .error .structError else
  let strlen := unpackInt sl
  if strlen = asgShortNull then .ok (none, cur + asgShortLenSkip) else
  if strlen < asgShortLenFloor then .error .bufferUnderflow else
  let cur := cur + asgShortLenSkip
  if (data.length : Int) < cur + strlen then .error .bufferUnderflow
  else .ok (some (pySlice data cur (cur + strlen)), cur + strlen)

/-- `read_int_string(data, cur)` -/
def readIntString (data : Bytes) (cur : Int) : Except Err (Option Bytes × Int) :=
  if (data.length : Int) < cur + asgIntLenSkip then .error .bufferUnderflow else
  let sl := pySlice data cur (cur + asgIntLenSkip)
  if sl.length ≠ asgIntLenDecW then .error .structError else
  let strlen := unpackInt sl
  if strlen = asgIntNull then .ok (none, cur + asgIntLenSkip) else
  if strlen < asgIntLenFloor then .error .bufferUnderflow else
  let cur := cur + asgIntLenSkip
  if (data.length : Int) < cur + strlen then .error .bufferUnderflow
  else .ok (some (pySlice data cur (cur + strlen)), cur + strlen)

/-- `read_short_ascii(data, cur)`: `b.decode("ascii")` on `None` is an `AttributeError`. -/
def readShortAscii (data : Bytes) (cur : Int) : Except Err (Str × Int) :=
  match readShortBytes data cur with
  | .error e => .error e
  | .ok (none, _) => .error .attributeError
  | .ok (some b, cur') =>
    match asciiDecode b with
    | .error e => .error e
    | .ok s => .ok (s, cur')

/-! ## `encode_sync_group_member_assignment` / `decode_sync_group_member_assignment` -/

def packInts (w : Nat) : List Int → Except Err Bytes
  | [] => .ok []
  | v :: vs =>
    match packInt w v, packInts w vs with
    | .ok b, .ok bs => .ok (b ++ bs)
    | _, _ => .error .structError

/-- The body of `for topic, partitions in assignments.items()`. -/
def encodeTopics : Dict Str (List Int) → Except Err Bytes
  | [] => .ok []
  | (t, ps) :: rest =>
    match writeShortAscii t with
    | .error e => .error e
    | .ok tb =>
      match packInt asgMaEncNumPartsW ps.length, packInts asgMaEncPartW ps with
      | .ok nb, .ok pb =>
        match encodeTopics rest with
        | .error e => .error e
        | .ok rb => .ok (tb ++ nb ++ pb ++ rb)
      | _, _ => .error .structError

/-- `KafkaCodec.encode_sync_group_member_assignment(version, assignments, user_data)` -/
def encodeMemberAssignment (version : Int) (a : Dict Str (List Int)) (userData : Bytes) : Except Err Bytes :=
  match packInt asgMaEncVersionW version with
  | .error e => .error e
  | .ok vb =>
    match packInt asgMaEncNumTopicsW a.length with
    | .error e => .error e
    | .ok nb =>
      match encodeTopics a with
      | .error e => .error e
      | .ok tb =>
        match writeIntString userData with
        | .error e => .error e
        | .ok ub => .ok (vb ++ nb ++ tb ++ ub)

/-- The `for _i in range(num_assignments)` loop of the decoder. -/
def decodeTopics (data : Bytes) : Nat → Int → Dict Str (List Int) → Except Err (Dict Str (List Int) × Int)
  | 0, cur, acc => .ok (acc, cur)
  | n + 1, cur, acc =>
    match readShortAscii data cur with
    | .error e => .error e
    | .ok (topic, cur) =>
      match relUnpack1 asgMaDecNumPartsW data cur with
      | .error e => .error e
      | .ok (numParts, cur) =>
        match relUnpackN asgMaDecPartW numParts data cur with
        | .error e => .error e
        | .ok (parts, cur) => decodeTopics data n cur (dset topic parts acc)

/-- `KafkaCodec.decode_sync_group_member_assignment(data)` → `(version, assignments, user_data)` -/
def decodeMemberAssignment (data : Bytes) : Except Err (Int × Dict Str (List Int) × Option Bytes) :=
  match relUnpack2 asgMaDecVersionW asgMaDecNumTopicsW data 0 with
  | .error e => .error e
  | .ok (version, numAssignments, cur) =>
    if version ≠ asgMaSupportedVersion then .error .protocolError else
    match decodeTopics data numAssignments.toNat cur [] with
    | .error e => .error e
    | .ok (assignments, cur) =>
      match readIntString data cur with
      | .error e => .error e
      | .ok (userData, _) => .ok (version, assignments, userData)

/-- `_ConsumerProtocol.decode_assignment(assignment)` -/
def decodeAssignment (data : Bytes) : Except Err (Dict Str (List Int)) :=
  match decodeMemberAssignment data with
  | .error e => .error e
  | .ok (_, assignments, _) => .ok assignments

/-! ## `generate_assignments` -/

/-- `assignments.get(member.member_id, {})` -/
def assignmentOf (asg : Asg) (id : Str) : Dict Str (List Int) :=
  match dget id asg with
  | some a => a
  | none => []

/-- The second loop of `generate_assignments`: one encoded assignment per listed member. -/
def encodeEach (asg : Asg) : List Member → Except Err (List (Str × Bytes))
  | [] => .ok []
  | m :: ms =>
    match encodeMemberAssignment asgMaEncodedVersion (assignmentOf asg m.1) [] with
    | .error e => .error e
    | .ok b =>
      match encodeEach asg ms with
      | .error e => .error e
      | .ok r => .ok ((m.1, b) :: r)

/-- `_ConsumerProtocol.generate_assignments(members, topic_partitions)` with the members'
    metadata already decoded. -/
def generateAssignments (members : List Member) (tp : Dict Str (List Int)) : Except Err (List (Str × Bytes)) :=
  match roundRobin (memberMetadata members) tp with
  | .error e => .error e
  | .ok asg => encodeEach asg members

/-! ## Member metadata: `encode_join_group_protocol_metadata` / `decode_join_group_protocol_metadata`

The subscriptions travel as UTF-8 short strings (`write_short_text` / `read_short_text`). -/

/-- UTF-8 bytes of one code point; surrogates and values above U+10FFFF cannot be encoded
    (`UnicodeEncodeError`). -/
def utf8EncodeChar (c : Nat) : Except Err Bytes :=
  if c < 0x80 then .ok [UInt8.ofNat c]
  else if c < 0x800 then .ok [UInt8.ofNat (0xC0 + c / 64), UInt8.ofNat (0x80 + c % 64)]
  else if c < 0x10000 then
    if 0xD800 ≤ c ∧ c ≤ 0xDFFF then .error .unicodeEncode
    else .ok [UInt8.ofNat (0xE0 + c / 4096), UInt8.ofNat (0x80 + c / 64 % 64), UInt8.ofNat (0x80 + c % 64)]
  else if c < 0x110000 then
    .ok [UInt8.ofNat (0xF0 + c / 262144), UInt8.ofNat (0x80 + c / 4096 % 64), UInt8.ofNat (0x80 + c / 64 % 64),
      UInt8.ofNat (0x80 + c % 64)]
  else .error .unicodeEncode

/-- `s.encode("utf-8")` -/
def utf8Encode : Str → Except Err Bytes
  | [] => .ok []
  | c :: s =>
    match utf8EncodeChar c, utf8Encode s with
    | .ok b, .ok bs => .ok (b ++ bs)
    | _, _ => .error .unicodeEncode

/-- continuation byte `10xxxxxx` -/
def isCont (b : UInt8) : Bool := 0x80 ≤ b.toNat && b.toNat ≤ 0xBF

/-- The first code point of a UTF-8 byte string and the rest, by CPython's strict decoder (RFC 3629:
    no overlong forms, no surrogates, nothing above U+10FFFF); `none` is `UnicodeDecodeError`. -/
def utf8Next : Bytes → Option (Nat × Bytes)
  | [] => none
  | b0 :: rest =>
    let n0 := b0.toNat
    if n0 < 0x80 then some (n0, rest)
    else if 0xC2 ≤ n0 ∧ n0 ≤ 0xDF then
      match rest with
      | b1 :: rest => if isCont b1 then some ((n0 - 0xC0) * 64 + (b1.toNat - 0x80), rest) else none
      | _ => none
    else if 0xE0 ≤ n0 ∧ n0 ≤ 0xEF then
      match rest with
      | b1 :: b2 :: rest =>
        let lo := if n0 = 0xE0 then 0xA0 else 0x80
        let hi := if n0 = 0xED then 0x9F else 0xBF
        if lo ≤ b1.toNat ∧ b1.toNat ≤ hi ∧ isCont b2 then
          some ((n0 - 0xE0) * 4096 + (b1.toNat - 0x80) * 64 + (b2.toNat - 0x80), rest)
        else none
      | _ => none
    else if 0xF0 ≤ n0 ∧ n0 ≤ 0xF4 then
      match rest with
      | b1 :: b2 :: b3 :: rest =>
        let lo := if n0 = 0xF0 then 0x90 else 0x80
        let hi := if n0 = 0xF4 then 0x8F else 0xBF
        if lo ≤ b1.toNat ∧ b1.toNat ≤ hi ∧ isCont b2 ∧ isCont b3 then
          some ((n0 - 0xF0) * 262144 + (b1.toNat - 0x80) * 4096 + (b2.toNat - 0x80) * 64 + (b3.toNat - 0x80), rest)
        else none
      | _ => none
    else none

/-- `b.decode("utf-8")` with one unit of fuel per byte (every step consumes at least one byte, so
    `b.length` is enough; `Err.diverges` marks the unreachable exhaustion). -/
def utf8DecodeFuel : Nat → Bytes → Except Err Str
  | _, [] => .ok []
  | 0, _ :: _ => .error .diverges
  | fuel + 1, b :: bs =>
    match utf8Next (b :: bs) with
    | none => .error .unicodeDecode
    | some (c, rest) =>
      match utf8DecodeFuel fuel rest with
      | .error e => .error e
      | .ok s => .ok (c :: s)

def utf8Decode (b : Bytes) : Except Err Str := utf8DecodeFuel b.length b

/-- `write_short_text(s)` for a `str` -/
def writeShortText (s : Str) : Except Err Bytes :=
  match utf8Encode s with
  | .error e => .error e
  | .ok b => writeShortBytes b

/-- `read_short_text(data, cur)` -/
def readShortText (data : Bytes) (cur : Int) : Except Err (Str × Int) :=
  match readShortBytes data cur with
  | .error e => .error e
  | .ok (none, _) => .error .attributeError
  | .ok (some b, cur') =>
    match utf8Decode b with
    | .error e => .error e
    | .ok s => .ok (s, cur')

def encodeSubs : List Str → Except Err Bytes
  | [] => .ok []
  | t :: ts =>
    match writeShortText t with
    | .error e => .error e
    | .ok tb =>
      match encodeSubs ts with
      | .error e => .error e
      | .ok rb => .ok (tb ++ rb)

/-- `KafkaCodec.encode_join_group_protocol_metadata(version, subscriptions, user_data)` -/
def encodeMetadata (version : Int) (subs : List Str) (userData : Bytes) : Except Err Bytes :=
  match packInt asgMmEncVersionW version, packInt asgMmEncNumSubsW subs.length with
  | .ok vb, .ok nb =>
    match encodeSubs subs with
    | .error e => .error e
    | .ok sb =>
      match writeIntString userData with
      | .error e => .error e
      | .ok ub => .ok (vb ++ nb ++ sb ++ ub)
  | _, _ => .error .structError

/-- `_ConsumerProtocol.join_group_protocols(topics)[0].protocol_metadata` -/
def joinGroupMetadata (topics : List Str) : Except Err Bytes := encodeMetadata asgMmEncodedVersion topics []

/-- The `for _i in range(num_subscriptions)` loop of the metadata decoder. -/
def decodeSubs (data : Bytes) : Nat → Int → List Str → Except Err (List Str × Int)
  | 0, cur, acc => .ok (acc, cur)
  | n + 1, cur, acc =>
    match readShortText data cur with
    | .error e => .error e
    | .ok (s, cur) => decodeSubs data n cur (acc ++ [s])

/-- `KafkaCodec.decode_join_group_protocol_metadata(data)` → `(version, subscriptions, user_data)` -/
def decodeMetadata (data : Bytes) : Except Err (Int × List Str × Option Bytes) :=
  match relUnpack2 asgMmDecVersionW asgMmDecNumSubsW data 0 with
  | .error e => .error e
  | .ok (version, numSubs, cur) =>
    match decodeSubs data numSubs.toNat cur [] with
    | .error e => .error e
    | .ok (subs, cur) =>
      match readIntString data cur with
      | .error e => .error e
      | .ok (userData, _) => .ok (version, subs, userData)

/-- What the coordinator lists when every member joined with `join_group_protocols(subscriptions)`. -/
def wireOf : List Member → Except Err (List (Str × Bytes))
  | [] => .ok []
  | m :: ms =>
    match joinGroupMetadata m.2 with
    | .error e => .error e
    | .ok b =>
      match wireOf ms with
      | .error e => .error e
      | .ok r => .ok ((m.1, b) :: r)

/-- The first loop of `generate_assignments`: decode every listed member's metadata, in order. -/
def decodeMembers : List (Str × Bytes) → Except Err (List Member)
  | [] => .ok []
  | m :: ms =>
    match decodeMetadata m.2 with
    | .error e => .error e
    | .ok (_, subs, _) =>
      match decodeMembers ms with
      | .error e => .error e
      | .ok r => .ok ((m.1, subs) :: r)

/-- `_ConsumerProtocol.generate_assignments(members, topic_partitions)` on the wire-level members
    `(member_id, member_metadata bytes)`. -/
def generateAssignmentsB (members : List (Str × Bytes)) (tp : Dict Str (List Int)) : Except Err (List (Str × Bytes)) :=
  match decodeMembers members with
  | .error e => .error e
  | .ok ms => generateAssignments ms tp

/-! ## The leader's glue in `Coordinator._join_and_sync` -/

/-- `generate_assignments(members, {})`, and on `_NeedTopicPartitions as e` once more with
    `topic_partitions = load(*e.topics)` (`client._load_topic_partitions`, a parameter). -/
def leaderAssign (members : List (Str × Bytes)) (load : List Str → Dict Str (List Int)) :
    Except Err (List (Str × Bytes)) :=
  match generateAssignmentsB members [] with
  | .error (.need topics) => generateAssignmentsB members (load topics)
  | r => r

/-! ## `KafkaClient._load_topic_partitions` (what the leader's glue awaits)

A metadata reply, as far as this method looks at it: per topic the error code and the partition
ids.  The method sends the request again (after a delay) until ONE reply answers every requested
topic without error and with at least one partition; the snapshot is built from that reply alone
(`_merge_topic_metadata` resets what was cached for every topic of the reply). -/

abbrev MetaReply := Dict Str (Int × List Int)

/-- `sorted` on partition ids -/
def intLe (a b : Int) : Bool := decide (a ≤ b)

/-- The `for topic in topics` loop after one reply (`acc` is `snapshot` so far): `none` when
    `missing` is non-empty (a requested topic is not in the response, has an error code, or has no
    partitions). -/
def snapshotLoop (r : MetaReply) : List Str → Dict Str (List Int) → Option (Dict Str (List Int))
  | [], acc => some acc
  | t :: ts, acc =>
    match dget t r with
    | none => none                                   -- "not in response" (repo commit 9b87dea)
    | some (err, ps) =>
      if err ≠ 0 then none
      else if ps = [] then none
      else snapshotLoop r ts (dset t (sortBy intLe (dedup ps)) acc)

def snapshotOf (r : MetaReply) (asked : List Str) : Option (Dict Str (List Int)) := snapshotLoop r asked []

/-- The `while True` loop over the successive replies; `none`: still retrying when they run out.
    Also returns how many requests were sent. -/
def loadTopicPartitions (asked : List Str) : List MetaReply → Option (Dict Str (List Int) × Nat)
  | [] => none
  | r :: rs =>
    match snapshotOf r asked with
    | some snap => some (snap, 1)
    | none =>
      match loadTopicPartitions asked rs with
      | none => none
      | some (snap, n) => some (snap, n + 1)

/-- What each listed member is handed before encoding (`assignments.get(id, {})` per member). -/
def perMember (asg : Asg) (members : List Member) : List (Str × Dict Str (List Int)) :=
  members.map (fun m => (m.1, assignmentOf asg m.1))

end Afkak.Assign
