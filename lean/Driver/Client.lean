import Driver.Util
/-! Driver for the `Client` component (stub until the component is built). -/
namespace Driver.Client

def step (st : Unit) (_line : String) : Unit × List String := (st, ["bad-op"])

end Driver.Client

def main : IO UInt32 := do
  Driver.loop (← IO.getStdin) (← IO.getStdout) () Driver.Client.step
  return 0
