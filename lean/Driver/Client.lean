import Afkak.ClientCache
import Afkak.ClientNet
import Afkak.ClientTrace
import Afkak.ClientIface
import Afkak.Monitor.C08
import Afkak.Monitor.C07
import Afkak.Monitor.C11
import Afkak.Monitor.C20
import Afkak.ClientCompose
import Afkak.ClientQuery
import Driver.Util
/-!
Line-protocol driver for the `client` component (exe `model_client`).

Tokens: broker `id@host:port`; lists comma-separated, `-` = empty; topic metadata
`name/err/perr:part:leader|perr:part:leader` joined by `;`; keys `topic:part`.
-/
namespace Driver.Client
open Afkak.ClientCache Driver

def splitList (sep : String) (s : String) : List String :=
  if s == "-" || s == "" then [] else s.splitOn sep

def parseBroker (s : String) : Option Broker :=
  match s.splitOn "@" with
  | [i, hp] => match hp.splitOn ":" with
    | [h, p] => do some { nodeId := ← i.toInt?, host := h, port := ← p.toInt? }
    | _ => none
  | _ => none

def parseBrokers (s : String) : Option (List Broker) := (splitList "," s).mapM parseBroker

def parsePart (s : String) : Option PartMeta :=
  match s.splitOn ":" with
  | [e, p, l] => do some { err := ← e.toInt?, part := ← p.toInt?, leader := ← l.toInt? }
  | _ => none

def parseTopic (s : String) : Option TopicMeta :=
  match s.splitOn "/" with
  | [n, e, ps] => do some { name := n, err := ← e.toInt?, parts := ← (splitList "|" ps).mapM parsePart }
  | _ => none

def parseTopics (s : String) : Option (List TopicMeta) := (splitList ";" s).mapM parseTopic

def parseKey (s : String) : Option TP :=
  match s.splitOn ":" with
  | [t, p] => do some (t, ← p.toInt?)
  | _ => none

def parseKeys (s : String) : Option (List TP) := (splitList "," s).mapM parseKey

def parseBool (s : String) : Option Bool := if s == "1" then some true else if s == "0" then some false else none

def parseGroup (s : String) : Option String := if s == "-" then none else some s

def showBroker (b : Broker) : String := s!"{b.nodeId}@{b.host}:{b.port}"

def showList (l : List String) : String := if l.isEmpty then "-" else ",".intercalate l

def showNats (l : List Nat) : String := showList (l.map toString)

def dump (c : Cache) : List String :=
  [ "brokers " ++ showList (c.brokers.map (fun e => showBroker e.2)),
    "clients " ++ showList (c.clients.map (fun e => showBroker e.2)),
    "t2b " ++ showList (c.t2b.map (fun e => s!"{e.1.1}:{e.1.2}=" ++ (match e.2 with | some b => showBroker b | none => "none"))),
    "parts " ++ showList (c.topicParts.map (fun e => s!"{e.1}=" ++ "+".intercalate (e.2.map toString))),
    "errs " ++ showList (c.topicErrs.map (fun e => s!"{e.1}={e.2}")),
    "pmeta " ++ showList (c.partMeta.map (fun e => s!"{e.1.1}:{e.1.2}={e.2.err}:{e.2.leader}")),
    "groups " ++ showList (c.groups.map (fun e => s!"{e.1}=" ++ showBroker e.2)) ]

def showRouteErr : RouteErr → String
  | .partitionUnavailable i => s!"error partitionUnavailable {i}"
  | .leaderUnavailable i => s!"error leaderUnavailable {i}"
  | .coordinatorNotAvailable => "error coordinatorNotAvailable"

def showGroups (gs : List (Int × List Nat)) : String :=
  if gs.isEmpty then "-" else ";".intercalate (gs.map (fun g => s!"{g.1}=" ++ showNats g.2))

/-- `t:0#tag` -/
def parseResp (s : String) : Option Resp :=
  match s.splitOn "#" with
  | [k, tag] => do some { key := ← parseKey k, tag := ← tag.toInt? }
  | _ => none

/-- `idx,idx=ok:<resps |-separated>` or `idx,idx=fail:Kind` -/
def parseResult (s : String) : Option (List Nat × BrokerResult String) :=
  match s.splitOn "=" with
  | [is, r] => do
    let idxs ← (splitList "," is).mapM (·.toNat?)
    if r.startsWith "ok:" then
      let rs ← (splitList "|" (r.drop 3).toString).mapM parseResp
      some (idxs, .ok rs)
    else if r.startsWith "fail:" then some (idxs, .fail (r.drop 5).toString)
    else none
  | _ => none

def unhexStr (s : String) : Option String := (parseHex s).bind (fun bs => String.fromUTF8? (ByteArray.mk bs.toArray))

def hexStr (s : String) : String := toHex s.toUTF8.toList

def parseHostSpec (s : String) : Option HostSpec :=
  match s.splitOn "=" with
  | ["s", h] => (unhexStr h).map .str
  | ["t", h, p] => do some (.tup (← unhexStr h) (← unhexStr p))
  | _ => none

/-! ### parsing observed cache dumps (6 tokens: brokers clients t2b parts errs groups) -/

def parseEq (s : String) : Option (String × String) :=
  match s.splitOn "=" with
  | [a, b] => some (a, b)
  | _ => none

def parseOptBroker (s : String) : Option (Option Broker) :=
  if s == "none" then some none else (parseBroker s).map some

def parseCache6 (ws : List String) : Option Cache :=
  match ws with
  | [bs, cls, t2b, parts, errs, groups] => do
    let bs ← parseBrokers bs
    let cls ← parseBrokers cls
    let t2b ← (splitList "," t2b).mapM (fun e => do
      let (k, v) ← parseEq e
      some ((← parseKey k), (← parseOptBroker v)))
    let parts ← (splitList "," parts).mapM (fun e => do
      let (k, v) ← parseEq e
      some (k, (← (splitList "+" v).mapM (·.toInt?))))
    let errs ← (splitList "," errs).mapM (fun e => do
      let (k, v) ← parseEq e
      some (k, (← v.toInt?)))
    let groups ← (splitList "," groups).mapM (fun e => do
      let (k, v) ← parseEq e
      some (k, (← parseBroker v)))
    some { brokers := bs.map (fun b => (b.nodeId, b)), clients := cls.map (fun b => (b.nodeId, b)),
           t2b := t2b, topicParts := parts, topicErrs := errs, partMeta := [], groups := groups }
  | _ => none

/-- six fields, or seven: `partition_meta` (`topic:part=err:leader`) last -/
def parseCache (ws : List String) : Option Cache :=
  match ws with
  | [bs, cls, t2b, parts, errs, groups, pmeta] => do
    let c ← parseCache6 [bs, cls, t2b, parts, errs, groups]
    let pm ← (splitList "," pmeta).mapM (fun e => do
      let (k, v) ← parseEq e
      let key ← parseKey k
      match v.splitOn ":" with
      | [er, ld] => some (key, ({ err := ← er.toInt?, part := key.2, leader := ← ld.toInt? } : PartMeta))
      | _ => none)
    some { c with partMeta := pm }
  | _ => parseCache6 ws

def verdict (b : Bool) : List String := [if b then "ok" else "fail"]

def monStep (ws : List String) : Option (List String) :=
  match ws with
  | "mon-mirror" :: all :: bs :: ts :: closed :: rest =>
    if rest.length != 12 then none else do
    let before ← parseCache (rest.take 6)
    let after ← parseCache (rest.drop 6)
    let bs ← parseBrokers bs
    let ts ← parseTopics ts
    let all ← parseBool all
    let closed ← parseInts closed
    let parts := [("brokers", Afkak.Monitor.C08.brokersMirror after bs),
      ("topics", (Afkak.Monitor.C08.respTopics ts).all (fun e => Afkak.Monitor.C08.topicMirror after e.2)),
      ("others", Afkak.Monitor.C08.othersUntouched before after ts),
      ("closes", Afkak.Monitor.C08.closesMissing before after bs all closed),
      ("wf", Afkak.Monitor.C08.wf after)]
    let bad := parts.filter (fun p => !p.2)
    some (if Afkak.Monitor.C08.mirrorOk before after bs ts all closed && Afkak.Monitor.C08.wf after
      then ["ok"] else ["fail " ++ ",".intercalate (bad.map (·.1))])
  | "mon-covered" :: bs :: ts :: rest => do
    -- client-A (C08, session 5): the part of the mirror monitor that also holds of a metadata-reply step in which
    -- closing a dropped broker's client failed requests (and so reset the cache) BEFORE the response was merged:
    -- listed brokers at the response's address, every covered topic equal to the response
    let after ← parseCache rest
    let bs ← parseBrokers bs
    let ts ← parseTopics ts
    let parts := [("brokers", Afkak.Monitor.C08.brokersMirror after bs),
      ("topics", (Afkak.Monitor.C08.respTopics ts).all (fun e => Afkak.Monitor.C08.topicMirror after e.2))]
    let bad := parts.filter (fun p => !p.2)
    some (if bad.isEmpty then ["ok"] else ["fail " ++ ",".intercalate (bad.map (·.1))])
  | "mon-invalidate" :: g :: examined :: rest => do
    let after ← parseCache rest
    some (verdict (Afkak.Monitor.C08.invalidateOk after (parseGroup g) (← parseKeys examined)))
  | "mon-kept" :: rest =>
    -- client-A (C08): no broker forgotten between two consecutive dumps
    if rest.length != 12 then none else do
    let before ← parseCache (rest.take 6)
    let after ← parseCache (rest.drop 6)
    some (verdict (Afkak.Monitor.C08.brokersKept before after))
  | ["mon-query", ts, ans] => do
    -- client-A (C08, session 5): the real query methods' answers for the topics a response covered
    let ts ← parseTopics ts
    let ans ← (splitList "," ans).mapM (fun e => do
      let (k, v) ← parseEq e
      match v.splitOn ":" with
      | [h, er] => some (k, (← parseBool h), (← er.toInt?))
      | _ => none)
    some (verdict (Afkak.ClientQuery.queryMirror ts ans))
  | "mon-allinvalid" :: rest => do
    let c ← parseCache rest
    some (verdict (Afkak.Monitor.C08.allInvalid c))
  | "mon-route" :: g :: ks :: rest => do
    -- the routing kernel `route` (the subject of C07_routed_to_leader / C07_one_request_per_broker /
    -- C07_coordinator) on an observed cache: what the real client did with it is compared by the harness
    let c ← parseCache rest
    match Afkak.ClientCache.route c (← parseKeys ks) (parseGroup g) with
    | .ok gs => some ["groups " ++ showGroups gs]
    | .error e => some [showRouteErr e]
  | _ => none


/-! ### ClientNet: events in, observations out -/
section Net
open Afkak.ClientNet

def parseRat (s : String) : Option Rat :=
  match s.splitOn "/" with
  | [n] => n.toInt?.map (fun i => (i : Rat))
  | [n, d] => do
    let n ← n.toInt?
    let d ← d.toNat?
    if d == 0 then none else some ((n : Rat) / (d : Rat))
  | _ => none

def showRat (r : Rat) : String := s!"{r.num}/{r.den}"

def showKind : Kind → String
  | .clientClosed => "clientClosed"
  | .cancelled => "cancelled"
  | .afkakCancelled => "afkakCancelled"
  | .brokerError e => s!"brokerError:{e}"
  | .unavailable => "unavailable"
  | .partitionUnavailable => "partitionUnavailable"
  | .leaderUnavailable => "leaderUnavailable"
  | .twTimeout => "twTimeout"
  | .connLost => "connLost"
  | .connFailed => "connFailed"
  | .other c => s!"other:{c}"

def parseKind (s : String) : Option Kind :=
  match s.splitOn ":" with
  | ["clientClosed"] => some .clientClosed
  | ["cancelled"] => some .cancelled
  | ["afkakCancelled"] => some .afkakCancelled
  | ["brokerError", e] => e.toInt?.map .brokerError
  | ["unavailable"] => some .unavailable
  | ["partitionUnavailable"] => some .partitionUnavailable
  | ["leaderUnavailable"] => some .leaderUnavailable
  | ["twTimeout"] => some .twTimeout
  | ["connLost"] => some .connLost
  | ["connFailed"] => some .connFailed
  | ["other", c] => some (.other c)
  | _ => none

def showOpRes : OpRes → String
  | .okTrue => "ok True"
  | .okNone => "ok None"
  | .responses tags => "responses " ++ showInts tags
  | .failedPayloads tags failed => "failedPayloads " ++ showInts tags ++ " " ++ showList (failed.map (fun f => s!"{f.1}:{showKind f.2}"))
  | .simple e => s!"simple {e}"
  | .fail k => "fail " ++ showKind k

def showTimerWhat : TimerWhat → String
  | .mrtb k => s!"mrtb:{k}"
  | .boot j => s!"boot:{j}"
  | .retry l => s!"retry:{l}"

def showWhat : ReqWhat → String
  | .metadata ts => "meta:" ++ (if ts.isEmpty then "-" else "+".intercalate ts)
  | .coord g => s!"coord:{g}"
  | .payloads _ keys =>
    let ks := sortHP keys
    "payloads:" ++ (if ks.isEmpty then "-" else "+".intercalate (ks.map (fun k => s!"{k.1}:{k.2}")))
  | .group g => s!"group:{g}"

def showOb : Ob → String
  | .bcNew b n h p => s!"bcNew {b} {n} {h} {p}"
  | .bcUpdate b h p => s!"bcUpdate {b} {h} {p}"
  | .mk k b e w => s!"mk {k} {b} {if e then 1 else 0} {showWhat w}"
  | .setTimer t d => s!"setTimer {showTimerWhat t} {showRat d}"
  | .cancelTimer t => s!"cancelTimer {showTimerWhat t}"
  | .bcCancel k => s!"bcCancel {k}"
  | .fired k r => s!"fired {k} " ++ (match r with | none => "ok" | some kd => showKind kd)
  | .bcDisconnect b => s!"bcDisconnect {b}"
  | .bcClose b => s!"bcClose {b}"
  | .down b => s!"down {b}"
  | .bootConnect j h p => s!"bootConnect {j} {h} {p}"
  | .bootCancel j => s!"bootCancel {j}"
  | .bootWrite j => s!"bootWrite {j}"
  | .bootLose j => s!"bootLose {j}"
  | .result o r => s!"result {o} " ++ showOpRes r
  | .closeFired o => s!"closeFired {o}"
  | .raised o c => s!"raised {o} {c}"
  | .late k => s!"late {k}"
  | .badOp w => s!"bad-op {w}"

/-- `t:0:err#tag` -/
def parseItem (s : String) : Option (TP × Int × Int) :=
  match s.splitOn "#" with
  | [k, tag] => match k.splitOn ":" with
    | [t, p, e] => do some ((t, ← p.toInt?), ← e.toInt?, ← tag.toInt?)
    | _ => none
  | _ => none

def parsePayload : List String → Option Payload
  | ["meta", bs, ts] => do some (.metadata (← parseBrokers bs) (← parseTopics ts))
  | ["coord", e, b] => do some (.coord (← e.toInt?) (← parseBroker b))
  | ["items", is] => do some (.items (← (splitList "," is).mapM parseItem))
  | ["simple", e] => e.toInt?.map .simple
  | ["none"] => some .none
  | ["garbage"] => some .garbage
  | _ => none

def parseRes : List String → Option Res
  | "ok" :: rest => (parsePayload rest).map .ok
  | ["err", k] => (parseKind k).map .err
  | _ => none

def parseHostPort (s : String) : Option (String × Int) :=
  match s.splitOn ":" with
  | [h, p] => p.toInt?.map (fun p => (h, p))
  | _ => none

/-- split trailing `sh=`/`sd=` tokens off -/
def splitEnv (ws : List String) : Option (List String × Env) :=
  ws.foldlM (fun (acc : List String × Env) w =>
    if w.startsWith "sh=" then do
      let perms ← (splitList "/" (w.drop 3).toString).mapM (fun p => (splitList "." p).mapM (·.toNat?))
      some (acc.1, { acc.2 with shuffles := perms })
    else if w.startsWith "sd=" then do
      let bs ← (splitList "," (w.drop 3).toString).mapM (·.toNat?)
      some (acc.1, { acc.2 with syncDown := bs })
    else if w.startsWith "rd=" then do
      let ls ← (splitList "," (w.drop 3).toString).mapM (·.toNat?)
      some (acc.1, { acc.2 with delayOrder := ls })
    else some (acc.1 ++ [w], acc.2)) ([], {})

def parseEv : List String → Option Ev
  | ["load", o, ts] => do some (.load (← o.toNat?) (splitList "," ts))
  | ["send", o, g, foe, ex, ks] => do some (.send (← o.toNat?) (← parseKeys ks) (parseGroup g) (← parseBool foe) (← parseBool ex))
  | ["cload", o, g] => do some (.cload (← o.toNat?) g)
  | ["srtc", o, g, m] => do some (.srtc (← o.toNat?) g (← if m == "-" then some none else (parseRat m).map some))
  | ["ltp", o, ts] => do some (.ltp (← o.toNat?) (splitList "," ts))
  | ["cancel", o] => do some (.cancel (← o.toNat?))
  | ["close", o] => do some (.close (← o.toNat?))
  | ["rtopics", ts] => some (.resetTopics (splitList "," ts))
  | "fire" :: k :: rest => do some (.fire (← k.toNat?) (← parseRes rest))
  | ["down", b] => do some (.down (← b.toNat?))
  | ["conn", b, v] => do some (.conn (← b.toNat?) (← parseBool v))
  | ["bootok", j] => do some (.bootOk (← j.toNat?))
  | ["bootfail", j] => do some (.bootFail (← j.toNat?))
  | "bootreply" :: j :: rest => do some (.bootReply (← j.toNat?) (← parsePayload rest))
  | ["bootlost", j] => do some (.bootLost (← j.toNat?))
  | ["advance", dt] => do some (.advance (← parseRat dt))
  | _ => none


/-! ### observed traces (recorded by the harness from the real client) and the trace monitors -/

def parseTimerWhat (s : String) : Option TimerWhat :=
  match s.splitOn ":" with
  | ["mrtb", k] => k.toNat?.map .mrtb
  | ["boot", j] => j.toNat?.map .boot
  | ["retry", l] => l.toNat?.map .retry
  | _ => none

def parseWhat (s : String) : Option ReqWhat :=
  match s.splitOn ":" with
  | "meta" :: rest => some (.metadata (splitList "+" (":".intercalate rest)))
  | ["coord", g] => some (.coord g)
  | ["group", g] => some (.group g)
  | "payloads" :: rest => do some (.payloads [] (← (splitList "+" (":".intercalate rest)).mapM parseKey))
  | _ => none

def parseOpRes : List String → Option OpRes
  | ["ok", "True"] => some .okTrue
  | ["ok", "None"] => some .okNone
  | ["responses", tags] => (parseInts tags).map .responses
  | ["failedPayloads", tags, fl] => do
    let fl ← (splitList "," fl).mapM (fun e => match e.splitOn ":" with
      | i :: rest => do some ((← i.toNat?), (← parseKind (":".intercalate rest)))
      | _ => none)
    some (.failedPayloads (← parseInts tags) fl)
  | ["simple", e] => e.toInt?.map .simple
  | ["fail", k] => (parseKind k).map .fail
  | _ => none

def parseOb : List String → Option Ob
  | ["bcNew", b, n, h, p] => do some (.bcNew (← b.toNat?) (← n.toInt?) h (← p.toInt?))
  | ["bcUpdate", b, h, p] => do some (.bcUpdate (← b.toNat?) h (← p.toInt?))
  | ["mk", k, b, e, w] => do some (.mk (← k.toNat?) (← b.toNat?) (← parseBool e) (← parseWhat w))
  | ["setTimer", t, d] => do some (.setTimer (← parseTimerWhat t) (← parseRat d))
  | ["cancelTimer", t] => do some (.cancelTimer (← parseTimerWhat t))
  | ["bcCancel", k] => do some (.bcCancel (← k.toNat?))
  | ["fired", k, r] => do some (.fired (← k.toNat?) (← if r == "ok" then some none else (parseKind r).map some))
  | ["bcDisconnect", b] => do some (.bcDisconnect (← b.toNat?))
  | ["bcClose", b] => do some (.bcClose (← b.toNat?))
  | ["down", b] => do some (.down (← b.toNat?))
  | ["bootConnect", j, h, p] => do some (.bootConnect (← j.toNat?) h (← p.toInt?))
  | ["bootCancel", j] => do some (.bootCancel (← j.toNat?))
  | ["bootWrite", j] => do some (.bootWrite (← j.toNat?))
  | ["bootLose", j] => do some (.bootLose (← j.toNat?))
  | "result" :: o :: rest => do some (.result (← o.toNat?) (← parseOpRes rest))
  | ["closeFired", o] => do some (.closeFired (← o.toNat?))
  | ["raised", o, c] => do some (.raised (← o.toNat?) c)
  | ["late", k] => do some (.late (← k.toNat?))
  | "bad-op" :: rest => some (.badOp (" ".intercalate rest))
  | _ => none

def parseTimers (s : String) : Option (List (TimerWhat × Rat)) :=
  (splitList "," s).mapM (fun e => match e.splitOn "@" with
    | [w, d] => do some ((← parseTimerWhat w), (← parseRat d))
    | _ => none)

def parseTItem : List String → Option TItem
  | "t-ev" :: rest => do
    let (ws, _) ← splitEnv rest
    some (.ev (← parseEv ws))
  | "t-ob" :: rest => (parseOb rest).map .ob
  | "t-dump" :: rest => (parseCache rest).map .dump
  | ["t-timers", l] => (parseTimers l).map .timers
  | ["t-attr", k, o, idxs] => do some (.attr (← k.toNat?) (← o.toNat?) (← (splitList "," idxs).mapM (·.toNat?)))
  | ["t-uattr", k, u] => do some (.uattr (← k.toNat?) (← u.toNat?))
  | ["t-battr", j, u] => do some (.battr (← j.toNat?) (← u.toNat?))
  | ["t-uop", u, o] => do some (.uop (← u.toNat?) (← o.toNat?))
  | ["t-wrote", k, c] => do some (.wrote (← k.toNat?) (← c.toNat?))
  | ["t-lose", c] => do some (.lose (← c.toNat?))
  | ["t-bootgone", j] => do some (.bootGone (← j.toNat?))
  | "t-net" :: rest => some (.net (" ".intercalate rest))
  | ["t-exc", c] => some (.exc c)
  | ["t-bcidle", b] => do some (.bcIdle (← b.toNat?))
  | ["t-quiet"] => some .netQuiet
  | _ => none

def failsLine (fs : List String) : List String :=
  if fs.isEmpty then ["ok"] else ["fail " ++ " ; ".intercalate fs]

structure NetSt where
  trace : List TItem := []
  /-- the MODEL's own trace (`traceOfA`) of the events replayed so far, reversed -/
  mtrace : List TItem := []
  cfg : Cfg := { timeout := 10, disconnectOnTimeout := false, bootHosts := [] }
  st : Afkak.ClientNet.St := {}

def netStep (n : NetSt) (ws : List String) : Option (NetSt × List String) :=
  match ws with
  | ["cfg", t, dot, hosts] => do
    let cfg : Cfg := { timeout := ← parseRat t, disconnectOnTimeout := ← parseBool dot, bootHosts := ← (splitList "," hosts).mapM parseHostPort }
    some ({ cfg := cfg, st := {}, trace := [], mtrace := [] }, ["ok"])
  | ["cfg", t, dot, hosts, retry] => do
    let cfg : Cfg := { timeout := ← parseRat t, disconnectOnTimeout := ← parseBool dot, bootHosts := ← (splitList "," hosts).mapM parseHostPort,
                       retryDelay := ← parseRat retry }
    some ({ cfg := cfg, st := {}, trace := [], mtrace := [] }, ["ok"])
  | ["t-reset"] => some ({ n with trace := [] }, ["ok"])
  | ["mon-c07"] => some (n, failsLine ((Afkak.Monitor.C07.run n.cfg n.trace.reverse).fails ++ (Afkak.Monitor.C07.run n.cfg n.trace.reverse).staleFails))
  | ["mon-c11"] => some (n, failsLine ((Afkak.Monitor.C11.run n.cfg n.trace.reverse).fails ++ (Afkak.Monitor.C11.run n.cfg n.trace.reverse).extraFails))
  | ["mon-c20"] => some (n, failsLine ((Afkak.Monitor.C20.run n.trace.reverse).fails ++ (Afkak.Monitor.C20.run n.trace.reverse).connFails ++ (Afkak.Monitor.C20.run n.trace.reverse).bootFails))
  -- the monitors on the MODEL's own trace of the events replayed so far (what the soundness statements
  -- `Cxx_model_traces_satisfy_monitor` are about)
  | ["mon-c07-model"] => some (n, failsLine (Afkak.Monitor.C07.run n.cfg n.mtrace.reverse).fails)
  | ["mon-c11-model"] => some (n, failsLine (Afkak.Monitor.C11.run n.cfg n.mtrace.reverse).fails)
  | ["mon-c20-model"] => some (n, failsLine ((Afkak.Monitor.C20.run n.mtrace.reverse).fails ++ (Afkak.Monitor.C20.run n.mtrace.reverse).connFails))
  | ["mon-iface"] => some (n, failsLine (Afkak.ClientIface.run n.trace.reverse).fails)
  | ["ndump"] =>
    some (n, dump n.st.cache ++
      ["timers " ++ showList (n.st.timers.map (fun t => s!"{showTimerWhat t.what}@{showRat t.due}")),
       "pending " ++ showNats ((n.st.reqs.filter (·.pending)).map (·.k)),
       "now " ++ showRat n.st.now,
       "closing " ++ (if n.st.closing then "1" else "0")])
  | w :: _ =>
    if w.startsWith "t-" then do
      let it ← parseTItem ws
      some ({ n with trace := it :: n.trace }, [])
    else do
    let (ws', env) ← splitEnv ws
    let ev ← parseEv ws'
    let (st', obs) := Afkak.ClientNet.step n.cfg n.st env ev
    let items := [TItem.ev ev] ++ obs.map TItem.ob ++ attrItems st' obs ++
      [TItem.dump st'.cache, TItem.timers (st'.timers.map (fun t => (t.what, t.due)))]
    some ({ n with st := st', mtrace := items.reverse ++ n.mtrace }, obs.map showOb)
  | [] => none

/-! ### ---- client-B: the client composed with its broker clients (`Afkak/ClientCompose.lean`) ----
`x-cfg <timeout> <dot> <hosts> <retry>` resets; then one request per NETWORK-level event of the real stack:
`x-api <client event line incl. sh=/sd=/rd=>` · `x-connok <b> [<env>…]` · `x-connfail <b>` · `x-lost <b> [<env>]` ·
`x-reply <b> <k> <payload tokens> [sh=…]` · `x-advance <dt> <first b,b|-> <after b,b|-> [sh=…]` · `x-syncrefuse <n>`; an `<env>` of
`x-connok` is `-` or `sh=…;sd=…`.  The answer lists what the composed model observes at BOTH boundaries:
`cl <client observation>` · `bc <b> <broker-client observation>` · `connect <b> <host> <port>` · `mismatch <why>`
(the two models disagree at the interface) · `bad-op <why>`. -/

def showBcOb : Afkak.BrokerClient.Ob → String
  | .connect h p => s!"connect {h} {p}"
  | .setTimer d => s!"setTimer {showRat d}"
  | .cancelTimer => "cancelTimer"
  | .cancelConnect => "cancelConnect"
  | .write _ _ id => s!"write {id}"
  | .writeLost _ _ id => s!"writeLost {id}"
  | .lose _ => "lose"
  | .fire _ id r => s!"fire {id} " ++ (match r with
      | .ok _ => "ok" | .none => "none" | .err .cancelled => "cancelled" | .err .clientError => "clientClosed" | .err .writeError => "writeError")
  | .down => "down"
  | .raiseDup id => s!"raiseDup {id}"
  | .raiseAssert => "raiseAssert"
  | .raiseUnderflow => "raiseUnderflow"
  | .unexpected id => s!"unexpected {id}"
  | .badOp => "bad-op"

def showXOb : Afkak.ClientCompose.Ob → String
  | .cl o => "cl " ++ showOb o
  | .bc b o => s!"bc {b} " ++ showBcOb o
  | .connect b h p => s!"connect {b} {h} {p}"
  | .mismatch w => "mismatch " ++ w
  | .badOp w => "bad-op " ++ w

def parseEnvTok (t : String) : Option Env :=
  if t == "-" then some {} else (splitEnv (t.splitOn ";")).bind (fun r => if r.1.isEmpty then some r.2 else none)

structure XSt where
  cfg : Afkak.ClientCompose.Cfg := { cl := { timeout := 10, disconnectOnTimeout := false, bootHosts := [] }, bc := ⟨fun _ => 1/2⟩ }
  st : Afkak.ClientCompose.St := {}

def xStep (x : XSt) (ws : List String) : Option (XSt × List String) :=
  let go (e : Afkak.ClientCompose.Ev) : Option (XSt × List String) :=
    let r := Afkak.ClientCompose.step x.cfg x.st e
    some ({ x with st := r.1 }, r.2.map showXOb)
  match ws with
  | ["x-cfg", t, dot, hosts, retry] => do
    let rd ← parseRat retry
    let cl : Cfg := { timeout := ← parseRat t, disconnectOnTimeout := ← parseBool dot,
                      bootHosts := ← (splitList "," hosts).mapM parseHostPort, retryDelay := rd }
    some ({ cfg := { cl := cl, bc := ⟨fun _ => rd⟩ }, st := {} }, ["ok"])
  | "x-api" :: rest => do
    let (ws', env) ← splitEnv rest
    go (.api env (← parseEv ws'))
  | "x-connok" :: b :: envs => do go (.connOk (← b.toNat?) (← envs.mapM parseEnvTok))
  | ["x-connfail", b] => do go (.connFail (← b.toNat?))
  | "x-lost" :: b :: rest => do
    let (_, env) ← splitEnv rest
    go (.lost (← b.toNat?) env)
  | "x-reply" :: b :: k :: rest => do
    let (ws', env) ← splitEnv rest
    go (.reply (← b.toNat?) (← k.toNat?) (← parsePayload ws') env)
  | "x-advance" :: dt :: first :: after :: rest => do
    let (_, env) ← splitEnv rest
    go (.advance (← parseRat dt) (← (splitList "," first).mapM (·.toNat?)) (← (splitList "," after).mapM (·.toNat?)) env)
  | ["x-syncrefuse", n] => do go (.setSyncRefuse (← n.toNat?))
  -- which broker-client components are closed (the open statement C20_composed_close_closes_every_broker_client)
  | ["x-closed"] => some (x, ["closed " ++ showList (x.st.bcs.map (fun b => if b.closed then "1" else "0"))])
  | _ => none

end Net

structure St where
  cache : Cache := {}
  net : NetSt := {}
  x : XSt := {}

def cacheStep (c : Cache) (ws : List String) : Option (Cache × List String) :=
  match ws with
  | ["reset"] => some ({}, ["ok"])
  | ["query", ts] =>
    -- client-A (C08, session 5): the cache query methods answered from the model's cache, one line per topic
    some (c, (splitList "+" ts).map (fun t =>
      s!"q {t} {if Afkak.ClientQuery.hasMetadataForTopic c t then 1 else 0} {Afkak.ClientQuery.metadataErrorForTopic c t}")
      ++ ["groups " ++ showList ((Afkak.ClientQuery.consumerGroupToBrokers c).map (fun e => s!"{e.1}=" ++ showBroker e.2))])
  | ["dump"] => some (c, dump c)
  | ["merge", all, bs, ts] => do
    let (c', closed) := mergeTopicMetadata c (← parseBrokers bs) (← parseTopics ts) (← parseBool all)
    some (c', ["closed " ++ showInts (sortInts closed)])
  | ["update-brokers", rm, bs] => do
    let (c', closed) := updateBrokers c (← parseBrokers bs) (← parseBool rm)
    some (c', ["closed " ++ showInts (sortInts closed)])
  | ["client-add", i] => do
    match getBrokerClient c (← i.toInt?) with
    | some c' => some (c', ["ok"])
    | none => some (c, ["keyerror"])
  | ["coord", g, b] => do some (setCoordinator c g (← parseBroker b), ["ok"])
  | ["reset-topic", ts] => some (resetTopics c (splitList "," ts), ["ok"])
  | ["reset-group", g] => some (resetGroup c g, ["ok"])
  | ["reset-all"] => some (resetAll c, ["ok"])
  | ["handle", foe, g, rs] => do
    let rs ← parseKeys rs
    let (c', r) := handleResponses c (← parseBool foe) (parseGroup g) rs
    some (c', [match r with | none => "ok" | some (.errno e) => s!"raise {e}" | some .typeError => "raise TypeError"])
  | ["route", g, ks] => do
    match route c (← parseKeys ks) (parseGroup g) with
    | .ok gs => some (c, ["groups " ++ showGroups gs])
    | .error e => some (c, [showRouteErr e])
  | ["assemble", ks, rs] => do
    let (resps, failed) := assemble (← parseKeys ks) (← (splitList ";" rs).mapM parseResult)
    some (c, ["responses " ++ showInts (resps.map (·.tag)),
              "failed " ++ showList (failed.map (fun f => s!"{f.1}:{f.2}"))])
  | ["normhosts", hs] => do
    match normalizeHosts (← (splitList "|" hs).mapM parseHostSpec) with
    | some l => some (c, ["hosts " ++ showList (l.map (fun hp => s!"{hexStr hp.1}:{hp.2}"))])
    | none => some (c, ["error"])
  | _ => none

def step (st : St) (line : String) : St × List String :=
  let ws := words line
  match cacheStep st.cache ws with
  | some (c, out) => ({ st with cache := c }, out)
  | none => match monStep ws with
    | some out => (st, out)
    | none => match (match ws with | w :: _ => if w.startsWith "x-" then xStep st.x ws else none | [] => none) with
      | some (x, out) => ({ st with x := x }, out)
      | none => match netStep st.net ws with
        | some (n, out) => ({ st with net := n }, out)
        | none => (st, ["bad-op"])

end Driver.Client

def main : IO UInt32 := do
  Driver.loop (← IO.getStdin) (← IO.getStdout) ({} : Driver.Client.St) Driver.Client.step
  return 0
