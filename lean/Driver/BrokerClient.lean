import Driver.Util
import Afkak.Frame
import Afkak.BrokerClient
import Afkak.BrokerClientR
import Afkak.Bootstrap
import Afkak.Monitor.C06
import Afkak.Monitor.C10
import Afkak.BrokerClientBytes
/-!
Driver for the `brokerclient` component (exe `model_brokerclient`).

Requests (one per line; the answer is zero or more lines, then `.`):

* framing        `fr-new` · `fr-feed <hex>` → `frame <hex>`…, `exceeded`?, `buffered <n>`
* broker client  `bc-new <host> <port> <policy>` (policy: comma-separated rationals, the last one
                 repeats) · `make <id> <0|1>` · `cancel <id>` · `connOk` · `connFail` ·
                 `advance <rat>` · `bytes <hex>` · `lost [done|lost|other]` · `close` · `disconnect` ·
                 `meta <host> <port>` · `wfail <0|1>` → observation lines · `bc-state` → a dump
                 A `make` may carry a re-entrant callback: `make <id> <0|1> hook <action> [; <action>]…` with <action> one of
                 `close`, `disconnect`, `cancel <id>`, `make <id> <0|1>`; `sync <none|ok|fail>` makes the endpoint answer `connect()` synchronously; `stubborn <0|1>` switches the endpoint that
                 connects from inside `cancel()`.  All broker-client events are executed by the re-entrant model
                 (`Afkak/BrokerClientR.lean`); observations then include the markers `made <serial> <id>`,
                 `closing`, `hook <serial>`, `endhook`.  As long as no callback has been registered the flat
                 model (`Afkak/BrokerClient.lean`, the one the theorems are about) is run alongside and a
                 line `flat-mismatch …` is added to the answer if its observations or state differ.
* bootstrap      `bs-new` · `bs-request <hex>` · `bs-cancel <serial>` · `bs-bytes <hex>` · `bs-lost`
* monitors on a RECORDED trace (events and observations as the harness logged them on the real
  objects): `t-new <host> <port> <policy>` · `t-ev <event line>` (starts a step) · `t-ob <observation
  line>` (adds to the current step) · `mon-c06` / `mon-c10` → `ok` | `fail <index of the first
  violating step>`; `bt-new` · `bt-ev …` · `bt-ob …` · `mon-boot <0|1 strict>` likewise for a
  bootstrap connection.  `mon-model-c06` / `mon-model-c10` / `mon-model-boot <strict>` evaluate the
  same monitors on the MODEL's own trace since the last `bc-new` / `bs-new`.  `mon-r06` / `mon-r10`
  (`mon-model-r06` / `mon-model-r10`): the monitors for streams with re-entrant callbacks; the flat
  monitors judge the longest flat prefix of a trace (`okp <n>` when that is not the whole trace).
  `mon-bytes` / `mon-model-bytes`: the per-connection whole-stream check of `Afkak/BrokerClientBytes.lean`;
  `conn-logs`: the per-connection logs it cuts the recorded trace into.
-/
namespace Driver.BrokerClient
open Driver Afkak.Frame

namespace BC
open Afkak.BrokerClient

def showRat (q : Rat) : String := if q.den == 1 then s!"{q.num}" else s!"{q.num}/{q.den}"

def parseRat (s : String) : Option Rat :=
  match s.splitOn "/" with
  | [n] => n.toInt?.map (fun i => (i : Rat))
  | [n, d] => match n.toInt?, d.toNat? with
    | some i, some k => if k == 0 then none else some ((i : Rat) / (k : Rat))
    | _, _ => none
  | _ => none

def parseRats (s : String) : Option (List Rat) :=
  if s == "-" then some [] else (s.splitOn ",").mapM parseRat

/-- `policy(failures)`, `failures ≥ 1`: the table, its last entry repeating. -/
def policyOf (tbl : List Rat) (n : Nat) : Rat :=
  match tbl[n - 1]? with
  | some q => q
  | none => match tbl.getLast? with
    | some q => q
    | none => 0

def showKind : ErrKind → String
  | .cancelled => "cancelled"
  | .clientError => "clientError"
  | .writeError => "writeError"

def showRes : Res → String
  | .ok b => s!"ok {toHex b}"
  | .none => "none"
  | .err k => s!"err {showKind k}"

def showOb : Ob → String
  | .connect h p => s!"connect {h} {p}"
  | .setTimer d => s!"setTimer {showRat d}"
  | .cancelTimer => "cancelTimer"
  | .cancelConnect => "cancelConnect"
  | .write c k i => s!"write {c} {k} {i}"
  | .writeLost c k i => s!"writeLost {c} {k} {i}"
  | .lose c => s!"lose {c}"
  | .fire k i r => s!"fire {k} {i} {showRes r}"
  | .down => "down"
  | .raiseDup i => s!"raise dup {i}"
  | .raiseAssert => "raise assert"
  | .raiseUnderflow => "raise underflow"
  | .unexpected i => s!"unexpected {i}"
  | .badOp => "badOp"

def parseKind : String → Option ErrKind
  | "cancelled" => some .cancelled
  | "clientError" => some .clientError
  | "writeError" => some .writeError
  | _ => none

def parseOb : List String → Option Ob
  | ["connect", h, p] => do some (.connect (← h.toNat?) (← p.toNat?))
  | ["setTimer", d] => do some (.setTimer (← parseRat d))
  | ["cancelTimer"] => some .cancelTimer
  | ["cancelConnect"] => some .cancelConnect
  | ["write", c, k, i] => do some (.write (← c.toNat?) (← k.toNat?) (← i.toInt?))
  | ["writeLost", c, k, i] => do some (.writeLost (← c.toNat?) (← k.toNat?) (← i.toInt?))
  | ["lose", c] => do some (.lose (← c.toNat?))
  | ["fire", k, i, "ok", h] => do some (.fire (← k.toNat?) (← i.toInt?) (.ok (← parseHex h)))
  | ["fire", k, i, "none"] => do some (.fire (← k.toNat?) (← i.toInt?) .none)
  | ["fire", k, i, "err", e] => do some (.fire (← k.toNat?) (← i.toInt?) (.err (← parseKind e)))
  | ["down"] => some .down
  | ["raise", "dup", i] => do some (.raiseDup (← i.toInt?))
  | ["raise", "assert"] => some .raiseAssert
  | ["raise", "underflow"] => some .raiseUnderflow
  | ["unexpected", i] => do some (.unexpected (← i.toInt?))
  | ["badOp"] => some .badOp
  | _ => none

def parseBool (s : String) : Option Bool :=
  if s == "1" then some true else if s == "0" then some false else none

def parseEv : List String → Option Ev
  | ["make", i, e] => do some (.make (← i.toInt?) (← parseBool e))
  | ["cancel", i] => do some (.cancel (← i.toInt?))
  | ["connOk"] => some .connOk
  | ["connFail"] => some .connFail
  | ["advance", q] => do some (.advance (← parseRat q))
  | ["bytes", h] => do some (.bytesIn (← parseHex h))
  | ["lost"] => some .lost
  -- the reason `connectionLost` is called with (ConnectionDone / ConnectionLost / anything else): the code only logs it
  | ["lost", "done"] => some .lost
  | ["lost", "lost"] => some .lost
  | ["lost", "other"] => some .lost
  | ["close"] => some .close
  | ["disconnect"] => some .disconnect
  | ["meta", h, p] => do some (.updateMetadata (← h.toNat?) (← p.toNat?))
  | ["wfail", b] => do some (.writeFail (← parseBool b))
  | _ => none

open Afkak.BrokerClientR in
def parseAction : List String → Option Action
  | ["close"] => some .close
  | ["disconnect"] => some .disconnect
  | ["cancel", i] => do some (.cancel (← i.toInt?))
  | ["make", i, e] => do some (.make (← i.toInt?) (← parseBool e))
  | _ => none

/-- split a word list at the separator `;` -/
def splitSemi : List String → List (List String)
  | [] => [[]]
  | w :: ws => match splitSemi ws with
    | [] => [[w]]
    | g :: gs => if w == ";" then [] :: g :: gs else (w :: g) :: gs

open Afkak.BrokerClientR in
def parseHook (ws : List String) : Option Hook := (splitSemi ws).mapM parseAction

open Afkak.BrokerClientR in
def parseEvR : List String → Option EvR
  | "make" :: i :: e :: "hook" :: h => do some (.make (← i.toInt?) (← parseBool e) (some (← parseHook h)))
  | ["stubborn", b] => do some (.stubborn (← parseBool b))
  | ["sync", "none"] => some (.syncMode .none)
  | ["sync", "ok"] => some (.syncMode .ok)
  | ["sync", "fail"] => some (.syncMode .fail)
  | ["ckind", "cancelled"] => some (.cancelMode .cancelled)
  | ["ckind", "connecting"] => some (.cancelMode .connecting)
  | ["ckind", "other"] => some (.cancelMode .other)
  | ws => (parseEv ws).map .flat

open Afkak.BrokerClientR in
def parseObR : List String → Option ObR
  | ["made", k, i] => do some (.made (← k.toNat?) (← i.toInt?))
  | ["closing"] => some .closing
  | ["hook", k] => do some (.hookBegin (← k.toNat?))
  | ["endhook"] => some .hookEnd
  | ["raise", w] => if w.startsWith "other:" then some (.raisedOther w) else (parseOb ["raise", w]).map .ob
  | ws => (parseOb ws).map .ob

open Afkak.BrokerClientR in
def showObR : ObR → String
  | .ob o => showOb o
  | .made k i => s!"made {k} {i}"
  | .closing => "closing"
  | .hookBegin k => s!"hook {k}"
  | .hookEnd => "endhook"
  | .fuelOut => "fuel-out"
  | .raisedOther w => s!"raise {w}"

open Afkak.BrokerClientR in
/-- the flat event a re-entrant-model event stands for, if it registers no callback -/
def flatOf : EvR → Option Ev
  | .make i e none => some (.make i e)
  | .make _ _ (some _) => none
  | .flat e => some e
  | .stubborn _ => none
  | .syncMode _ => none
  | .cancelMode _ => none

def showReq (r : Req) : String :=
  s!"{r.serial}:{r.id}:{if r.expect then 1 else 0}{if r.sent then 1 else 0}{if r.cancelled then 1 else 0}"

def showConnector : Connector → String
  | .none => "none"
  | .attempt => "attempt"
  | .backoff d => s!"backoff@{showRat d}"
  | .stale => "stale"

def showSt (s : St) : String :=
  let p := match s.proto with | some c => s!"{c}" | none => "-"
  s!"state host={s.host} port={s.port} proto={p} losing={s.losing} rbuf={s.rbuf.length} connector={showConnector s.connector} closed={s.closed} failures={s.failures} now={showRat s.now} nconn={s.nconn} nmake={s.nmake} wfail={s.wfail} reqs=[{" ".intercalate (s.reqs.map showReq)}]"

end BC

namespace BS
open Afkak.Bootstrap

def showReason : Reason → String
  | .done => "done"
  | .lost => "lost"
  | .other => "other"

def parseReason : String → Option Reason
  | "done" => some .done
  | "lost" => some .lost
  | "other" => some .other
  | _ => none

def showRes : Res → String
  | .ok b => s!"ok {toHex b}"
  | .connLost r => s!"err connLost {showReason r}"
  | .cancelled => "err cancelled"

def showOb : Ob → String
  | .write k => s!"write {k}"
  | .writeLost k => s!"writeLost {k}"
  | .lose => "lose"
  | .fire k r => s!"fire {k} {showRes r}"
  | .raiseAssert => "raise assert"
  | .badOp => "badOp"

def parseEv : List String → Option Ev
  | ["bs-request", h] => do some (.request (← parseHex h))
  | ["bs-cancel", k] => do some (.cancel (← k.toNat?))
  | ["bs-bytes", h] => do some (.bytesIn (← parseHex h))
  | ["bs-lost", r] => do some (.lost (← parseReason r))
  | ["bs-lost"] => some (.lost .done)   -- replay files written before the reason was an argument
  | _ => none

def parseOb : List String → Option Ob
  | ["write", k] => do some (.write (← k.toNat?))
  | ["writeLost", k] => do some (.writeLost (← k.toNat?))
  | ["lose"] => some .lose
  | ["fire", k, "ok", h] => do some (.fire (← k.toNat?) (.ok (← parseHex h)))
  | ["fire", k, "err", "connLost", r] => do some (.fire (← k.toNat?) (.connLost (← parseReason r)))
  | ["fire", k, "err", "cancelled"] => do some (.fire (← k.toNat?) .cancelled)
  | ["raise", "assert"] => some .raiseAssert
  | ["badOp"] => some .badOp
  | _ => none

end BS

structure DSt where
  policy : List Rat := []
  host : Nat := 0
  port : Nat := 0
  bc : Afkak.BrokerClient.St := Afkak.BrokerClient.St.init 0 0
  /-- the re-entrant model (executes everything) -/
  bcR : Afkak.BrokerClientR.StR := Afkak.BrokerClientR.StR.init 0 0
  /-- no callback registered so far: the flat model `bc` is run alongside and compared -/
  flatOk : Bool := true
  /-- the model's own trace since `bc-new`, newest first (flat projection; valid while `flatOk`) -/
  bcTr : List (Afkak.BrokerClient.Ev × List Afkak.BrokerClient.Ob) := []
  bcTrR : List (Afkak.BrokerClientR.EvR × List Afkak.BrokerClientR.ObR) := []
  trR : List (Afkak.BrokerClientR.EvR × List Afkak.BrokerClientR.ObR) := []
  frBuf : Bytes := []
  bs : Afkak.Bootstrap.St := Afkak.Bootstrap.St.init
  bsTr : List (Afkak.Bootstrap.Ev × List Afkak.Bootstrap.Ob) := []
  /-- recorded trace (newest first; observations of a step newest first) and its header -/
  tPolicy : List Rat := []
  tHost : Nat := 0
  tPort : Nat := 0
  btr : List (Afkak.Bootstrap.Ev × List Afkak.Bootstrap.Ob) := []
  /-- a `t-ev`/`t-ob`/`bt-…` line did not parse: the monitors answer `bad-op` -/
  tBad : Bool := false

def verdict : Option Nat → List String
  | none => ["ok"]
  | some n => [s!"fail {n}"]

def bootFirstBad (strict : Bool) (m : Afkak.Monitor.C06.BSt) (n : Nat) :
    List (Afkak.Bootstrap.Ev × List Afkak.Bootstrap.Ob) → Option Nat
  | [] => none
  | t :: ts => match Afkak.Monitor.C06.bstep strict m t with
    | none => some n
    | some m' => bootFirstBad strict m' (n + 1) ts

def fixTr {ε ω : Type} (tr : List (ε × List ω)) : List (ε × List ω) :=
  tr.reverse.map (fun t => (t.1, t.2.reverse))

/-- The longest prefix of a recorded trace that is a trace of the FLAT model: up to (not including) the first
    event that registers a callback, switches on the stubborn / a synchronous endpoint, or during which a
    callback ran.  Switching an environment option off that is off is a flat no-op and is dropped.  An exception
    that escaped from a top-level call (`raise other:…`, never produced by the model) is not part of the flat
    alphabet: it is dropped and the flat monitors judge what the call did and did not do.
    Returns the prefix and whether it is the whole trace. -/
def flatPrefix : List (Afkak.BrokerClientR.EvR × List Afkak.BrokerClientR.ObR) →
    List (Afkak.BrokerClient.Ev × List Afkak.BrokerClient.Ob) × Bool
  | [] => ([], true)
  | t :: ts =>
    if t.2.any (fun o => match o with | .hookBegin _ => true | _ => false) then ([], false)
    else match t.1 with
      | .stubborn false | .syncMode .none | .cancelMode _ => flatPrefix ts
      | e => match BC.flatOf e with
        | none => ([], false)
        | some fe => let r := flatPrefix ts; ((fe, Afkak.BrokerClientR.plain t.2) :: r.1, r.2)

/-- `ok` = the whole trace was judged; `okp n` = only its flat prefix of `n` steps was (the flat monitors do not
    apply beyond the first callback / stubborn / synchronous-endpoint event) -/
def verdictP (full : Bool) (n : Nat) : Option Nat → List String
  | none => if full then ["ok"] else [s!"okp {n}"]
  | some i => [s!"fail {i}"]

def bsStep (st : DSt) (e : Afkak.Bootstrap.Ev) : DSt × List String :=
  let r := Afkak.Bootstrap.step st.bs e
  ({ st with bs := r.1, bsTr := (e, r.2) :: st.bsTr }, r.2.map BS.showOb)

def step (st : DSt) (line : String) : DSt × List String :=
  match words line with
  | ["fr-new"] => ({ st with frBuf := [] }, ["ok"])
  | ["fr-feed", h] => match parseHex h with
    | some chunk =>
      let f := feed st.frBuf chunk
      ({ st with frBuf := f.buf },
       f.frames.map (fun b => s!"frame {toHex b}") ++ (if f.exceeded then ["exceeded"] else []) ++ [s!"buffered {f.buf.length}"])
    | none => (st, ["bad-op"])
  | "mon-genuine" :: ws =>
    -- ws = chunk₁ packets₁ chunk₂ packets₂ …; packetsᵢ = "." (none) or hex,hex,… ("-" = the empty packet)
    let rec pairs : List String → Option (List (Bytes × List Bytes))
      | [] => some []
      | c :: p :: rest => do
        let cb ← parseHex c
        let ps ← if p == "." then some [] else (p.splitOn ",").mapM parseHex
        let r ← pairs rest
        some ((cb, ps) :: r)
      | _ => none
    match pairs ws with
    | some tr => (st, verdict (Afkak.Monitor.C06.framesGenuineFirstBad [] 0 tr))
    | none => (st, ["bad-op"])
  | ["bc-new", h, p, pol] => match h.toNat?, p.toNat?, BC.parseRats pol with
    | some h, some p, some pol =>
      ({ st with policy := pol, host := h, port := p, bc := Afkak.BrokerClient.St.init h p, bcTr := [],
                 bcR := Afkak.BrokerClientR.StR.init h p, flatOk := true, bcTrR := [] }, ["ok"])
    | _, _, _ => (st, ["bad-op"])
  | ["bc-state"] => (st, [BC.showSt st.bcR.core])
  | ["bs-new"] => ({ st with bs := Afkak.Bootstrap.St.init, bsTr := [] }, ["ok"])
  | "bs-request" :: _ | "bs-cancel" :: _ | "bs-bytes" :: _ | "bs-lost" :: _ => match BS.parseEv (words line) with
    | some e => bsStep st e
    | none => (st, ["bad-op"])
  | ["t-new", h, p, pol] => match h.toNat?, p.toNat?, BC.parseRats pol with
    | some h, some p, some pol => ({ st with tPolicy := pol, tHost := h, tPort := p, trR := [], tBad := false }, ["ok"])
    | _, _, _ => (st, ["bad-op"])
  | "t-ev" :: ws => match BC.parseEvR ws with
    | some e => ({ st with trR := (e, []) :: st.trR }, [])
    | none => ({ st with tBad := true }, ["bad-op"])
  | "t-ob" :: ws => match BC.parseObR ws, st.trR with
    | some o, (e, os) :: rest => ({ st with trR := (e, o :: os) :: rest }, [])
    | _, _ => ({ st with tBad := true }, ["bad-op"])
  | ["mon-c06"] =>
    if st.tBad then (st, ["bad-op"]) else
      let p := flatPrefix (fixTr st.trR)
      (st, verdictP p.2 p.1.length (Afkak.Monitor.C06.firstBad Afkak.Monitor.C06.MSt.init 0 p.1))
  | ["mon-c06r"] =>
    if st.tBad then (st, ["bad-op"]) else
      let p := flatPrefix (fixTr st.trR)
      (st, verdictP p.2 p.1.length (Afkak.Monitor.C06.rFirstBad Afkak.Monitor.C06.RSt.init 0 p.1))
  | ["mon-bytes"] =>
    -- framing × broker client on raw bytes, per connection, whole-stream parse (`Afkak/BrokerClientBytes.lean`)
    if st.tBad then (st, ["bad-op"]) else
      let p := flatPrefix (fixTr st.trR)
      (st, verdictP p.2 p.1.length (Afkak.BrokerClientBytes.bytesFirstBad Afkak.BrokerClientBytes.LSt.init 0 p.1))
  | ["mon-model-bytes"] =>
    (st, verdictP st.flatOk st.bcTr.length (Afkak.BrokerClientBytes.bytesFirstBad Afkak.BrokerClientBytes.LSt.init 0 st.bcTr.reverse))
  | ["conn-logs"] =>
    -- the per-connection logs of the flat prefix of the recorded trace: `log <conn> <bytes hex> <dropped 0|1> <n ok firings> <logOk 0|1>`
    if st.tBad then (st, ["bad-op"]) else
      let p := flatPrefix (fixTr st.trR)
      (st, (Afkak.BrokerClientBytes.connLogs p.1).map (fun g =>
        s!"log {g.conn} {toHex g.bytes} {if g.dropped then 1 else 0} {g.oks.length} {if Afkak.BrokerClientBytes.logOk g then 1 else 0}"))
  | ["mon-c10"] =>
    if st.tBad then (st, ["bad-op"]) else
      let p := flatPrefix (fixTr st.trR)
      (st, verdictP p.2 p.1.length (Afkak.Monitor.C10.firstBad (BC.policyOf st.tPolicy) (Afkak.Monitor.C10.MSt.init st.tHost st.tPort) 0 p.1))
  | ["mon-r06"] =>
    if st.tBad then (st, ["bad-op"]) else (st, verdict (Afkak.Monitor.C06.r06FirstBad Afkak.Monitor.C06.RM.init 0 (fixTr st.trR)))
  | ["mon-r10"] =>
    if st.tBad then (st, ["bad-op"]) else (st, verdict (Afkak.Monitor.C10.r10FirstBad Afkak.Monitor.C10.RM.init 0 (fixTr st.trR)))
  | ["mon-model-c06"] =>
    (st, verdictP st.flatOk st.bcTr.length (Afkak.Monitor.C06.firstBad Afkak.Monitor.C06.MSt.init 0 st.bcTr.reverse))
  | ["mon-model-c06r"] =>
    (st, verdictP st.flatOk st.bcTr.length (Afkak.Monitor.C06.rFirstBad Afkak.Monitor.C06.RSt.init 0 st.bcTr.reverse))
  | ["mon-model-c10"] =>
    (st, verdictP st.flatOk st.bcTr.length (Afkak.Monitor.C10.firstBad (BC.policyOf st.policy) (Afkak.Monitor.C10.MSt.init st.host st.port) 0 st.bcTr.reverse))
  | ["mon-model-r06"] => (st, verdict (Afkak.Monitor.C06.r06FirstBad Afkak.Monitor.C06.RM.init 0 st.bcTrR.reverse))
  | ["mon-model-r10"] => (st, verdict (Afkak.Monitor.C10.r10FirstBad Afkak.Monitor.C10.RM.init 0 st.bcTrR.reverse))
  | ["bt-new"] => ({ st with btr := [], tBad := false }, ["ok"])
  | "bt-ev" :: ws => match BS.parseEv ws with
    | some e => ({ st with btr := (e, []) :: st.btr }, [])
    | none => ({ st with tBad := true }, ["bad-op"])
  | "bt-ob" :: ws => match BS.parseOb ws, st.btr with
    | some o, (e, os) :: rest => ({ st with btr := (e, o :: os) :: rest }, [])
    | _, _ => ({ st with tBad := true }, ["bad-op"])
  | ["mon-boot", strict] => match BC.parseBool strict with
    | some b => if st.tBad then (st, ["bad-op"]) else (st, verdict (bootFirstBad b Afkak.Monitor.C06.BSt.init 0 (fixTr st.btr)))
    | none => (st, ["bad-op"])
  | ["mon-boot-bytes"] =>
    if st.tBad then (st, ["bad-op"]) else
      (st, verdict (Afkak.BrokerClientBytes.Boot.bootBytesFirstBad Afkak.BrokerClientBytes.Boot.BL.init 0 (fixTr st.btr)))
  | ["mon-model-boot-bytes"] =>
    (st, verdict (Afkak.BrokerClientBytes.Boot.bootBytesFirstBad Afkak.BrokerClientBytes.Boot.BL.init 0 st.bsTr.reverse))
  | ["mon-model-boot", strict] => match BC.parseBool strict with
    | some b => (st, verdict (bootFirstBad b Afkak.Monitor.C06.BSt.init 0 st.bsTr.reverse))
    | none => (st, ["bad-op"])
  | ws => match BC.parseEvR ws with
    | some e =>
      let cfg : Afkak.BrokerClient.Cfg := ⟨BC.policyOf st.policy⟩
      let r := Afkak.BrokerClientR.stepR cfg st.bcR e
      let st1 := { st with bcR := r.1, bcTrR := (e, r.2) :: st.bcTrR }
      -- the flat model alongside, while no callback is registered
      match (if st.flatOk then BC.flatOf e else none) with
      | some fe =>
        let fr := Afkak.BrokerClient.step cfg st.bc fe
        let same := fr.2 == Afkak.BrokerClientR.plain r.2 && fr.1 == r.1.core
        ({ st1 with bc := fr.1, bcTr := (fe, fr.2) :: st.bcTr },
         r.2.map BC.showObR ++ (if same then [] else ["flat-mismatch " ++ " ; ".intercalate (fr.2.map BC.showOb)]))
      | none =>
        -- switching off an environment option that is off is a flat no-op
        let noop := match e with | .stubborn false => true | .syncMode .none => true | .cancelMode _ => true | _ => false
        ({ st1 with flatOk := st.flatOk && noop }, r.2.map BC.showObR)
    | none => (st, ["bad-op"])

end Driver.BrokerClient

def main : IO UInt32 := do
  Driver.loop (← IO.getStdin) (← IO.getStdout) ({} : Driver.BrokerClient.DSt) Driver.BrokerClient.step
  return 0
