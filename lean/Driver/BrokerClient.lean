import Driver.Util
/-! Driver for the `BrokerClient` component (stub until the component is built). -/
namespace Driver.BrokerClient

def step (st : Unit) (_line : String) : Unit × List String := (st, ["bad-op"])

end Driver.BrokerClient

def main : IO UInt32 := do
  Driver.loop (← IO.getStdin) (← IO.getStdout) () Driver.BrokerClient.step
  return 0
