import Afkak.Partitioner
import Afkak.Monitor.C18
import Driver.Util
namespace Driver.Partitioner
open Afkak.Partitioner Afkak.Murmur Afkak.Monitor.C18 Driver

structure St where
  rr : Option RR := none
  pm : PMap := []

def optInt : Option Int → String
  | some i => s!"int {i}"
  | none => "error"

def step (st : St) (line : String) : St × List String :=
  match words line with
  | ["murmur", hex] => match parseHex hex with
    | some bs => (st, [s!"int {pureMurmur2 bs}"])
    | none => (st, ["bad-op"])
  | ["jmurmur", hex] => match parseHex hex with
    | some bs => (st, [s!"int {(murmur2Java bs).toNat}"])
    | none => (st, ["bad-op"])
  | ["hashed", hex, ps] => match parseHex hex, parseInts ps with
    | some bs, some ps => (st, [optInt (hashed bs ps)])
    | _, _ => (st, ["bad-op"])
  | ["hashed-text", cps, ps] => match parseInts cps, parseInts ps with
    | some cps, some ps => (st, [optInt (hashedKey (.text (cps.map Int.toNat)) ps)])
    | _, _ => (st, ["bad-op"])
  | ["mon-hash-text", cps, ps, r] => match parseInts cps, parseInts ps, r.toInt? with
    | some cps, some ps, some r => (st, [if hashKeyOk (.text (cps.map Int.toNat)) ps r then "ok" else "fail"])
    | _, _, _ => (st, ["bad-op"])
  | ["rr-new", ps, start] => match parseInts ps, parseOptNat start with
    | some ps, some start => match setPartitions ps start with
      | some s => ({ st with rr := some s }, ["ok"])
      | none => ({ st with rr := none }, ["error"])
    | _, _ => (st, ["bad-op"])
  | ["prod-reset"] => ({ st with pm := [] }, ["ok"])
  | ["prod-next", topic, ps, start] => match parseInts ps, parseOptNat start with
    | some ps, some start => match nextPartitionRR st.pm topic ps start with
      | some (x, pm') => ({ st with pm := pm' }, [s!"int {x}"])
      | none => ({ st with pm := nextPartitionRRAfterError st.pm topic ps start }, ["error"])
    | _, _ => (st, ["bad-op"])
  | ["rr-pick", ps, start] => match st.rr, parseInts ps, parseOptNat start with
    | some s, some ps, some start => match rrPartition s ps start with
      | some (x, s') => ({ st with rr := some s' }, [s!"int {x}"])
      | none => ({ st with rr := some (rrAfterError s ps) }, ["error"])
    | _, _, _ => (st, ["bad-op"])
  | ["mon-hash", hex, ps, r] => match parseHex hex, parseInts ps, r.toInt? with
    | some bs, some ps, some r => (st, [if hashOk bs ps r then "ok" else "fail"])
    | _, _, _ => (st, ["bad-op"])
  | ["mon-member", ps, x] => match parseInts ps, x.toInt? with
    | some ps, some x => (st, [if member ps x then "ok" else "fail"])
    | _, _ => (st, ["bad-op"])
  | ["mon-rr", ps, picks] => match parseInts ps, parseInts picks with
    | some ps, some picks => (st, [if !ascending ps || windowFair ps picks then "ok" else "fail"])
    | _, _ => (st, ["bad-op"])
  | _ => (st, ["bad-op"])

end Driver.Partitioner

def main : IO UInt32 := do
  Driver.loop (← IO.getStdin) (← IO.getStdout) ({} : Driver.Partitioner.St) Driver.Partitioner.step
  return 0
