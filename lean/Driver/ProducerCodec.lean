import Afkak.Producer
import Afkak.ProducerR
import Afkak.Monitor.C01
import Afkak.Monitor.C09
import Afkak.Monitor.C19
import Afkak.Monitor.C19Idle
import Afkak.Monitor.C01Dropped
import Driver.Util
/-! Text codec of the Producer line protocol: events, observations, state snapshots (both directions:
the model prints them, and implementation traces are parsed back for the monitors). -/
namespace Driver.ProducerCodec
open Afkak.Producer Afkak.Monitor.ProducerTrace Driver

/-! ### parsing -/

def parseRat (s : String) : Option Rat :=
  match s.splitOn "/" with
  | [p] => p.toInt?.map (fun i => (i : Rat))
  | [p, q] => do
    let a ← p.toInt?
    let b ← q.toNat?
    if b = 0 then none else some ((a : Rat) / (b : Rat))
  | _ => none

def parseOptRat (s : String) : Option (Option Rat) :=
  if s == "-" then some none else (parseRat s).map some

def parseBool01 (s : String) : Option Bool :=
  if s == "1" then some true else if s == "0" then some false else none

def parseKind (s : String) : Option ErrKind :=
  if s == "lu" then some .leaderUnavailable
  else if s == "pu" then some .partitionUnavailable
  else if s == "ua" then some .unavailable
  else if s == "cc" then some .clientClosed
  else if s == "tc" then some .tcancelled
  else if s == "ac0" then some (.acancelled (some false))
  else if s == "ac1" then some (.acancelled (some true))
  else if s == "acn" then some (.acancelled none)
  else if s == "nr" then some .noResponse
  else if s.startsWith "b" then (s.drop 1).toString.toInt?.map .broker
  else if s.startsWith "o" then (s.drop 1).toString.toNat?.map .other
  else none

def parseTP (s : String) : Option TP :=
  match s.splitOn "/" with
  | [t, p] => do some ⟨← t.toNat?, ← p.toInt?⟩
  | _ => none

def parseResp (s : String) : Option Resp :=
  match s.splitOn ":" with
  | [tp, e, o] => do some ⟨← parseTP tp, ← e.toInt?, ← o.toInt?⟩
  | _ => none

def parseList {α} (f : String → Option α) (sep : String) (s : String) : Option (List α) :=
  if s == "-" || s == "" then some [] else (s.splitOn sep).mapM f

def parseFailedP (s : String) : Option FailedP :=
  match s.splitOn ":" with
  | [tp, k, w] => do
    let w ← if w == "w" then some true else if w == "u" then some false else none
    some ⟨← parseTP tp, ← parseKind k, w⟩
  | _ => none

def parseProdRes : List String → Option ProdRes
  | ["none"] => some .none
  | ["resp", rs] => (parseList parseResp ";" rs).map .responses
  | ["fail", rs, fs] => do some (.failed (← parseList parseResp ";" rs) (← parseList parseFailedP ";" fs))
  | ["err", k] => (parseKind k).map .err
  | _ => none

def parseMetaRes : List String → Option MetaRes
  | ["ok"] => some .ok
  | ["err", k] => (parseKind k).map .err
  | _ => none

def parseKey (s : String) : Option (Option (List UInt8)) :=
  if s == "N" then some none else (parseHex s).map some

def parseMsg (s : String) : Option (Option Nat) :=
  if s == "n" then some none else s.toNat?.map some

def parseNats (s : String) : Option (List Nat) := parseList (·.toNat?) "," s

def parseMout (s : String) : Option (Rid × MetaRes) :=
  match s.splitOn ":" with
  | [r, "ok"] => do some (← r.toNat?, .ok)
  | [r, k] => do some (← r.toNat?, .err (← parseKind k))
  | _ => none

/-- `rid:res` with `~` for blanks inside `res`; the rid is informational -/
def parsePout (s : String) : Option (Option ProdRes) :=
  if s == "-" then some none else
  match s.splitOn ":" with
  | _ :: rest => (parseProdRes ((":".intercalate rest).splitOn "~")).map some
  | _ => none

def parseEv : List String → Option Ev
  | ["send", sid, topic, key, msgs] => do
    some (.send (← sid.toNat?) (← topic.toNat?) (← parseKey key) (← parseList parseMsg "," msgs))
  | ["cancel", sid] => sid.toNat?.map .cancel
  | ["tick"] => some .tick
  | ["timer", tid] => tid.toNat?.map .timer
  | ["advance", dt] => (parseRat dt).map .advance
  | ["metaset", t, e, ps] => do
    let parts ← if ps == "K" then some none else (parseInts ps).map some
    some (.metaSet (← t.toNat?) (← e.toInt?) parts)
  | ["metareset", ts] => (parseNats ts).map .metaReset
  | ["metawipe"] => some .metaWipe
  | "metadone" :: rid :: rest => do some (.metaDone (← rid.toNat?) (← parseMetaRes rest))
  | "prodone" :: rid :: rest => do some (.produceDone (← rid.toNat?) (← parseProdRes rest))
  | ["stop", w, pout, mouts] => do
    some (.stop (← parseBool01 w) (← parsePout pout) (← parseList parseMout "," mouts))
  | _ => none

/-- a call made by a callback: `s@topic@key@msgs` | `c@sid` | `x@wipe@pout@mouts` -/
def parseAction (s : String) : Option Afkak.ProducerR.Action :=
  match s.splitOn "@" with
  | ["s", topic, key, msgs] => do some (.send (← topic.toNat?) (← parseKey key) (← parseList parseMsg "," msgs))
  | ["c", sid] => sid.toNat?.map .cancel
  | ["x", w, pout, mouts] => do some (.stop (← parseBool01 w) (← parsePout pout) (← parseList parseMout "," mouts))
  | _ => none

/-- events of the re-entrant machine: the flat ones, and `sendh sid topic key msgs hook` (hook: actions joined by `|`) -/
def parseEvR : List String → Option Afkak.ProducerR.EvR
  | ["sendh", sid, topic, key, msgs, hook] => do
    some (.sendH (← sid.toNat?) (← topic.toNat?) (← parseKey key) (← parseList parseMsg "," msgs)
      (← parseList parseAction "|" hook))
  | ws => (parseEv ws).map .flat

/-- `init acks maxAttempts initInterval batchSend n b t partitioner` -/
def parseCfg : List String → Option Cfg
  | [acks, mx, iv, bs, n, b, t, part] => do
    let h ← if part == "hashed" then some true else if part == "rr" then some false else none
    some (Cfg.ofArgs (← acks.toInt?) (← mx.toInt?) (← parseRat iv) (← parseBool01 bs) (← n.toInt?) (← b.toInt?)
      (← parseOptRat t) h)
  | _ => none

/-! ### printing -/

def showRat (r : Rat) : String := s!"{r.num}/{r.den}"

def showKind : ErrKind → String
  | .broker c => s!"b{c}"
  | .leaderUnavailable => "lu"
  | .partitionUnavailable => "pu"
  | .unavailable => "ua"
  | .clientClosed => "cc"
  | .tcancelled => "tc"
  | .acancelled (some false) => "ac0"
  | .acancelled (some true) => "ac1"
  | .acancelled none => "acn"
  | .noResponse => "nr"
  | .other n => s!"o{n}"

def showTP (tp : TP) : String := s!"{tp.topic}/{tp.part}"
def showResp (r : Resp) : String := s!"{showTP r.tp}:{r.error}:{r.offset}"

def showNats (l : List Nat) : String := if l.isEmpty then "-" else ",".intercalate (l.map toString)

def showOutcome : Outcome → String
  | .ok r => s!"ok {showResp r}"
  | .okNone => "oknone"
  | .okExc k => s!"okexc {showKind k}"
  | .err k => s!"err {showKind k}"

def showMsg (m : Msg) : String :=
  let k := match m.key with | none => "N" | some bs => if bs.isEmpty then "-" else toHex bs
  let v := match m.value with | none => "n" | some n => toString n
  s!"{k}.{v}"

/-- `topic/part=sids#key.size,key.size,...`: the sends a payload is made of and the messages it carries -/
def showPayload (p : Payload) : String :=
  s!"{showTP p.tp}={showNats p.sids}#{if p.msgs.isEmpty then "-" else ",".intercalate (p.msgs.map showMsg)}"

def showOb : Ob → String
  | .loadMeta rid t => s!"loadmeta {rid} {t}"
  | .produce rid ps => s!"produce {rid} {if ps.isEmpty then "-" else ";".intercalate (ps.map showPayload)}"
  | .cancelReq rid => s!"cancelreq {rid}"
  | .fire sid o => s!"fire {sid} {showOutcome o}"
  | .setTimer tid d => s!"settimer {tid} {showRat d}"
  | .cancelTimer tid => s!"canceltimer {tid}"
  | .resetMeta ts => s!"resetmeta {showNats ts}"
  | .stopLooper => "stoplooper"
  | .badOp => "badop"

def showObR : Afkak.ProducerR.ObR → String
  | .ob o => showOb o
  | .hookBegin sid => s!"hookbegin {sid}"
  | .hookEnd => "hookend"
  | .depthOut => "depthout"

def b01 (b : Bool) : String := if b then "1" else "0"

def showSnap (s : Snap) : String :=
  s!"state q={showNats s.queue} mc={s.msgCount} bc={s.byteCount} idle={b01 s.idle} att={s.attempts} iv={showRat s.interval} out={showNats s.outstanding} looper={b01 s.looper}"

def showState (st : St) : String := showSnap (snapOf st)

/-! ### parsing observations and snapshots of an implementation trace -/

def parseOutcome : List String → Option Outcome
  | ["ok", r] => (parseResp r).map .ok
  | ["oknone"] => some .okNone
  | ["okexc", k] => some (.okExc ((parseKind k).getD (.other 99)))
  | ["okval"] => some (.okExc (.other 98))
  | ["err", k] => some (.err ((parseKind k).getD (.other 99)))
  | _ => none

def parseWireMsg (s : String) : Option Msg :=
  match s.splitOn "." with
  | [k, v] => do some ⟨← parseKey k, ← parseMsg v⟩
  | _ => none

def parsePayload (s : String) : Option Payload :=
  match s.splitOn "#" with
  | [head, ms] =>
    match head.splitOn "=" with
    | [tp, sids] => do some ⟨← parseTP tp, ← parseNats sids, ← parseList parseWireMsg "," ms⟩
    | _ => none
  | _ => none

def parseOb : List String → Option Ob
  | ["loadmeta", rid, t] => do some (.loadMeta (← rid.toNat?) (← t.toNat?))
  | ["produce", rid, ps] => do some (.produce (← rid.toNat?) (← parseList parsePayload ";" ps))
  | ["cancelreq", rid] => rid.toNat?.map .cancelReq
  | "fire" :: sid :: rest => do some (.fire (← sid.toNat?) (← parseOutcome rest))
  | ["settimer", tid, d] => do some (.setTimer (← tid.toNat?) (← parseRat d))
  | ["canceltimer", tid] => tid.toNat?.map .cancelTimer
  | ["resetmeta", ts] => (parseNats ts).map .resetMeta
  | ["stoplooper"] => some .stopLooper
  | ["badop"] => some .badOp
  | _ => none

def field (pre : String) (s : String) : Option String :=
  if s.startsWith pre then some (s.drop pre.length).toString else none

def parseSnap : List String → Option Snap
  | ["state", q, mc, bc, idle, att, iv, out, looper] => do
    some { queue := ← parseNats (← field "q=" q), msgCount := ← (← field "mc=" mc).toInt?,
           byteCount := ← (← field "bc=" bc).toInt?, idle := ← parseBool01 (← field "idle=" idle),
           attempts := ← (← field "att=" att).toInt?, interval := ← parseRat (← field "iv=" iv),
           outstanding := ← parseNats (← field "out=" out), looper := ← parseBool01 (← field "looper=" looper) }
  | _ => none

/-- An implementation trace: lines `> <event>` open a step, then its observation lines, then its
    `state …` line. -/
def parseTrace (lines : List String) : Option (List Step) :=
  let rec go (ls : List String) (cur : Option (Ev × List Ob)) (acc : List Step) : Option (List Step) :=
    match ls with
    | [] => match cur with
      | none => some acc.reverse
      | some _ => none
    | l :: rest =>
      match words l with
      | ">" :: ws => match cur, parseEv ws with
        | none, some ev => go rest (some (ev, [])) acc
        | _, _ => none
      | "state" :: ws => match cur, parseSnap ("state" :: ws) with
        | some (ev, obs), some sn => go rest none ({ ev := ev, obs := obs.reverse, post := sn } :: acc)
        | _, _ => none
      | ws => match cur, parseOb ws with
        | some (ev, obs), some o => go rest (some (ev, o :: obs)) acc
        | _, _ => none
  go lines none []

/-- name → verdict (`ok` / `fail`) -/
def runMonitor (cfg : Cfg) (tr : List Step) (m : String) : String :=
  let v : Option Bool :=
    if m == "c01-once" then some (Afkak.Monitor.C01.atMostOnce cfg tr)
    else if m == "c01-acked" then some (Afkak.Monitor.C01.successAcked cfg tr)
    else if m == "c01-acks0" then some (Afkak.Monitor.C01.acks0 cfg tr)
    else if m == "c01-emptyanswer" then some (Afkak.Monitor.C01.emptyAnswer cfg tr)
    else if m == "c09-reported" then some (Afkak.Monitor.C09.reported cfg tr)
    else if m == "c01-payloads" then some (Afkak.Monitor.C01.payloads cfg tr)
    else if m == "c01-resolved" then some (Afkak.Monitor.C01.resolvedFired cfg tr)
    else if m == "c09-order" then some (Afkak.Monitor.C09.order cfg tr)
    else if m == "c09-onebatch" then some (Afkak.Monitor.C09.oneBatch cfg tr)
    else if m == "c09-retry" then some (Afkak.Monitor.C09.retryOnlyFailed cfg tr)
    else if m == "c09-attempts" then some (Afkak.Monitor.C09.attemptBound cfg tr)
    else if m == "c09-geometric" then some (Afkak.Monitor.C09.geometric cfg ((1 : Rat) / 1000000000) tr)
    else if m == "c19-accounting" then some (Afkak.Monitor.C19.accounting cfg tr)
    else if m == "c19-dispatch" then some (Afkak.Monitor.C19.dispatchIff cfg tr)
    else if m == "c19-cancel" then some (Afkak.Monitor.C19.cancel cfg tr)
    else if m == "c19-detach" then some (Afkak.Monitor.C19.detach cfg tr)
    else if m == "c19-stop" then some (Afkak.Monitor.C19.stop cfg tr)
    else if m == "c19-schedule" then some (Afkak.Monitor.C19.schedule cfg tr)
    else if m == "c01-dropped" then some (Afkak.Monitor.C01.neverDropped cfg tr)
    else if m == "c19-idleq" then some (Afkak.Monitor.C19.neverIdleOver cfg tr)
    else none
  match v with
  | some true => "ok"
  | some false => "fail"
  | none => "unknown-monitor"

def runMonitors (cfg : Option Cfg) (lines : List String) (mons : List String) : List String :=
  match cfg, parseTrace lines with
  | some cfg, some tr => mons.map (fun m => s!"{m} {runMonitor cfg tr m}")
  | _, _ => ["bad-op"]

end Driver.ProducerCodec
