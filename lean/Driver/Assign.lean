import Driver.Util
/-! Driver for the `Assign` component (stub until the component is built). -/
namespace Driver.Assign

def step (st : Unit) (_line : String) : Unit × List String := (st, ["bad-op"])

end Driver.Assign

def main : IO UInt32 := do
  Driver.loop (← IO.getStdin) (← IO.getStdout) () Driver.Assign.step
  return 0
