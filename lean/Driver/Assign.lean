import Afkak.Assign
import Afkak.Monitor.C15
import Afkak.AssignSync
import Driver.Util
/-!
Driver for the `Assign` component (exe `model_assign`).

Tokens (no spaces inside a token):
* string  : code points in decimal joined by `.`; the empty string is `~`
* ints    : decimals joined by `,`; the empty list is the empty text
* map     : `topic=ints` entries joined by `|`; the empty map is `-`
* members : `id:topic,topic,…` entries joined by `;`; no members is `-`
* obs     : `id>map` entries joined by `;`; empty is `-`
* encs    : `id:hex` entries joined by `;`; empty is `-`

* strs    : strings joined by `,`; the empty list is `-`
* wmembers: `id:hex` entries joined by `;` (member id, metadata bytes); empty is `-`

Requests: `rr members map`, `gen members map`, `encode version map`, `decode hex`,
`genb wmembers map`, `leader wmembers map` (the map is what `_load_topic_partitions` answers),
`meta-enc version strs`, `meta-dec hex`, `utf8-enc string`, `utf8-dec hex`,
`load strs replies` (replies joined by `/`, each `topic=err:ints` entries joined by `|`, empty `-`),
`mon-load strs map`, `mon-loadfull strs reply map` (the reply that completed the load),
`mon members map obs`, `mon-own map map`, `mon-same obs obs`,
`syncwire cid corr group gen leader members map corrbase` (cid, group, leader: hex of the UTF-8 bytes): the
leader's assignments across the SyncGroup wire path (`Afkak/AssignSync.lean`); answers `frame hex` and one
`via id>map` / `via id none` per listed member (member `id`'s own request has correlation id
`corrbase + len(id)`), or the exception that ended `generate_assignments` / `encode_sync_group_request`.
-/
namespace Driver.Assign
open Afkak.Assign Afkak.Monitor.C15 Driver

def parseStr (s : String) : Option Str :=
  if s == "~" then some [] else (s.splitOn ".").mapM (·.toNat?)

def showStr (s : Str) : String :=
  if s.isEmpty then "~" else ".".intercalate (s.map toString)

def parseIntList (s : String) : Option (List Int) :=
  if s == "" then some [] else (s.splitOn ",").mapM (·.toInt?)

def showIntList (l : List Int) : String := ",".intercalate (l.map toString)

def parseMap (s : String) : Option (Dict Str (List Int)) :=
  if s == "-" then some [] else
  (s.splitOn "|").mapM fun e =>
    match e.splitOn "=" with
    | [t, ps] => do some ((← parseStr t), (← parseIntList ps))
    | _ => none

def showMap (m : Dict Str (List Int)) : String :=
  if m.isEmpty then "-" else "|".intercalate (m.map fun e => showStr e.1 ++ "=" ++ showIntList e.2)

def parseMembers (s : String) : Option (List Member) :=
  if s == "-" then some [] else
  (s.splitOn ";").mapM fun e =>
    match e.splitOn ":" with
    | [id, ts] => do
      let id ← parseStr id
      let ts ← if ts == "" then some [] else (ts.splitOn ",").mapM parseStr
      some (id, ts)
    | _ => none

def parseStrs (s : String) : Option (List Str) :=
  if s == "-" then some [] else (s.splitOn ",").mapM parseStr

def showStrs (l : List Str) : String := if l.isEmpty then "-" else ",".intercalate (l.map showStr)

def parseWMembers (s : String) : Option (List (Str × Bytes)) :=
  if s == "-" then some [] else
  (s.splitOn ";").mapM fun e =>
    match e.splitOn ":" with
    | [id, h] => do some ((← parseStr id), (← parseHex h))
    | _ => none

def parseReply (s : String) : Option MetaReply :=
  if s == "-" then some [] else
  (s.splitOn "|").mapM fun e =>
    match e.splitOn "=" with
    | [t, v] =>
      match v.splitOn ":" with
      | [err, ps] => do some ((← parseStr t), ((← err.toInt?), (← parseIntList ps)))
      | _ => none
    | _ => none

def parseObs (s : String) : Option Obs :=
  if s == "-" then some [] else
  (s.splitOn ";").mapM fun e =>
    match e.splitOn ">" with
    | [id, m] => do some ((← parseStr id), (← parseMap m))
    | _ => none

def showObs (o : Obs) : String :=
  if o.isEmpty then "-" else ";".intercalate (o.map fun e => showStr e.1 ++ ">" ++ showMap e.2)

def showEncs (l : List (Str × Bytes)) : String :=
  if l.isEmpty then "-" else ";".intercalate (l.map fun e => showStr e.1 ++ ":" ++ toHex e.2)

def showErr : Err → String
  | .assertion => "error AssertionError"
  | .need ts => "need " ++ (if ts.isEmpty then "-" else ",".intercalate (ts.map showStr))
  | .stopIteration => "error StopIteration"
  | .keyError => "error KeyError"
  | .diverges => "error diverges"
  | .structError => "error error"
  | .unicodeEncode => "error UnicodeEncodeError"
  | .unicodeDecode => "error UnicodeDecodeError"
  | .bufferUnderflow => "error BufferUnderflowError"
  | .attributeError => "error AttributeError"
  | .protocolError => "error ProtocolError"

def okFail (b : Bool) : String := if b then "ok" else "fail"
def yesNo (b : Bool) : String := if b then "yes" else "no"

def step (st : Unit) (line : String) : Unit × List String :=
  match words line with
  | ["rr", ms, tp] => match parseMembers ms, parseMap tp with
    | some ms, some tp => match roundRobin (memberMetadata ms) tp with
      | .ok asg => (st, ["asg " ++ showObs asg])
      | .error e => (st, [showErr e])
    | _, _ => (st, ["bad-op"])
  | ["gen", ms, tp] => match parseMembers ms, parseMap tp with
    | some ms, some tp => match generateAssignments ms tp with
      | .ok encs => (st, ["enc " ++ showEncs encs])
      | .error e => (st, [showErr e])
    | _, _ => (st, ["bad-op"])
  | ["encode", v, m] => match v.toInt?, parseMap m with
    | some v, some m => match encodeMemberAssignment v m [] with
      | .ok b => (st, ["bytes " ++ toHex b])
      | .error e => (st, [showErr e])
    | _, _ => (st, ["bad-op"])
  | ["decode", hex] => match parseHex hex with
    | some b => match decodeAssignment b with
      | .ok m => (st, ["map " ++ showMap m])
      | .error e => (st, [showErr e])
    | none => (st, ["bad-op"])
  | ["genb", ms, tp] => match parseWMembers ms, parseMap tp with
    | some ms, some tp => match generateAssignmentsB ms tp with
      | .ok encs => (st, ["enc " ++ showEncs encs])
      | .error e => (st, [showErr e])
    | _, _ => (st, ["bad-op"])
  | ["leader", ms, tp] => match parseWMembers ms, parseMap tp with
    | some ms, some tp => match leaderAssign ms (fun _ => tp) with
      | .ok encs => (st, ["enc " ++ showEncs encs])
      | .error e => (st, [showErr e])
    | _, _ => (st, ["bad-op"])
  | ["meta-enc", v, ts] => match v.toInt?, parseStrs ts with
    | some v, some ts => match encodeMetadata v ts [] with
      | .ok b => (st, ["bytes " ++ toHex b])
      | .error e => (st, [showErr e])
    | _, _ => (st, ["bad-op"])
  | ["meta-dec", hex] => match parseHex hex with
    | some b => match decodeMetadata b with
      | .ok (v, ts, ud) => (st, [s!"meta {v} {showStrs ts} {match ud with | some u => toHex u | none => "null"}"])
      | .error e => (st, [showErr e])
    | none => (st, ["bad-op"])
  | ["utf8-enc", t] => match parseStr t with
    | some t => match utf8Encode t with
      | .ok b => (st, ["bytes " ++ toHex b])
      | .error e => (st, [showErr e])
    | none => (st, ["bad-op"])
  | ["utf8-dec", hex] => match parseHex hex with
    | some b => match utf8Decode b with
      | .ok t => (st, ["str " ++ showStr t])
      | .error e => (st, [showErr e])
    | none => (st, ["bad-op"])
  | ["load", asked, rs] => match parseStrs asked, (rs.splitOn "/").mapM parseReply with
    | some asked, some rs => match loadTopicPartitions asked rs with
      | some (snap, n) => (st, [s!"snap {showMap snap} after {n}"])
      | none => (st, ["pending"])
    | _, _ => (st, ["bad-op"])
  | ["mon-load", asked, snap] => match parseStrs asked, parseMap snap with
    | some asked, some snap => (st, [okFail (loadCovers asked snap)])
    | _, _ => (st, ["bad-op"])
  | ["mon-loadfull", asked, reply, snap] => match parseStrs asked, parseReply reply, parseMap snap with
    | some asked, some reply, some snap => (st, [okFail (loadFaithful asked reply snap)])
    | _, _, _ => (st, ["bad-op"])
  | ["mon", ms, tp, obs] => match parseMembers ms, parseMap tp, parseObs obs with
    | some ms, some tp, some obs =>
      (st, [s!"answers={okFail (answersAll ms obs)} once={okFail (exactlyOnce ms tp obs)} else={okFail (nothingElse ms tp obs)} sub={okFail (onlySubscribed ms obs)} bal={okFail (balanced ms obs)} wf={yesNo (wellFormed ms tp)} ident={yesNo (identicalSubs ms)}"])
    | _, _, _ => (st, ["bad-op"])
  | ["mon-own", a, d] => match parseMap a, parseMap d with
    | some a, some d => (st, [okFail (decodesOwn a d)])
    | _, _ => (st, ["bad-op"])
  | ["mon-same", o1, o2] => match parseObs o1, parseObs o2 with
    | some o1, some o2 => (st, [okFail (sameAssignment o1 o2)])
    | _, _ => (st, ["bad-op"])
  | ["syncwire", cid, corr, g, gen, leader, ms, tp, cb] =>
    match parseHex cid, corr.toInt?, parseHex g, gen.toInt?, parseHex leader, parseMembers ms, parseMap tp, cb.toInt? with
    | some cid, some corr, some g, some gen, some leader, some ms, some tp, some cb =>
      match generateAssignments ms tp with
      | .error e => (st, [showErr e])
      | .ok encs => match syncEntries encs with
        | .error e => (st, [showErr e])
        | .ok ga => match Afkak.Wire.encodeSyncGroupRequest cid corr (some g) gen (some leader) ga with
          | .error e => (st, ["error " ++ e.name])
          | .ok frame =>
            (st, ("frame " ++ toHex frame) :: ms.map fun m =>
              match memberViaSync frame (cb + m.1.length) m.1 with
              | some a => "via " ++ showStr m.1 ++ ">" ++ showMap a
              | none => "via " ++ showStr m.1 ++ " none")
    | _, _, _, _, _, _, _, _ => (st, ["bad-op"])
  | _ => (st, ["bad-op"])

end Driver.Assign

def main : IO UInt32 := do
  Driver.loop (← IO.getStdin) (← IO.getStdout) () Driver.Assign.step
  return 0
