import Afkak.WireCost
import Afkak.C12.MsgSet
import Afkak.Wire.Responses
/-!
Run-time cross-check of the two models of the response decoders: this package's cost-instrumented
decoders (`Afkak.WireCost`, `Afkak.C12`) against the wire package's (`Afkak.Wire`), on the same
bytes, rendered to one canonical text.  For messages, message sets and fetch responses the
agreement is a theorem (`AfkakProofs/Crc/Agree.lean`); here it is checked for every decoder on every
hostile input of the correspondence run.
-/
namespace Driver.CrcCross
open Afkak Afkak.WireCost Afkak.C12

def hexDigit (n : Nat) : Char := if n < 10 then Char.ofNat (48 + n) else Char.ofNat (87 + n)

def hexB (bs : List UInt8) : String :=
  String.ofList (bs.foldr (fun b acc => hexDigit (b.toNat / 16) :: hexDigit (b.toNat % 16) :: acc) [])

def sI (i : Int) : String := s!"i{i}"
def sB (b : List UInt8) : String := "b" ++ hexB b
def sO : Option (List UInt8) → String
  | none => "N"
  | some b => sB b
def sL (l : List String) : String := "[" ++ ",".intercalate l ++ "]"
def sInts (l : List Int) : String := sL (l.map sI)

/-- the error names of the two packages, identified -/
def errMapX : WireCost.Err → Wire.Err
  | .bufferUnderflow => .bufferUnderflow | .checksum => .checksum
  | .fetchSizeTooSmall => .fetchSizeTooSmall | .protocol => .protocol
  | .invalidMessage => .invalidMessage | .structError => .structError
  | .attributeError => .attributeError | .typeError => .typeError
  | .unicodeDecode => .unicodeDecode | .notImplemented => .notImplemented
  | .valueError => .valueError | .unboundLocal => .unboundLocal
  | .recursion => .fuel | .modelFuel => .fuel | .external _ => .gunzip

def showGenW (g : Wire.Gen) : String :=
  "{" ++ ";".intercalate (g.1.map (fun om =>
      let m := om.message
      let ts := match m.timestamp with | none => "N" | some t => toString t
      "m(" ++ toString om.offset ++ "," ++ toString m.magic ++ "," ++ toString m.attributes ++ "," ++ ts
        ++ "," ++ sO m.key ++ "," ++ sO m.value ++ ")")) ++ "|" ++
    (match g.2 with | none => "ok" | some e => e.name) ++ "}"

def genOfSet (r : SetOut) : Wire.Gen :=
  (r.msgs.map (fun om =>
      let m : Wire.Message := Wire.Message.mk om.2.magic om.2.attrs om.2.key om.2.value om.2.ts
      Wire.OffsetAndMessage.mk om.1 m), r.err.map errMapX)

def extOf (gz : Gz) : Wire.Ext :=
  { crc := fun b => (Crc32.crc32 b).toNat
    gzip := fun _ => .error .extMissing
    gunzip := fun v => match gz v with
      | .ok g => .ok g
      | .error _ => .error .gunzip
    snappy := fun _ => .error .notImplemented
    unsnappy := fun _ => .error .notImplemented
    nowMs := 0 }

partial def showValX (gz : Gz) (depth : Nat) : Val → String
  | .int i => sI i
  | .bytes b => sB b
  | .null => "N"
  | .mset d => showGenW (genOfSet (decodeSetOpt gz depth d))
  | .list l => sL (l.map (showValX gz depth))

def mine (gz : Gz) (depth : Nat) (m : Rd Val) (data : List UInt8) : String :=
  match run m data with
  | .err e _ => "error " ++ (errMapX e).name
  | .ok v _ _ => "value " ++ showValX gz depth v

def ofR (r : Wire.R String) : String :=
  match r with
  | .error e => "error " ++ e.name
  | .ok s => "value " ++ s

def ofG {α : Type} (f : α → String) (g : Wire.G α) : Wire.R String :=
  match g.2 with
  | .error e => .error e
  | .ok _ => .ok (sL (g.1.map f))

def wire (gz : Gz) (depth : Nat) (name : String) (version : Int) (data : List UInt8) : Option String :=
  let ext := extOf gz
  match name with
  | "api_versions" => some (ofR ((Wire.decodeApiVersionsResponse data).map (fun (e, vs) =>
      sL [sI e, sL (vs.map (fun v => sL [sI v.apiKey, sI v.minVersion, sI v.maxVersion]))])))
  | "produce" => some (ofR ((Wire.decodeProduceResponse data version).bind (fun g =>
      ofG (fun (p : Wire.ProduceResp) => sL [sB p.topic, sI p.partition, sI p.error, sI p.offset]) g)))
  | "fetch" => some (ofR (ofG (fun (p : Wire.FetchResp) =>
      sL [sB p.topic, sI p.partition, sI p.error, sI p.highwaterMark, showGenW p.messages])
      (Wire.decodeFetchResponse ext (depth + 1) data version)))
  | "offset" => some (ofR (ofG (fun (p : Wire.OffsetResp) =>
      sL [sB p.topic, sI p.partition, sI p.error, sInts p.offsets]) (Wire.decodeOffsetResponse data)))
  | "metadata" => some (ofR ((Wire.decodeMetadataResponse data).map (fun (bs, ts) =>
      sL [sL (bs.map (fun (id, b) => sL [sI id, sL [sI b.nodeId, sB b.host, sI b.port]])),
          sL (ts.map (fun (n, t) => sL [sB n, sL [sB t.topic, sI t.topicErrorCode,
            sL (t.partitionMetadata.map (fun (p, pm) => sL [sI p, sL [sB pm.topic, sI pm.partition,
              sI pm.partitionErrorCode, sI pm.leader, sInts pm.replicas, sInts pm.isr]]))]]))])))
  | "consumermetadata" => some (ofR ((Wire.decodeConsumerMetadataResponse data).map (fun r =>
      sL [sI r.error, sI r.nodeId, sB r.host, sI r.port])))
  | "offset_commit" => some (ofR (ofG (fun (p : Wire.OffsetCommitResp) =>
      sL [sB p.topic, sI p.partition, sI p.error]) (Wire.decodeOffsetCommitResponse data)))
  | "offset_fetch" => some (ofR (ofG (fun (p : Wire.OffsetFetchResp) =>
      sL [sB p.topic, sI p.partition, sI p.offset, sO p.metadata, sI p.error]) (Wire.decodeOffsetFetchResponse data)))
  | "join_group_protocol_metadata" => some (ofR ((Wire.decodeJoinGroupProtocolMetadata data).map (fun r =>
      sL [sI r.version, sL (r.subscriptions.map sB), sO r.userData])))
  | "join_group" => some (ofR ((Wire.decodeJoinGroupResponse data).map (fun r =>
      sL [sI r.error, sI r.generationId, sB r.groupProtocol, sB r.leaderId, sB r.memberId,
        sL (r.members.map (fun (m, md) => sL [sB m, sO md]))])))
  | "leave_group" => some (ofR ((Wire.decodeLeaveGroupResponse data).map (fun e => sL [sI e])))
  | "heartbeat" => some (ofR ((Wire.decodeHeartbeatResponse data).map (fun e => sL [sI e])))
  | "sync_group" => some (ofR ((Wire.decodeSyncGroupResponse data).map (fun (e, ma) => sL [sI e, sO ma])))
  | "sync_group_member_assignment" => some (ofR ((Wire.decodeSyncGroupMemberAssignment data).map (fun r =>
      sL [sI r.version, sL (r.assignments.map (fun (t, ps) => sL [sB t, sInts ps])), sO r.userData])))
  | _ => none

/-- message sets: both models on the same bytes -/
def crossSet (gz : Gz) (depth : Nat) (d : Option (List UInt8)) : String × String :=
  (showGenW (genOfSet (decodeSetOpt gz depth d)), showGenW (Wire.decodeMessageSetOpt (extOf gz) (depth + 1) d))

end Driver.CrcCross
