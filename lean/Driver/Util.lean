/-!
Line-protocol helpers shared by every component driver.
A request is one line; the answer is zero or more lines followed by a line `.`.
-/
namespace Driver

def hexVal (c : Char) : Option Nat :=
  if '0' ≤ c ∧ c ≤ '9' then some (c.toNat - '0'.toNat)
  else if 'a' ≤ c ∧ c ≤ 'f' then some (c.toNat - 'a'.toNat + 10)
  else if 'A' ≤ c ∧ c ≤ 'F' then some (c.toNat - 'A'.toNat + 10)
  else none

/-- `-` is the empty byte string; otherwise an even number of hex digits. -/
def parseHex (s : String) : Option (List UInt8) :=
  if s == "-" then some [] else
  let rec go : List Char → List UInt8 → Option (List UInt8)
    | [], acc => some acc.reverse
    | a :: b :: rest, acc => do
      let x ← hexVal a; let y ← hexVal b
      go rest (UInt8.ofNat (x * 16 + y) :: acc)
    | _, _ => none
  go s.toList []

def hexDigit (n : Nat) : Char := if n < 10 then Char.ofNat (48 + n) else Char.ofNat (87 + n)

def toHex (bs : List UInt8) : String :=
  if bs.isEmpty then "-" else
  String.ofList (bs.foldr (fun b acc => hexDigit (b.toNat / 16) :: hexDigit (b.toNat % 16) :: acc) [])

/-- comma-separated ints; `-` (or empty) is the empty list -/
def parseInts (s : String) : Option (List Int) :=
  if s == "-" || s == "" then some [] else
  (s.splitOn ",").mapM (fun t => t.toInt?)

def showInts (l : List Int) : String :=
  if l.isEmpty then "-" else ",".intercalate (l.map toString)

def parseOptNat (s : String) : Option (Option Nat) :=
  if s == "-" then some none else (s.toNat?).map some

def words (line : String) : List String :=
  (line.trimAscii.toString.splitOn " ").filter (· ≠ "")

partial def loop {σ : Type} (h : IO.FS.Stream) (out : IO.FS.Stream) (s : σ)
    (step : σ → String → σ × List String) : IO Unit := do
  let line ← h.getLine
  if line.isEmpty then out.flush; return ()
  let (s', outs) := step s line
  for o in outs do out.putStrLn o
  out.putStrLn "."
  loop h out s' step

end Driver
