import Afkak.ProducerArgs
import Driver.ProducerCodec
/-! `sendraw <topic> <key> <msgs>`: `send_messages` with arguments as Python hands them over (`Afkak/ProducerArgs.lean`).
* topic: `s<len>:<idx>` a `str` of that length (naming topic `idx` of the scenario) | `o` anything else
* key:   `N` None | `b<hex>` bytes (`b-` empty) | `o` anything else
* msgs:  `F` falsy (None, (), [], "", b"", 0) | `U` truthy without `len()` | `S<e,e,…>` sized, elements `n` None,
         `<size>` bytes of that size, `o` anything else
The driver answers `refused <kind>` and the (unchanged) state, or - accepted - what the `send` event answers. -/
namespace Driver.ProducerArgsCodec
open Afkak.Producer Afkak.ProducerArgs Driver Driver.ProducerCodec

def parseTopic (s : String) : Option PyTopic :=
  if s == "o" then some .other
  else if s.startsWith "s" then
    match (s.drop 1).toString.splitOn ":" with
    | [len, idx] => do some (.str (← len.toNat?) (← idx.toNat?))
    | _ => none
  else none

def parsePyKey (s : String) : Option PyKey :=
  if s == "N" then some .none
  else if s == "o" then some .other
  else if s.startsWith "b" then (parseHex (s.drop 1).toString).map .bytes
  else none

def parsePyMsg (s : String) : Option PyMsg :=
  if s == "n" then some .none else if s == "o" then some .other else s.toNat?.map .bytes

def parsePyMsgs (s : String) : Option PyMsgs :=
  if s == "F" then some .falsy
  else if s == "U" then some .unsized
  else if s.startsWith "S" then (parseList parsePyMsg "," (s.drop 1).toString).map .sized
  else none

def parseArgs : List String → Option Args
  | [t, k, m] => do some ⟨← parseTopic t, ← parsePyKey k, ← parsePyMsgs m⟩
  | _ => none

end Driver.ProducerArgsCodec
