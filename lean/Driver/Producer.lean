import Afkak.Producer
import Afkak.ProducerR
import Driver.ProducerCodec
import Driver.ProducerComposeCodec
import Driver.ProducerArgsCodec
/-! Line-protocol driver for the Producer model (exe `model_producer`).
Requests: `reset`, `init …`, one line per event (see `Driver/ProducerCodec.lean`), and the monitor
requests `trace-begin` / `trace-end <monitors>` (the lines between them are an IMPLEMENTATION trace). -/
namespace Driver.Producer
open Afkak.Producer Driver Driver.ProducerCodec

structure DSt where
  cfg : Option Cfg := none
  /-- the re-entrant machine's state (`Afkak/ProducerR.lean`); on flat events it IS the flat machine
      (`AfkakProofs/Producer/ReentrantExt.lean`: `stepCore_flat`) -/
  st : Afkak.ProducerR.StR := { core := {} }
  /-- recording an implementation trace for the monitors -/
  recd : Option (List String) := none

def step (d : DSt) (line : String) : DSt × List String :=
  match d.recd with
  | some acc =>
    match words line with
    | "trace-end" :: mons =>
      ({ d with recd := none }, runMonitors d.cfg acc.reverse mons)
    | _ => ({ d with recd := some (line :: acc) }, [])
  | none =>
    match words line with
    | ["reset"] => ({}, ["ok"])
    | ["trace-begin"] => ({ d with recd := some [] }, [])
    | "compose-call" :: args => (d, Driver.ProducerComposeCodec.composeCall args)
    | "init" :: args =>
      match parseCfg args with
      | some cfg =>
        let st := St.init cfg
        ({ d with cfg := some cfg, st := { core := st } }, [s!"ok looper={if st.looper then 1 else 0}"])
      | none => (d, ["bad-op"])
    | "sendraw" :: args =>
      -- `send_messages` with raw arguments (`Afkak.ProducerArgs.stepA`): refused by the validation - nothing changes -
      -- or the `send` event with the next send id
      match d.cfg, Driver.ProducerArgsCodec.parseArgs args with
      | some cfg, some a =>
        match Afkak.ProducerArgs.validate a with
        | .error k => (d, [s!"refused {showKind k}", showState d.st.core])
        | .ok acc =>
          let (st', obs) := Afkak.ProducerR.stepR cfg 12 d.st (.flat (.send d.st.core.nextSid acc.topic acc.key acc.msgs))
          ({ d with st := st' }, obs.map showObR ++ [showState st'.core])
      | _, _ => (d, ["bad-op"])
    | ws =>
      match d.cfg, parseEvR ws with
      | some cfg, some ev =>
        let (st', obs) := Afkak.ProducerR.stepR cfg 12 d.st ev
        ({ d with st := st' }, obs.map showObR ++ [showState st'.core])
      | _, _ => (d, ["bad-op"])

end Driver.Producer

def main : IO UInt32 := do
  Driver.loop (← IO.getStdin) (← IO.getStdout) ({} : Driver.Producer.DSt) Driver.Producer.step
  return 0
