import Driver.Util
/-! Driver for the `Producer` component (stub until the component is built). -/
namespace Driver.Producer

def step (st : Unit) (_line : String) : Unit × List String := (st, ["bad-op"])

end Driver.Producer

def main : IO UInt32 := do
  Driver.loop (← IO.getStdin) (← IO.getStdout) () Driver.Producer.step
  return 0
