import Afkak.ProducerCompose
import Driver.ProducerCodec
/-! `compose-call <keys> <leaders> <outs>`: evaluate the product machine's client call (`Afkak/ProducerCompose.lean`:
`route` + `sendProduce`) on what was observed of ONE `send_produce_request` of the real KafkaClient, so that the
harness can compare (a) the broker requests the real client issued with `route`'s, (b) the result it handed to the
Producer with `sendProduce`'s, and (c) evaluate the environment hypothesis `callOK` on the observed outcomes.

* keys:    `t/p;t/p;…`                    the payloads, in order (topic index / partition; the name of topic `i` is `t<i>`)
* leaders: `n,n,…` aligned with keys      node id of `topics_to_brokers[key]`, `N` = None (no leader), `x` = key absent
* outs:    `o|o|…` one per broker request `f:<kind>` (the request failed) or `ok:<t/p:err:off;…>` (decoded answer; `ok:-` empty);
           `-` = no broker request was made
answers: `route <node>=<i,j,…>;…` | `route-error pu|lu`, then `result <ProdRes tokens>` | `result invalid`, then `callok 0|1` and `callaccounts 0|1` (the environment hypotheses of the composed theorems) -/
namespace Driver.ProducerComposeCodec
open Afkak.Producer Afkak.ProducerCompose Driver Driver.ProducerCodec
open Afkak.ClientCache (Cache Broker route BrokerResult)

def nm (t : Topic) : String := s!"t{t}"

def parseLeader (s : String) : Option (Option (Option Broker)) :=
  if s == "x" then some none
  else if s == "N" then some (some none)
  else s.toInt?.map (fun n => some (some ⟨n, s!"kafka{n}", 9092⟩))

def parseCResp (s : String) : Option CResp :=
  (parseResp s).map (fun r => ⟨key nm r.tp, r.offset, r.error⟩)

def parseOut (s : String) : Option (BrokerResult ErrKind) :=
  if s.startsWith "f:" then (parseKind (s.drop 2).toString).map .fail
  else if s.startsWith "ok:" then (parseList parseCResp ";" (s.drop 3).toString).map .ok
  else none

def showFailedP (f : FailedP) : String := s!"{showTP f.tp}:{showKind f.kind}:{if f.wrapped then "w" else "u"}"

def showList {α} (f : α → String) (sep : String) (l : List α) : String :=
  if l.isEmpty then "-" else sep.intercalate (l.map f)

def showProdRes : ProdRes → String
  | .none => "none"
  | .responses rs => s!"resp {showList showResp ";" rs}"
  | .failed rs fs => s!"fail {showList showResp ";" rs} {showList showFailedP ";" fs}"
  | .err k => s!"err {showKind k}"

def composeCall : List String → List String
  | [ks, ls, os] =>
    match parseList parseTP ";" ks, parseList parseLeader "," ls, parseList parseOut "|" os with
    | some keys, some leaders, some outs =>
      if keys.length ≠ leaders.length then ["bad-op"] else
      let c : Cache := { t2b := (keys.zip leaders).filterMap (fun x => x.2.map (fun l => (key nm x.1, l))) }
      let r := match route c (keys.map (key nm)) none with
        | .ok gs => "route " ++ showList (fun g : Int × List Nat => s!"{g.1}={showNats g.2}") ";" gs
        | .error (.partitionUnavailable _) => "route-error pu"
        | .error (.leaderUnavailable _) => "route-error lu"
        | .error .coordinatorNotAvailable => "route-error cna"
      [r,
       match sendProduce nm c keys outs with
       | some res => "result " ++ showProdRes res
       | none => "result invalid",
       s!"callok {b01 (callOK nm c keys outs)}",
       s!"callaccounts {b01 (callAccounts nm c keys outs)}"]
    | _, _, _ => ["bad-op"]
  | _ => ["bad-op"]

end Driver.ProducerComposeCodec
