import Afkak.Crc32
import Afkak.WireCost
import Afkak.C12.MsgSet
import Afkak.C12.Grow
import Afkak.Monitor.C12
import Driver.Util
import Driver.CrcCross
/-!
Line-protocol driver for the `crc` component (property C12): CRC-32, message / message-set
decoding with cost, every response decoder with cost, the buffer growth rule, and the C12 monitors.

Bytes: hex, `-` = empty, `N` = None.  gzip table entries: `g:<in>:o:<out>` / `g:<in>:e:<Class>`.
-/
namespace Driver.Crc
open Afkak.Crc32 Afkak.WireCost Afkak.C12 Afkak.Monitor.C12 Driver

def parseOptHex (s : String) : Option (Option (List UInt8)) :=
  if s == "N" then some none else (parseHex s).map some

def hexB (bs : List UInt8) : String :=
  String.ofList (bs.foldr (fun b acc => hexDigit (b.toNat / 16) :: hexDigit (b.toNat % 16) :: acc) [])

def showOptB : Option (List UInt8) → String
  | none => "N"
  | some b => "b" ++ hexB b

def showOptI : Option Int → String
  | none => "N"
  | some i => toString i

def showMsg (om : Int × Msg) : String :=
  s!"m({om.1},{om.2.magic},{om.2.attrs},{showOptI om.2.ts},{showOptB om.2.key},{showOptB om.2.value})"

def showEnd : Option Err → String
  | none => "ok"
  | some e => e.name

def showSet (r : SetOut) : String :=
  "{" ++ ";".intercalate (r.msgs.map showMsg) ++ "|" ++ showEnd r.err ++ "}"

/-- gzip table: list of (input, result) -/
abbrev GzTab := List (Option (List UInt8) × Except String (List UInt8))

def gzOf (t : GzTab) : Gz := fun v =>
  match t.find? (fun e => e.1 == v) with
  | some e => e.2
  | none => .error "MISSING-GZ-ENTRY"

def parseGz (tok : String) : Option (Option (List UInt8) × Except String (List UInt8)) :=
  match tok.splitOn ":" with
  | ["g", i, "o", o] => do
    let i ← parseOptHex i
    let o ← parseHex o
    pure (i, .ok o)
  | ["g", i, "e", cls] => do
    let i ← parseOptHex i
    pure (i, .error cls)
  | _ => none

/-- canonical text of a value; message sets are iterated here (cost and gz bytes are summed) -/
partial def showVal (gz : Gz) (depth : Nat) : Val → String × Nat × Nat
  | .int i => (s!"i{i}", 0, 0)
  | .bytes b => ("b" ++ hexB b, 0, 0)
  | .null => ("N", 0, 0)
  | .mset d =>
    let r := decodeSetOpt gz depth d
    (showSet r, r.cost, r.gz)
  | .list l =>
    let (strs, k, g) := l.foldl (fun (acc : List String × Nat × Nat) v =>
      let (s, k, g) := showVal gz depth v
      (s :: acc.1, acc.2.1 + k, acc.2.2 + g)) ([], 0, 0)
    ("[" ++ ",".intercalate strs.reverse ++ "]", k, g)

def decoderOf [HasMeasure] (name : String) (version : Int) : Option (Rd Val) :=
  match name with
  | "api_versions" => some decodeApiVersions
  | "produce" => some (decodeProduce version)
  | "fetch" => some (decodeFetch version)
  | "offset" => some decodeOffset
  | "metadata" => some decodeMetadata
  | "consumermetadata" => some decodeConsumerMetadata
  | "offset_commit" => some decodeOffsetCommit
  | "offset_fetch" => some decodeOffsetFetch
  | "join_group_protocol_metadata" => some decodeJoinGroupProtocolMetadata
  | "join_group" => some decodeJoinGroup
  | "leave_group" => some decodeLeaveGroup
  | "heartbeat" => some decodeHeartbeat
  | "sync_group" => some decodeSyncGroup
  | "sync_group_member_assignment" => some decodeSyncGroupMemberAssignment
  | _ => none

/-- `off,magic,att,ts|N,key,val` -/
def parseMsg (s : String) : Option (Int × Msg) :=
  match s.splitOn "," with
  | [off, magic, att, ts, key, val] => do
    let off ← off.toInt?
    let magic ← magic.toInt?
    let att ← att.toInt?
    let ts ← if ts == "N" then some none else ts.toInt?.map some
    let key ← parseOptHex key
    let val ← parseOptHex val
    pure (off, { magic := magic, attrs := att, key := key, value := val, ts := ts })
  | _ => none

def parseNats (s : String) : Option (List Nat) :=
  if s == "-" then some [] else (s.splitOn ",").mapM (fun t => t.toNat?)

def allErrs : List Err :=
  [.bufferUnderflow, .checksum, .fetchSizeTooSmall, .protocol, .invalidMessage, .structError,
   .attributeError, .typeError, .unicodeDecode, .notImplemented, .valueError, .unboundLocal,
   .recursion]

/-- `ok` or an exception class name (an unknown class is kept as `external`) -/
def parseEnd (s : String) : Option Err :=
  if s == "ok" then none
  else match allErrs.find? (fun e => e.name == s) with
    | some e => some e
    | none => some (.external s)

def splitList (s : String) : List String := if s == "-" then [] else s.splitOn ";"

def step (st : Unit) (line : String) : Unit × List String :=
  match words line with
  | ["crc", hex] => match parseHex hex with
    | some bs => (st, [s!"int {(crc32 bs).toNat}"])
    | none => (st, ["bad-op"])
  | ["crcspec", hex] => match parseHex hex with
    | some bs => (st, [s!"int {(crcSpec bs).toNat}"])
    | none => (st, ["bad-op"])
  | "decset" :: depth :: hex :: gzs => match depth.toNat?, parseOptHex hex, gzs.mapM parseGz with
    | some depth, some d, some tab =>
      let r := decodeSetOpt (gzOf tab) depth d
      (st, [s!"set {showSet r}", s!"cost {r.cost} gz {r.gz}"])
    | _, _, _ => (st, ["bad-op"])
  | "dec" :: name :: version :: depth :: hex :: gzs =>
    match version.toInt?, depth.toNat?, parseHex hex, gzs.mapM parseGz with
    | some version, some depth, some d, some tab =>
      match decoderOf name version with
      | none => (st, ["bad-op"])
      | some m =>
        match run m d with
        | .err e k => (st, [s!"error {e.name}", s!"cost {k} gz 0"])
        | .ok v _ k =>
          let (s, k2, g) := showVal (gzOf tab) depth v
          (st, [s!"value {s}", s!"cost {k + k2} gz {g}"])
    | _, _, _, _ => (st, ["bad-op"])
  -- the memory side: the same decoder charged the bytes it slices
  | ["deca", name, version, hex] => match version.toInt?, parseHex hex with
    | some version, some d =>
      match @decoderOf bytesMeasure name version with
      | none => (st, ["bad-op"])
      | some m => (st, [s!"alloc {(run m d).cost}"])
    | _, _ => (st, ["bad-op"])
  | "decseta" :: depth :: hex :: gzs => match depth.toNat?, parseOptHex hex, gzs.mapM parseGz with
    | some depth, some d, some tab =>
      let r := @decodeSetOpt bytesMeasure (gzOf tab) depth d
      (st, [s!"alloc {r.cost} gz {r.gz}"])
    | _, _, _ => (st, ["bad-op"])
  | ["mon-alloc", len, bytes] => match len.toNat?, bytes.toNat? with
    | some len, some bytes => (st, [if allocOk len bytes then "ok" else "fail"])
    | _, _ => (st, ["bad-op"])
  | ["mon-setalloc", len, gz, bytes] => match len.toNat?, gz.toNat?, bytes.toNat? with
    | some len, some gz, some bytes => (st, [if setAllocOk len gz bytes then "ok" else "fail"])
    | _, _, _ => (st, ["bad-op"])
  -- both models (this package's and the wire package's) on the same bytes
  | "xdec" :: name :: version :: depth :: hex :: gzs =>
    match version.toInt?, depth.toNat?, parseHex hex, gzs.mapM parseGz with
    | some version, some depth, some d, some tab =>
      match decoderOf name version, Driver.CrcCross.wire (gzOf tab) depth name version d with
      | some m, some w =>
        let a := Driver.CrcCross.mine (gzOf tab) depth m d
        (st, if a == w then ["agree"] else ["differ", "c12 " ++ a, "wire " ++ w])
      | _, _ => (st, ["bad-op"])
    | _, _, _, _ => (st, ["bad-op"])
  | "xdecset" :: depth :: hex :: gzs => match depth.toNat?, parseOptHex hex, gzs.mapM parseGz with
    | some depth, some d, some tab =>
      let (a, w) := Driver.CrcCross.crossSet (gzOf tab) depth d
      (st, if a == w then ["agree"] else ["differ", "c12 " ++ a, "wire " ++ w])
    | _, _, _ => (st, ["bad-op"])
  | ["encset", msgs] =>
    match (if msgs == "-" then some [] else (msgs.splitOn ";").mapM parseMsg) with
    | some ms => (st, [s!"bytes {toHex (encodeSet ms)}", "lens " ++ showInts (ms.map (fun om => ((encodeEntry om).length : Int)))])
    | none => (st, ["bad-op"])
  | ["grow", b, max] => match b.toNat?, parseOptNat (if max == "N" then "-" else max) with
    | some b, some max => match grow b max with
      | some b' => (st, [s!"int {b'}"])
      | none => (st, ["fail"])
    | _, _ => (st, ["bad-op"])
  -- monitors on IMPLEMENTATION results
  | ["mon-burst", msg, e, k, before, yielded, endc] => match parseHex msg, parseHex e, k.toNat? with
    | some msg, some e, some k =>
      if !(crcOk msg && isBurst msg.length e k) then (st, ["skip"])
      else (st, [if burstOk msg e k (splitList before) (splitList yielded) (parseEnd endc) then "ok" else "fail"])
    | _, _, _ => (st, ["bad-op"])
  | ["mon-trunc", lens, orig, c, yielded, endc] =>
    match parseNats lens, c.toNat? with
    | some lens, some c =>
      (st, [if truncOk lens (splitList orig) c (splitList yielded) (parseEnd endc) then "ok" else "fail"])
    | _, _ => (st, ["bad-op"])
  | ["mon-refetch", offs, k, before, after, b, max, c, newB] =>
    match parseInts offs, k.toNat?, before.toInt?, after.toInt?, b.toNat?, parseOptNat (if max == "N" then "-" else max), c.toNat?,
        parseOptNat (if newB == "fail" then "-" else newB) with
    | some offs, some k, some before, some after, some b, some max, some c, some newB =>
      (st, [if refetchOk offs k before after b max c newB then "ok" else "fail"])
    | _, _, _, _, _, _, _, _ => (st, ["bad-op"])
  | ["mon-truncg", lens, contents, c, yielded, endc] =>
    -- contents: entries separated by `;`, the messages of one entry by `+`, `~` = an entry that contains nothing
    match parseNats lens, c.toNat? with
    | some lens, some c =>
      let cs := (splitList contents).map (fun e => if e == "~" then [] else e.splitOn "+")
      (st, [if truncOkG lens cs c (splitList yielded) (parseEnd endc) then "ok" else "fail"])
    | _, _ => (st, ["bad-op"])
  | ["mon-reads", len, cost] => match len.toNat?, cost.toNat? with
    | some len, some cost => (st, [if readsOk len cost then "ok" else "fail"])
    | _, _ => (st, ["bad-op"])
  | ["mon-fetchtotal", len, gz, cost] => match len.toNat?, gz.toNat?, cost.toNat? with
    | some len, some gz, some cost => (st, [if fetchTotalOk len gz cost then "ok" else "fail"])
    | _, _, _ => (st, ["bad-op"])
  | ["mon-setcost", len, gz, cost] => match len.toNat?, gz.toNat?, cost.toNat? with
    | some len, some gz, some cost => (st, [if setCostOk len gz cost then "ok" else "fail"])
    | _, _, _ => (st, ["bad-op"])
  | _ => (st, ["bad-op"])

end Driver.Crc

def main : IO UInt32 := do
  Driver.loop (← IO.getStdin) (← IO.getStdout) () Driver.Crc.step
  return 0
