import Driver.Util
/-! Driver for the `Crc` component (stub until the component is built). -/
namespace Driver.Crc

def step (st : Unit) (_line : String) : Unit × List String := (st, ["bad-op"])

end Driver.Crc

def main : IO UInt32 := do
  Driver.loop (← IO.getStdin) (← IO.getStdout) () Driver.Crc.step
  return 0
