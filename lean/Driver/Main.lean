import Driver.Util
import Driver.Partitioner

def main (args : List String) : IO UInt32 := do
  let stdin ← IO.getStdin
  let stdout ← IO.getStdout
  match args with
  | ["partitioner"] => Driver.loop stdin stdout (none : Driver.Partitioner.St) Driver.Partitioner.step; return 0
  | _ => IO.eprintln "usage: afkak_model <component>"; return 2
