import Afkak.Consumer
import Afkak.Monitor.C02
import Afkak.Monitor.C03
import Afkak.Monitor.C03Store
import Afkak.Monitor.C13
import Afkak.Monitor.C13Commit
import Afkak.Monitor.C13Live
import Afkak.Monitor.C14
import Afkak.ConsumerInv
import Driver.Util
/-!
# Line-protocol driver for the `Consumer` model (exe `model_consumer`)

Requests (one per line):
* `new group=0|1 autoN=<n> autoS=<rat> buf=<n> max=<n|-> init=<rat> maxd=<rat> attempts=<n> reset=<int|-> cancelReq=<kind:tag|-> cancelCommit=<kind:tag|->`
  starts a scenario (answer `ok`);
* `script <acts>/<res> ...` with `<acts>` = `-` or `stop,commit,shutdown` and `<res>` = `ok|defer|err:<kind>:<tag>` (answer `ok`);
* an event (`start <off>`, `stop`, `shutdown`, `commit`, `fetchDone k ok <off:pid,..|-> <end|small|raise:kind:tag>`,
  `fetchDone k err kind:tag`, `offsetDone k ok <off>` / `err kind:tag`, `offsetFetchDone …`, `commitDone k ok` / `err kind:tag`,
  `procDone ok` / `procDone err kind:tag`, `retryFire`, `commitRetryFire`, `autoCommitTick`, `advance <rat>`,
  `env <kind:tag|-> <kind:tag|->`): answer = the model's observations for that event, one per line;
* `tr-reset`, `tr ev <event>`, `tr ob <observation>`: record an IMPLEMENTATION trace; `mon <name>` evaluates a monitor on
  it (answer `ok` or `fail`); `mon-model <name>` evaluates it on the model's own trace of the current scenario.
Malformed request ⇒ `bad-op`.
-/
namespace Driver.Consumer
open Afkak.Consumer Driver

def parseRat (s : String) : Option Rat :=
  match s.splitOn "/" with
  | [a] => a.toInt?.map (fun i => (i : Rat))
  | [a, b] => do
    let n ← a.toInt?
    let d ← b.toNat?
    if d == 0 then none else some ((n : Rat) / (d : Rat))
  | _ => none

def showRat (r : Rat) : String := if r.den == 1 then toString r.num else s!"{r.num}/{r.den}"

def parseKind : String → Option ErrKind
  | "cancelled" => some .cancelled
  | "outOfRange" => some .outOfRange
  | "kafka" => some .kafka
  | "groupFatal" => some .groupFatal
  | "other" => some .other
  | _ => none

def showKind : ErrKind → String
  | .cancelled => "cancelled" | .outOfRange => "outOfRange" | .kafka => "kafka" | .groupFatal => "groupFatal" | .other => "other"

/-- `kind:tag` -/
def parseKT (s : String) : Option (ErrKind × Nat) :=
  match s.splitOn ":" with
  | [k, t] => do some ((← parseKind k), (← t.toNat?))
  | _ => none

def parseOptKT (s : String) : Option (Option (ErrKind × Nat)) :=
  if s == "-" then some none else (parseKT s).map some

def showFail : Fail → String
  | .ext k t => s!"ext:{showKind k}:{t}"
  | .tooSmall => "tooSmall"
  | .invalidGroup => "invalidGroup"
  | .opInProgress w => s!"opInProgress:{w}"

def parseFail (s : String) : Option Fail :=
  match s.splitOn ":" with
  | ["ext", k, t] => do some (.ext (← parseKind k) (← t.toNat?))
  | ["tooSmall"] => some .tooSmall
  | ["invalidGroup"] => some .invalidGroup
  | ["opInProgress", w] => w.toNat?.map .opInProgress
  | ["opInProgress"] => some (.opInProgress 0)
  | _ => none

def showOptInt : Option Int → String
  | none => "none"
  | some i => toString i

def parseOptInt (s : String) : Option (Option Int) :=
  if s == "none" then some none else s.toInt?.map some

def showDRes : DRes → String
  | .ok v => s!"ok {showOptInt v}"
  | .err f => s!"err {showFail f}"

def parseDRes : List String → Option DRes
  | ["ok", v] => (parseOptInt v).map .ok
  | ["err", f] => (parseFail f).map .err
  | _ => none

def parseMsg (s : String) : Option Msg :=
  match s.splitOn ":" with
  | [o, p] => do some { off := (← o.toInt?), pid := (← p.toNat?) }
  | _ => none

def parseMsgs (s : String) : Option (List Msg) :=
  if s == "-" then some [] else (s.splitOn ",").mapM parseMsg

def showMsgs (l : List Msg) : String :=
  if l.isEmpty then "-" else ",".intercalate (l.map fun m => s!"{m.off}:{m.pid}")

def parseTail (s : String) : Option Tail :=
  match s.splitOn ":" with
  | ["end"] => some .done
  | ["small"] => some .small
  | ["raise", k, t] => do some (.raise (← parseKind k) (← t.toNat?))
  | _ => none

def showTail : Tail → String
  | .done => "end" | .small => "small" | .raise k t => s!"raise:{showKind k}:{t}"

def parsePRes (s : String) : Option PRes :=
  match s.splitOn ":" with
  | ["ok"] => some .ok
  | ["defer"] => some .defer
  | ["err", k, t] => do some (.err (← parseKind k) (← t.toNat?))
  | _ => none

def showPRes : PRes → String
  | .ok => "ok" | .defer => "defer" | .err k t => s!"err:{showKind k}:{t}"

def parseAct : String → Option Act
  | "stop" => some .stop | "commit" => some .commit | "shutdown" => some .shutdown | _ => none

def parseEntry (s : String) : Option PEntry :=
  match s.splitOn "/" with
  | [a, r] => do
    let acts ← if a == "-" then some [] else (a.splitOn ",").mapM parseAct
    some { acts := acts, res := (← parsePRes r) }
  | _ => none

def parseTimer : String → Option TimerKind
  | "retry" => some .retry | "commit" => some .commit | "loop" => some .loop | _ => none

def showTimer : TimerKind → String
  | .retry => "retry" | .commit => "commit" | .loop => "loop"

def parseEv : List String → Option Ev
  | ["start", o] => o.toInt?.map .start
  | ["stop"] => some .stop
  | ["shutdown"] => some .shutdown
  | ["commit"] => some .commit
  | ["fetchDone", k, "ok", ms, t] => do some (.fetchOk (← k.toNat?) { msgs := (← parseMsgs ms), tail := (← parseTail t) })
  | ["fetchDone", k, "ok", ms, t, "foreign"] => do some (.fetchOk (← k.toNat?) { msgs := (← parseMsgs ms), tail := (← parseTail t) })
  | ["fetchDone", k, "err", e] => do let (ek, t) ← parseKT e; some (.fetchErr (← k.toNat?) ek t)
  | ["offsetDone", k, "ok", o] => do some (.offsetOk (← k.toNat?) (← o.toInt?))
  | ["offsetDone", k, "err", e] => do let (ek, t) ← parseKT e; some (.offsetErr (← k.toNat?) ek t)
  | ["offsetFetchDone", k, "ok", o] => do some (.offsetFetchOk (← k.toNat?) (← o.toInt?))
  | ["offsetFetchDone", k, "err", e] => do let (ek, t) ← parseKT e; some (.offsetFetchErr (← k.toNat?) ek t)
  | ["commitDone", k, "ok"] => k.toNat?.map .commitOk
  | ["commitDone", k, "err", e] => do let (ek, t) ← parseKT e; some (.commitErr (← k.toNat?) ek t)
  | ["procDone", "ok"] => some .procOk
  | ["procDone", "err", e] => do let (ek, t) ← parseKT e; some (.procErr ek t)
  | ["retryFire"] => some .retryFire
  | ["commitRetryFire"] => some .commitRetryFire
  | ["autoCommitTick"] => some .autoCommitTick
  | ["advance", d] => (parseRat d).map .advance
  | ["env", a, b] => do some (.env (← parseOptKT a) (← parseOptKT b))
  | _ => none

def showOb : Ob → String
  | .fetch k o m => s!"fetch {k} {o} {m}"
  | .offsets k t => s!"offsets {k} {t}"
  | .offsetFetch k => s!"offsetFetch {k}"
  | .commitReq k o => s!"commitReq {k} {o}"
  | .proc blk => s!"proc {showMsgs blk}"
  | .procRet r => s!"procRet {showPRes r}"
  | .act .stop => "act stop"
  | .act .commit => "act commit"
  | .act .shutdown => "act shutdown"
  | .procCancel => "procCancel"
  | .cancelReq k => s!"cancelReq {k}"
  | .startFired r => s!"startFired {showDRes r}"
  | .shutdownFired r => s!"shutdownFired {showDRes r}"
  | .shutdownRejected => "shutdownRejected"
  | .commitFired c r => s!"commitFired {c} {showDRes r}"
  | .waiterFired w r => s!"waiterFired {w} {showDRes r}"
  | .setTimer t d => s!"setTimer {showTimer t} {showRat d}"
  | .cancelTimer t => s!"cancelTimer {showTimer t}"
  | .stopReturned v => s!"stopReturned {showOptInt v}"
  | .raisedRestart => "raised restart"
  | .raisedRestop => "raised restop"
  | .crash site => s!"crash {site}"
  | .probe lp lc => s!"probe {showOptInt lp} {showOptInt lc}"

def parseOb : List String → Option Ob
  | ["fetch", k, o, m] => do some (.fetch (← k.toNat?) (← o.toInt?) (← m.toNat?))
  | ["offsets", k, t] => do some (.offsets (← k.toNat?) (← t.toInt?))
  | ["offsetFetch", k] => k.toNat?.map .offsetFetch
  | "commitReq" :: k :: o :: _ => do some (.commitReq (← k.toNat?) (← o.toInt?))
  | ["proc", ms] => (parseMsgs ms).map .proc
  | ["procRet", r] => (parsePRes r).map .procRet
  | ["act", a] => (parseAct a).map .act
  | ["procCancel"] => some .procCancel
  | ["cancelReq", k] => k.toNat?.map .cancelReq
  | "startFired" :: r => (parseDRes r).map .startFired
  | "shutdownFired" :: r => (parseDRes r).map .shutdownFired
  | ["shutdownRejected"] => some .shutdownRejected
  | "commitFired" :: c :: r => do some (.commitFired (← c.toNat?) (← parseDRes r))
  | "waiterFired" :: w :: r => do some (.waiterFired (← w.toNat?) (← parseDRes r))
  | ["setTimer", t, d] => do some (.setTimer (← parseTimer t) (← parseRat d))
  | ["cancelTimer", t] => (parseTimer t).map .cancelTimer
  | ["stopReturned", v] => (parseOptInt v).map .stopReturned
  | ["raised", "restart"] => some .raisedRestart
  | ["raised", "restop"] => some .raisedRestop
  | "crash" :: rest => some (.crash (" ".intercalate rest))
  | ["probe", a, b] => do some (.probe (← parseOptInt a) (← parseOptInt b))
  | _ => none

def kv (ws : List String) (key : String) : Option String :=
  (ws.filterMap fun w => match w.splitOn "=" with
    | [k, v] => if k == key then some v else none
    | _ => none).head?

def parseCfg (ws : List String) : Option (Cfg × Option (ErrKind × Nat) × Option (ErrKind × Nat)) := do
  let group ← (← kv ws "group").toNat?
  let autoN ← (← kv ws "autoN").toNat?
  let autoS ← parseRat (← kv ws "autoS")
  let buf ← (← kv ws "buf").toNat?
  let mx ← parseOptNat (← kv ws "max")
  let init ← parseRat (← kv ws "init")
  let maxd ← parseRat (← kv ws "maxd")
  let attempts ← (← kv ws "attempts").toNat?
  let rs ← kv ws "reset"
  let reset ← if rs == "-" then some none else rs.toInt?.map some
  let cr ← parseOptKT (← kv ws "cancelReq")
  let cc ← parseOptKT (← kv ws "cancelCommit")
  some ({ group := group != 0, autoN := autoN, autoS := autoS, bufInit := buf, bufMax := mx, retryInit := init,
          retryMax := maxd, maxAttempts := attempts, reset := reset }, cr, cc)

structure DSt where
  cfg : Cfg := default
  st : St := init default []
  impl : List Item := []     -- recorded implementation trace, newest first

/-- Observations emitted since `old` (both newest first). -/
def newObs (old new : List Item) : List String :=
  ((new.take (new.length - old.length)).reverse.filterMap fun
    | .ob o => some (showOb o)
    | .rej _ => some "bad-op"
    | .ev _ => none)

def evalMon (cfg : Cfg) (name : String) (tr : List Item) : Option Bool :=
  match name with
  | "c02-increasing" => some (Afkak.Monitor.C02.increasingOk cfg.reset.isSome tr)
  | "c02-no-overlap" => some (Afkak.Monitor.C02.noOverlapOk tr)
  | "c02-single-fetch" => some (Afkak.Monitor.C02.singleFetchOk tr)
  | "c02-faithful" => some (Afkak.Monitor.C02.payloadOk tr)
  | "c02-prompt" => some (Afkak.Monitor.C02.promptOk tr)
  | "c03-commit-le-processed" => some (Afkak.Monitor.C03.commitLeProcessedOk tr)
  | "c03-one-in-flight" => some (Afkak.Monitor.C03.oneInFlightOk tr)
  | "c03-committed-acked" => some (Afkak.Monitor.C03.committedAckedOk tr)
  | "c03-resume" => some (Afkak.Monitor.C03.resumeOk tr)
  | "c03-failure-stops" => some (Afkak.Monitor.C03.failureStopsOk tr)
  | "c03-commit-reports" => some (Afkak.Monitor.C03.commitReportsOk tr)
  | "c03-ack-recorded" => some (Afkak.Monitor.C03.ackRecordedOk tr)
  | "c03-resume-asks" => some (Afkak.Monitor.C03.resumeAsksOk tr)
  | "c13-start-once" => some (Afkak.Monitor.C13.startOnceOk tr)
  | "c13-fires-once" => some (Afkak.Monitor.C13.firesOnceOk tr)
  | "c13-quiescent" => some (Afkak.Monitor.C13.quiescentOk tr)
  | "c13-shutdown" => some (Afkak.Monitor.C13.shutdownOk cfg.group tr)
  | "c13-shutdown-inproc" => some (Afkak.Monitor.C13.shutdownInprocOk cfg.group tr)
  | "c13-no-crash" => some (Afkak.Monitor.C13.noCrashOk tr)
  | "c13-commit-bounded" => some (Afkak.Monitor.C13.commitBoundedOk cfg.maxAttempts tr)
  | "c13-alive" => some (Afkak.Monitor.C13.aliveOk tr)
  | "c13-shutdown-fail" => some (Afkak.Monitor.C13.shutdownFailOk tr)
  | "c14-delays" => some (Afkak.Monitor.C14.delaysOk cfg.retryInit cfg.retryMax tr)
  | "c14-reset" => some (Afkak.Monitor.C14.resetOk cfg.reset tr)
  | "c14-growth" => some (Afkak.Monitor.C14.growthOk cfg.bufInit cfg.bufMax tr)
  | "c14-never-skips" => some (Afkak.Monitor.C14.neverSkipsOk tr)
  | "c14-attempts" => some (Afkak.Monitor.C14.attemptsOk cfg.maxAttempts cfg.reset tr)
  | _ => none

def step (d : DSt) (line : String) : DSt × List String :=
  match words line with
  | "new" :: ws =>
    match parseCfg ws with
    | some (cfg, cr, cc) => ({ cfg := cfg, st := { init cfg [] with envReq := cr, envCommit := cc }, impl := [] }, ["ok"])
    | none => (d, ["bad-op"])
  | "script" :: es =>
    match es.mapM parseEntry with
    | some script => ({ d with st := { d.st with script := script } }, ["ok"])
    | none => (d, ["bad-op"])
  | ["tr-reset"] => ({ d with impl := [] }, ["ok"])
  | "tr" :: "ev" :: ws =>
    match parseEv ws with
    | some e => ({ d with impl := .ev e :: d.impl }, [])
    | none => (d, ["bad-op"])
  | "tr" :: "rej" :: ws =>
    match parseEv ws with
    | some e => ({ d with impl := .rej e :: d.impl }, [])
    | none => (d, ["bad-op"])
  | "tr" :: "ob" :: ws =>
    match parseOb ws with
    | some o => ({ d with impl := .ob o :: d.impl }, [])
    | none => (d, ["bad-op"])
  | ["mon", name] =>
    match evalMon d.cfg name d.impl.reverse with
    | some b => (d, [if b then "ok" else "fail"])
    | none => (d, ["bad-op"])
  | ["mon-nogap", log] =>
    match parseMsgs log with
    | some l => (d, [if Afkak.Monitor.C02.noGapOk l d.impl.reverse then "ok" else "fail"])
    | none => (d, ["bad-op"])
  | ["mon-complete", log] =>
    match parseMsgs log with
    | some l => (d, [if Afkak.Monitor.C02.completeOk l d.impl.reverse then "ok" else "fail"])
    | none => (d, ["bad-op"])
  | ["mon-model", name] =>
    match evalMon d.cfg name d.st.out.reverse with
    | some b => (d, [if b then "ok" else "fail"])
    | none => (d, ["bad-op"])
  | ["inv"] => (d, if d.st.crashed then ["ok"] else match Afkak.Consumer.InvTest.check d.cfg d.st with | [] => ["ok"] | l => ["fail " ++ " ".intercalate l])
  | ["dump"] => (d, [reprStr d.st |>.replace "\n" " "])
  | ws =>
    match parseEv ws with
    | some e =>
      let st' := Afkak.Consumer.step d.cfg d.st e
      ({ d with st := st' }, newObs d.st.out st'.out)
    | none => (d, ["bad-op"])

end Driver.Consumer

def main : IO UInt32 := do
  Driver.loop (← IO.getStdin) (← IO.getStdout) ({} : Driver.Consumer.DSt) Driver.Consumer.step
  return 0
