import Driver.Util
/-! Driver for the `Consumer` component (stub until the component is built). -/
namespace Driver.Consumer

def step (st : Unit) (_line : String) : Unit × List String := (st, ["bad-op"])

end Driver.Consumer

def main : IO UInt32 := do
  Driver.loop (← IO.getStdin) (← IO.getStdout) () Driver.Consumer.step
  return 0
