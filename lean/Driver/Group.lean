import Afkak.Group
import Afkak.Monitor.C16
import Afkak.Monitor.C17
import Afkak.Monitor.C17Coord
import Afkak.Monitor.C17Crash
import Afkak.GroupCompose
import Afkak.Monitor.C16Leave
import Driver.Util
/-!
Line-protocol driver for the group model (exe `model_group`).

  reset <initialMs> <retryMs> <fatalMs> <heartbeatMs> [<partsCancelSleeping 0|1>] -> ok
  ev <event>                                              -> one line per observation, `snap …`, `st …`
  mon-reset <initialMs> <retryMs> <fatalMs> <heartbeatMs> -> ok        (start an observed trace)
  mon-ev <event> / mon-ob <observation> / mon-snap <snapshot>          (snapshot closes the step)
  mon-end C16|C17                                         -> ok | fail <names…>
  mon-model C16|C17                                       -> the same monitors on the model's own trace since `reset`
  pev fetch <cid> | pev commit <cid>                      -> `req fetch <cid>` | `req commit <cid> <gen> <member>` | `req refused`
                                                             (product model Afkak.GroupCompose: a partition consumer sends a request)
  mon-req fetch <cid> | mon-req commit <cid> <gen> <member>  -> ok   (a consumer request observed after the last closed step;
                                                             `mon-end C16` also evaluates the composed monitors on the composed trace)
-/
namespace Driver.Group
open Afkak.Group Afkak.Consts Driver

def parseErr (s : String) : Option GErr := GErr.all.find? (·.name == s)

def parseRat (s : String) : Option Rat :=
  match s.splitOn "/" with
  | [n] => n.toInt?.map fun i => (i : Rat)
  | [n, d] => do
    let i ← n.toInt?; let k ← d.toNat?
    if k = 0 then none else some ((i : Rat) / (k : Rat))
  | _ => none

def showRat (r : Rat) : String := if r.den = 1 then toString r.num else s!"{r.num}/{r.den}"

def parseOptInt (s : String) : Option (Option Int) :=
  if s == "-" then some none else s.toInt?.map some

def showOptInt : Option Int → String
  | none => "-"
  | some i => toString i

/-- `ok` | `err:<kind>` -/
def parseRes (s : String) : Option Res :=
  if s == "ok" then some .ok
  else if s.startsWith "err:" then (parseErr (s.drop 4).toString).map .err else none

/-- assignment `-` or `topic:p,p;topic:p` -/
def parseAsg (s : String) : Option (List (Nat × List Int)) :=
  if s == "-" then some [] else
  (s.splitOn ";").mapM fun tp =>
    match tp.splitOn ":" with
    | [t, ps] => do
      let t ← t.toNat?
      let ps ← parseInts ps
      some (t, ps)
    | _ => none

def parseBool01 (s : String) : Option Bool :=
  if s == "1" then some true else if s == "0" then some false else none

def parseEv : List String → Option Ev
  | ["start"] => some .start
  | ["stop"] => some .stop
  | ["coordDone", "ok"] => some (.coordDone .ok)
  | ["coordDone", "none"] => some (.coordDone .none)
  | ["coordDone", r] => match parseRes r with | some (.err e) => some (.coordDone (.err e)) | _ => none
  | ["metaDone", r] => (parseRes r).map .metaDone
  | ["joinDone", "ok", m, g, l, n] => do
    let m ← m.toNat?; let g ← g.toInt?; let l ← parseBool01 l; let n ← n.toNat?
    some (.joinDone (.ok m g l n))
  | ["joinDone", r] => match parseRes r with | some (.err e) => some (.joinDone (.err e)) | _ => none
  | ["partsDone", r] => (parseRes r).map .partsDone
  | ["syncDone", "ok", a] => (parseAsg a).map fun a => .syncDone (.ok a)
  | ["syncDone", r] => match parseRes r with | some (.err e) => some (.syncDone (.err e)) | _ => none
  | ["hbDone", r] => (parseRes r).map .hbDone
  | ["leaveDone", r] => (parseRes r).map .leaveDone
  | ["consumerDown", c, "ok"] => c.toNat?.map fun c => .consumerDown c true
  | ["consumerDown", c, "err"] => c.toNat?.map fun c => .consumerDown c false
  | ["consumerErr", c, e] => do let c ← c.toNat?; let e ← parseErr e; some (.consumerErr c e)
  | ["consumerQuirk", c, "none"] => c.toNat?.map fun c => .consumerQuirk c .none
  | ["consumerQuirk", c, "raises"] => c.toNat?.map fun c => .consumerQuirk c .shutdownRaises
  | ["consumerQuirk", c, "fails"] => c.toNat?.map fun c => .consumerQuirk c .shutdownFails
  | ["fire", i] => i.toNat?.map fun i => .fire i none
  | ["fire", i, d] => do let i ← i.toNat?; let d ← parseRat d; some (.fire i (some d))
  | ["advance", d] => (parseRat d).map .advance
  | _ => none

def showKind : TKind → String | .rejoin => "rejoin" | .retry => "retry" | .hb => "hb"
def parseKind : String → Option TKind
  | "rejoin" => some .rejoin | "retry" => some .retry | "hb" => some .hb | _ => none
def showReq : ReqKind → String
  | .coordR => "coord" | .metaR => "meta" | .joinR => "join" | .partsR => "parts" | .syncR => "sync" | .hbR => "hb"
def parseReq : String → Option ReqKind
  | "coord" => some .coordR | "meta" => some .metaR | "join" => some .joinR | "parts" => some .partsR
  | "sync" => some .syncR | "hb" => some .hbR | _ => none

def showErrOpt : Option GErr → String
  | none => "ok"
  | some e => "err:" ++ e.name

def showOb : Ob → String
  | .coordLookup => "coordLookup"
  | .loadMeta => "loadMeta"
  | .join m => s!"join {m}"
  | .loadParts => "loadParts"
  | .sync g m n => s!"sync {showOptInt g} {m} {n}"
  | .heartbeat g m => s!"heartbeat {showOptInt g} {m}"
  | .leave m => s!"leave {m}"
  | .resetGroupMeta => "resetGroupMeta"
  | .consumerStart c t p g m off => s!"consumerStart {c} {t} {p} {showOptInt g} {m} {off}"
  | .consumerShutdown c => s!"consumerShutdown {c}"
  | .consumerStop c => s!"consumerStop {c}"
  | .startFired r => s!"startFired {showErrOpt r}"
  | .stopFired r => "stopFired " ++ (if r then "restop" else "ok")
  | .setTimer i k d => s!"setTimer {i} {showKind k} {showRat d}"
  | .cancelTimer i => s!"cancelTimer {i}"
  | .cancelReq k => s!"cancelReq {showReq k}"
  | .raised w => s!"raise {w}"
  | .badOp => "bad-op"

def parseOb : List String → Option Ob
  | ["coordLookup"] => some .coordLookup
  | ["loadMeta"] => some .loadMeta
  | ["join", m] => m.toNat?.map .join
  | ["loadParts"] => some .loadParts
  | ["sync", g, m, n] => do let g ← parseOptInt g; let m ← m.toNat?; let n ← n.toNat?; some (.sync g m n)
  | ["heartbeat", g, m] => do let g ← parseOptInt g; let m ← m.toNat?; some (.heartbeat g m)
  | ["leave", m] => m.toNat?.map .leave
  | ["resetGroupMeta"] => some .resetGroupMeta
  | ["consumerStart", c, t, p, g, m, off] => do
    let c ← c.toNat?; let t ← t.toNat?; let p ← p.toInt?; let g ← parseOptInt g; let m ← m.toNat?; let off ← off.toInt?
    some (.consumerStart c t p g m off)
  | ["consumerShutdown", c] => c.toNat?.map .consumerShutdown
  | ["consumerStop", c] => c.toNat?.map .consumerStop
  | ["startFired", "ok"] => some (.startFired none)
  | ["startFired", r] => match parseRes r with | some (.err e) => some (.startFired (some e)) | _ => none
  | ["stopFired", "ok"] => some (.stopFired false)
  | ["stopFired", "restop"] => some (.stopFired true)
  | ["setTimer", i, k, d] => do let i ← i.toNat?; let k ← parseKind k; let d ← parseRat d; some (.setTimer i k d)
  | ["cancelTimer", i] => i.toNat?.map .cancelTimer
  | ["cancelReq", k] => (parseReq k).map .cancelReq
  | ["raise", w] => some (.raised w)
  | ["bad-op"] => some .badOp
  | _ => none

def b01 (b : Bool) : String := if b then "1" else "0"

def showPhase : Phase → String | .running => "r" | .draining => "d" | .stopped => "s"
def parsePhase : String → Option Phase
  | "r" => some .running | "d" => some .draining | "s" => some .stopped | _ => none

def showCon (c : Con) : String :=
  s!"{c.cid}:{c.topic}:{c.part}:{showOptInt c.gen}:{c.member}:{showPhase c.phase}:{b01 c.held}:{b01 c.startFired}"

def parseCon (s : String) : Option Con :=
  match s.splitOn ":" with
  | [c, t, p, g, m, ph, h, f] => do
    let c ← c.toNat?; let t ← t.toNat?; let p ← p.toInt?; let g ← parseOptInt g; let m ← m.toNat?
    let ph ← parsePhase ph; let h ← parseBool01 h; let f ← parseBool01 f
    some { cid := c, topic := t, part := p, gen := g, member := m, phase := ph, held := h, startFired := f }
  | _ => none

def showSnap (sn : Snap) : String :=
  s!"snap started={b01 sn.started} stopping={b01 sn.stopping} jif={b01 sn.joinInFlight} needed={b01 sn.rejoinNeeded} " ++
  s!"hb={b01 sn.hbRunning} hbif={b01 sn.hbInFlight} sf={b01 sn.startFired} jt={sn.joinTimers} ht={sn.hbTimers} " ++
  s!"member={sn.member} gen={showOptInt sn.gen} cons=" ++
  (if sn.cons.isEmpty then "-" else ",".intercalate (sn.cons.map showCon))

def field (kvs : List (String × String)) (k : String) : Option String := (kvs.find? (·.1 == k)).map (·.2)

def parseSnap (ws : List String) : Option Snap := do
  let kvs ← ws.mapM fun w => match w.splitOn "=" with | [k, v] => some (k, v) | _ => none
  let gb := fun k => (field kvs k).bind parseBool01
  let gn := fun k => (field kvs k).bind String.toNat?
  let cons ← (field kvs "cons").bind fun v => if v == "-" then some [] else (v.splitOn ",").mapM parseCon
  some { started := ← gb "started", stopping := ← gb "stopping", joinInFlight := ← gb "jif", rejoinNeeded := ← gb "needed",
         hbRunning := ← gb "hb", hbInFlight := ← gb "hbif", startFired := ← gb "sf", joinTimers := ← gn "jt",
         hbTimers := ← gn "ht", member := ← gn "member", gen := ← (field kvs "gen").bind parseOptInt, cons := cons }

def showJPc : JPc → String
  | .idle => "idle" | .coordLookup => "coordLookup" | .metaLoad => "metaLoad" | .prepare => "prepare" | .hang => "prepare"
  | .join => "join" | .loadParts _ => "loadParts" | .sync => "sync"

/-- the rest of the state the harness compares: timers with due times, `_rejoin_wait_dc`,
    coroutine position, `coordinator_broker`, pending leave, time. -/
def showSt (s : St) : String :=
  let ts := s.timers.map fun t => s!"{t.id}:{showKind t.kind}:{showRat t.due}"
  s!"st now={showRat s.now} jpc={showJPc s.jpc} dc=" ++ (match s.rejoinWaitDc with | none => "-" | some i => toString i) ++
  s!" broker={b01 s.coordBroker} leave={b01 s.leaveWait.isSome} stops={s.stops.length} timers=" ++
  (if ts.isEmpty then "-" else ",".intercalate ts)

structure DSt where
  cfg : Cfg := Cfg.default
  st : St := init
  trace : List MStep := []        -- the model's own trace since `reset` (reversed)
  mcfg : Cfg := Cfg.default
  mtrace : List MStep := []       -- the observed trace being assembled (reversed)
  mev : Option Ev := none
  mobs : List Ob := []            -- reversed
  ptrace : List Afkak.GroupCompose.PStep := []   -- the observed COMPOSED trace (group steps + consumer requests, reversed)

def parseCfg : List String → Option Cfg
  | [a, b, c, d] => do
    let a ← a.toNat?; let b ← b.toNat?; let c ← c.toNat?; let d ← d.toNat?
    some { initialBackoffMs := a, retryBackoffMs := b, fatalBackoffMs := c, heartbeatMs := d }
  | [a, b, c, d, e] => do
    let a ← a.toNat?; let b ← b.toNat?; let c ← c.toNat?; let d ← d.toNat?; let e ← e.toNat?
    some { initialBackoffMs := a, retryBackoffMs := b, fatalBackoffMs := c, heartbeatMs := d, partsCancelSleeping := e != 0 }
  | _ => none

def showReq' : Afkak.GroupCompose.CReq → String
  | .fetch c => s!"req fetch {c}"
  | .commit c g m => s!"req commit {c} {showOptInt g} {m}"
  | .refused => "req refused"

def parseCReq : List String → Option (Afkak.GroupCompose.PEv × Afkak.GroupCompose.CReq)
  | ["fetch", c] => c.toNat?.map fun c => (.conFetch c, .fetch c)
  | ["commit", c, g, m] => do
    let c ← c.toNat?; let g ← parseOptInt g; let m ← m.toNat?
    some (.conCommit c, .commit c g m)
  | _ => none

def verdict (pid : String) (cfg : Cfg) (tr : List MStep) (ptr : List Afkak.GroupCompose.PStep := []) : List String :=
  let f := if pid == "C16" then some (Afkak.Monitor.C16.failing tr ++ Afkak.Monitor.C16Leave.failing tr ++ Afkak.GroupCompose.failing ptr)
           else if pid == "C17" then some (Afkak.Monitor.C17.failing cfg tr ++ Afkak.Monitor.C17Coord.failing tr ++ Afkak.Monitor.C17Crash.failing tr) else none
  match f with
  | none => ["bad-op"]
  | some [] => ["ok"]
  | some l => ["fail " ++ " ".intercalate l]

def step (d : DSt) (line : String) : DSt × List String :=
  match words line with
  | "reset" :: rest => match parseCfg rest with
    | some c => ({ d with cfg := c, st := init, trace := [] }, ["ok"])
    | none => (d, ["bad-op"])
  | "ev" :: rest => match parseEv rest with
    | some e =>
      let r := Afkak.Group.step d.cfg d.st e
      ({ d with st := r.1, trace := ⟨e, r.2, snap r.1⟩ :: d.trace },
       r.2.map showOb ++ [showSnap (snap r.1), showSt r.1])
    | none => (d, ["bad-op"])
  | "mon-reset" :: rest => match parseCfg rest with
    | some c => ({ d with mcfg := c, mtrace := [], mev := none, mobs := [], ptrace := [] }, ["ok"])
    | none => (d, ["bad-op"])
  | "mon-ev" :: rest => match parseEv rest with
    | some e => ({ d with mev := some e, mobs := [] }, ["ok"])
    | none => (d, ["bad-op"])
  | "mon-ob" :: rest => match parseOb rest with
    | some o => ({ d with mobs := o :: d.mobs }, ["ok"])
    | none => (d, ["bad-op"])
  | "mon-snap" :: rest => match d.mev, parseSnap rest with
    | some e, some sn => ({ d with mtrace := ⟨e, d.mobs.reverse, sn⟩ :: d.mtrace, mev := none, mobs := [],
                                   ptrace := ⟨.grp e, d.mobs.reverse, [], sn⟩ :: d.ptrace }, ["ok"])
    | _, _ => (d, ["bad-op"])
  | "mon-req" :: rest => match d.mev, parseCReq rest with
    | none, some (pe, rq) =>
      let pre := match d.ptrace with | p :: _ => p.snap | [] => snap init
      ({ d with ptrace := ⟨pe, [], [rq], pre⟩ :: d.ptrace }, ["ok"])
    | _, _ => (d, ["bad-op"])
  | ["pev", "fetch", c] => match c.toNat? with
    | some c => let r := Afkak.GroupCompose.pstep d.cfg d.st (.conFetch c); ({ d with st := r.1 }, r.2.2.map showReq')
    | none => (d, ["bad-op"])
  | ["pev", "commit", c] => match c.toNat? with
    | some c => let r := Afkak.GroupCompose.pstep d.cfg d.st (.conCommit c); ({ d with st := r.1 }, r.2.2.map showReq')
    | none => (d, ["bad-op"])
  | ["mon-end", pid] => (d, verdict pid d.mcfg d.mtrace.reverse d.ptrace.reverse)
  | ["mon-model", pid] => (d, verdict pid d.cfg d.trace.reverse)
  | _ => (d, ["bad-op"])

end Driver.Group

def main : IO UInt32 := do
  Driver.loop (← IO.getStdin) (← IO.getStdout) ({} : Driver.Group.DSt) Driver.Group.step
  return 0
