import Driver.Util
/-! Driver for the `Group` component (stub until the component is built). -/
namespace Driver.Group

def step (st : Unit) (_line : String) : Unit × List String := (st, ["bad-op"])

end Driver.Group

def main : IO UInt32 := do
  Driver.loop (← IO.getStdin) (← IO.getStdout) () Driver.Group.step
  return 0
