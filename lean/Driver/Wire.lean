import Afkak.Wire.Crc
import Afkak.Wire.Version
import Afkak.Wire.Xerial
import Afkak.Monitor.C04
import Afkak.Monitor.C04Total
import Afkak.Monitor.C05
import Afkak.Codec.Value
import Driver.Util
/-!
# Line-protocol driver for the wire component (`model_wire`)

A request is `<command> <V> <V> …` (see `Afkak/Codec/Value.lean` for the value syntax); the answer
is one line `ok <V>` / `error <ExceptionClass>` / `gen <V items> ok|<ExceptionClass>` followed by `.`.
A request that does not parse is answered `bad-op` (never a default value).

* `enc <api> …` / `dec <api> …` run the MODEL of afkak's encoders / decoders.
* `spec-enc <kind> <value>` encodes a value with the INDEPENDENT grammar (`Afkak/Wire/Spec.lean`).
* `must-c04 <api> <caller's arguments>` answers `fail must-encode` when the arguments are ones the encoder
  must accept (`Afkak.Monitor.C04.must…`), `out-of-range` otherwise; sent when the REAL encoder refused them.
* `mon-c04 <api> <caller's arguments> <frame>` evaluates `Afkak.Monitor.C04` on a frame the REAL
  encoder produced; `mon-c05 <kind> <value> | <observed answer line>` evaluates `Afkak.Monitor.C05`
  on what the REAL decoder returned for `spec-enc <kind> <value>`.

Externals: the checksum is `Afkak.Wire.Crc.crc32`; `gzip_encode`, `gzip_decode` and the clock are
set by `ext-*` requests from what the real externals returned in the harness; an input for which no
answer was recorded yields the distinguished error `ext-missing`.
-/
namespace Driver.Wire
open Afkak Afkak.Wire Afkak.Codec Afkak.Codec.V

set_option synthInstance.maxSize 100000

structure St where
  now : Int := 0
  gunzip : List (Option Bytes × R Bytes) := []
  gzip : List (Bytes × R Bytes) := []
  depth : Nat := 8

def St.ext (s : St) : Ext where
  crc := Crc.crc32
  gzip := fun b => match s.gzip.filter (fun e => e.1 == b) with
    | e :: _ => e.2
    | [] => .error .extMissing
  gunzip := fun b => match s.gunzip.filter (fun e => e.1 == b) with
    | e :: _ => e.2
    | [] => .error .extMissing
  snappy := fun _ => .error .notImplemented
  unsnappy := fun _ => .error .notImplemented
  nowMs := s.now

/-- the decompressor as the grammar-side monitors see it -/
def St.gunzipOpt (s : St) (b : Bytes) : Option Bytes :=
  match s.ext.gunzip (some b) with
  | .ok x => some x
  | .error _ => none

/-! ## conversions -/

def fmtOf (v : V) : Option (List Char) := v.toBytes?.map (fun b => b.map (fun c => Char.ofNat c.toNat))

def ints? (v : V) : Option (List Int) := v.toList? >>= fun l => l.mapM V.toInt?

def vInts (l : List Int) : V := .list (l.map .int)

def msgOfV : V → Option Message
  | .list [.int magic, .int att, k, v, ts] => do
    let k ← k.toOptBytes?; let v ← v.toOptBytes?; let ts ← ts.toOptInt?
    some { magic := magic, attributes := att, key := k, value := v, timestamp := ts }
  | _ => none

def vOfMsg (m : Message) : V :=
  .list [.int m.magic, .int m.attributes, optBytes m.key, optBytes m.value, optInt m.timestamp]

def msgsOfV (v : V) : Option (List Message) := v.toList? >>= fun l => l.mapM msgOfV

def vOfOM (om : OffsetAndMessage) : V := .list [.int om.offset, vOfMsg om.message]

def showR (r : R V) : List String :=
  match r with
  | .ok v => ["ok " ++ v.render]
  | .error e => ["error " ++ e.name]

def endName {α : Type} : R α → String
  | .ok _ => "ok"
  | .error e => e.name

def genLine (items : List V) (ending : String) : String :=
  "gen " ++ (V.list items).render ++ " " ++ ending

def showGen (g : Gen) : String :=
  genLine (g.1.map vOfOM) (match g.2 with | none => "ok" | some e => e.name)

def optPair? (v : V) : Option (Option Bytes × Option Bytes) :=
  match v with
  | .list [a, b] => do let a ← a.toOptBytes?; let b ← b.toOptBytes?; some (a, b)
  | _ => none

/-! ## requests -/

inductive Req
  | header (cid : Bytes) (corr key ver : Int)
  | produce (cid : Bytes) (corr : Int) (ps : List ProduceReq) (acks timeout ver : Int)
  | fetch (cid : Bytes) (corr : Int) (ps : List FetchReq) (wait minb ver : Int)
  | offset (cid : Bytes) (corr : Int) (ps : List OffsetReq)
  | metadata (cid : Bytes) (corr : Int) (ts : List (Option Bytes))
  | consumerMetadata (cid : Bytes) (corr : Int) (g : Option Bytes)
  | offsetCommit (cid : Bytes) (corr : Int) (g : Option Bytes) (gen : Int) (consumer : Option Bytes) (ps : List OffsetCommitReq)
  | offsetFetch (cid : Bytes) (corr : Int) (g : Option Bytes) (ps : List OffsetFetchReq)
  | joinGroup (cid : Bytes) (corr : Int) (p : JoinGroupReq)
  | joinGroupProtocolMetadata (ver : Int) (subs : List (Option Bytes)) (ud : Option Bytes)
  | leaveGroup (cid : Bytes) (corr : Int) (g mid : Option Bytes)
  | heartbeat (cid : Bytes) (corr : Int) (g : Option Bytes) (gen : Int) (mid : Option Bytes)
  | syncGroup (cid : Bytes) (corr : Int) (g : Option Bytes) (gen : Int) (mid : Option Bytes) (asg : List (Option Bytes × Option Bytes))
  | syncGroupMemberAssignment (ver : Int) (asg : List (Option Bytes × List Int)) (ud : Option Bytes)
  | apiVersions (cid : Bytes) (corr key ver : Int)

def parseReq (api : String) (a : List V) : Option Req :=
  match api, a with
  | "header", [.bytes cid, .int corr, .int key, .int ver] => some (.header cid corr key ver)
  | "produce", [.bytes cid, .int corr, .list ps, .int acks, .int timeout, .int ver] => do
    let ps ← ps.mapM (fun p => match p with
      | .list [t, .int part, ms] => do
        let t ← t.toOptBytes?; let ms ← msgsOfV ms
        some ({ topic := t, partition := part, messages := ms } : ProduceReq)
      | _ => none)
    some (.produce cid corr ps acks timeout ver)
  | "fetch", [.bytes cid, .int corr, .list ps, .int wait, .int minb, .int ver] => do
    let ps ← ps.mapM (fun p => match p with
      | .list [t, .int part, .int off, .int mb] => do
        let t ← t.toOptBytes?
        some ({ topic := t, partition := part, offset := off, maxBytes := mb } : FetchReq)
      | _ => none)
    some (.fetch cid corr ps wait minb ver)
  | "offset", [.bytes cid, .int corr, .list ps] => do
    let ps ← ps.mapM (fun p => match p with
      | .list [t, .int part, .int time, .int mo] => do
        let t ← t.toOptBytes?
        some ({ topic := t, partition := part, time := time, maxOffsets := mo } : OffsetReq)
      | _ => none)
    some (.offset cid corr ps)
  | "metadata", [.bytes cid, .int corr, .list ts] => do
    let ts ← ts.mapM V.toOptBytes?
    some (.metadata cid corr ts)
  | "consumermetadata", [.bytes cid, .int corr, g] => do
    let g ← g.toOptBytes?
    some (.consumerMetadata cid corr g)
  | "offset_commit", [.bytes cid, .int corr, g, .int gen, consumer, .list ps] => do
    let g ← g.toOptBytes?; let consumer ← consumer.toOptBytes?
    let ps ← ps.mapM (fun p => match p with
      | .list [t, .int part, .int off, .int ts, md] => do
        let t ← t.toOptBytes?; let md ← md.toOptBytes?
        some ({ topic := t, partition := part, offset := off, timestamp := ts, metadata := md } : OffsetCommitReq)
      | _ => none)
    some (.offsetCommit cid corr g gen consumer ps)
  | "offset_fetch", [.bytes cid, .int corr, g, .list ps] => do
    let g ← g.toOptBytes?
    let ps ← ps.mapM (fun p => match p with
      | .list [t, .int part] => do
        let t ← t.toOptBytes?
        some ({ topic := t, partition := part } : OffsetFetchReq)
      | _ => none)
    some (.offsetFetch cid corr g ps)
  | "join_group", [.bytes cid, .int corr, g, .int st, mid, pt, .list protos] => do
    let g ← g.toOptBytes?; let mid ← mid.toOptBytes?; let pt ← pt.toOptBytes?
    let protos ← protos.mapM optPair?
    some (.joinGroup cid corr ⟨g, st, mid, pt, protos⟩)
  | "join_group_protocol_metadata", [.int ver, .list subs, ud] => do
    let subs ← subs.mapM V.toOptBytes?; let ud ← ud.toOptBytes?
    some (.joinGroupProtocolMetadata ver subs ud)
  | "leave_group", [.bytes cid, .int corr, g, mid] => do
    let g ← g.toOptBytes?; let mid ← mid.toOptBytes?
    some (.leaveGroup cid corr g mid)
  | "heartbeat", [.bytes cid, .int corr, g, .int gen, mid] => do
    let g ← g.toOptBytes?; let mid ← mid.toOptBytes?
    some (.heartbeat cid corr g gen mid)
  | "sync_group", [.bytes cid, .int corr, g, .int gen, mid, .list asg] => do
    let g ← g.toOptBytes?; let mid ← mid.toOptBytes?
    let asg ← asg.mapM optPair?
    some (.syncGroup cid corr g gen mid asg)
  | "sync_group_member_assignment", [.int ver, .list asg, ud] => do
    let ud ← ud.toOptBytes?
    let asg ← asg.mapM (fun p => match p with
      | .list [t, ps] => do let t ← t.toOptBytes?; let ps ← ints? ps; some (t, ps)
      | _ => none)
    some (.syncGroupMemberAssignment ver asg ud)
  | "api_versions", [.bytes cid, .int corr, .int key, .int ver] => some (.apiVersions cid corr key ver)
  | _, _ => none

/-- the MODEL of `KafkaCodec.encode_*` -/
def Req.encode (s : St) : Req → R Bytes
  | .header cid corr key ver => encodeHeader cid corr key ver
  | .produce cid corr ps acks timeout ver => encodeProduceRequest s.ext cid corr ps acks timeout ver
  | .fetch cid corr ps wait minb ver => encodeFetchRequest cid corr ps wait minb ver
  | .offset cid corr ps => encodeOffsetRequest cid corr ps
  | .metadata cid corr ts => encodeMetadataRequest cid corr ts
  | .consumerMetadata cid corr g => encodeConsumerMetadataRequest cid corr g
  | .offsetCommit cid corr g gen consumer ps => encodeOffsetCommitRequest cid corr g gen consumer ps
  | .offsetFetch cid corr g ps => encodeOffsetFetchRequest cid corr g ps
  | .joinGroup cid corr p => encodeJoinGroupRequest cid corr p
  | .joinGroupProtocolMetadata ver subs ud => encodeJoinGroupProtocolMetadata ver subs ud
  | .leaveGroup cid corr g mid => encodeLeaveGroupRequest cid corr g mid
  | .heartbeat cid corr g gen mid => encodeHeartbeatRequest cid corr g gen mid
  | .syncGroup cid corr g gen mid asg => encodeSyncGroupRequest cid corr g gen mid asg
  | .syncGroupMemberAssignment ver asg ud => encodeSyncGroupMemberAssignment ver asg ud
  | .apiVersions cid corr key ver => encodeApiVersionsRequest cid corr key ver

/-- `Afkak.Monitor.C04` for the caller's arguments and a frame -/
def Req.monitor (s : St) (frame : Bytes) : Req → Option Monitor.C04.Verdict
  | .header .. => none
  | .produce cid corr ps acks timeout ver => some (Monitor.C04.produce Crc.crc32 s.now cid corr ps acks timeout ver frame)
  | .fetch cid corr ps wait minb ver => some (Monitor.C04.fetch cid corr ps wait minb ver frame)
  | .offset cid corr ps => some (Monitor.C04.listOffsets cid corr ps frame)
  | .metadata cid corr ts => some (Monitor.C04.metadata cid corr ts frame)
  | .consumerMetadata cid corr g => some (Monitor.C04.findCoordinator cid corr g frame)
  | .offsetCommit cid corr g gen consumer ps => some (Monitor.C04.offsetCommit cid corr g gen consumer ps frame)
  | .offsetFetch cid corr g ps => some (Monitor.C04.offsetFetch cid corr g ps frame)
  | .joinGroup cid corr p => some (Monitor.C04.joinGroup cid corr p frame)
  | .joinGroupProtocolMetadata ver subs ud => some (Monitor.C04.subscription ver subs ud frame)
  | .leaveGroup cid corr g mid => some (Monitor.C04.leaveGroup cid corr g mid frame)
  | .heartbeat cid corr g gen mid => some (Monitor.C04.heartbeat cid corr g gen mid frame)
  | .syncGroup cid corr g gen mid asg => some (Monitor.C04.syncGroup cid corr g gen mid asg frame)
  | .syncGroupMemberAssignment ver asg ud => some (Monitor.C04.assignment ver asg ud frame)
  | .apiVersions cid corr key ver => some (Monitor.C04.apiVersions cid corr key ver frame)

/-- must the encoder accept these arguments? (`Afkak.Monitor.C04.must…`, the hypotheses of `C04_*_total`) -/
def Req.must (s : St) : Req → Option Bool
  | .header .. => none
  | .produce cid corr ps acks timeout ver => some (Monitor.C04.mustProduce Crc.crc32 s.now cid corr ps acks timeout ver)
  | .fetch cid corr ps wait minb ver => some (Monitor.C04.mustFetch cid corr ps wait minb ver)
  | .offset cid corr ps => some (Monitor.C04.mustListOffsets cid corr ps)
  | .metadata cid corr ts => some (Monitor.C04.mustMetadata cid corr ts)
  | .consumerMetadata cid corr g => some (Monitor.C04.mustFindCoordinator cid corr g)
  | .offsetCommit cid corr g gen consumer ps => some (Monitor.C04.mustOffsetCommit cid corr g gen consumer ps)
  | .offsetFetch cid corr g ps => some (Monitor.C04.mustOffsetFetch cid corr g ps)
  | .joinGroup cid corr p => some (Monitor.C04.mustJoinGroup cid corr p)
  | .joinGroupProtocolMetadata ver subs ud => some (Monitor.C04.mustSubscription ver subs ud)
  | .leaveGroup cid corr g mid => some (Monitor.C04.mustLeaveGroup cid corr g mid)
  | .heartbeat cid corr g gen mid => some (Monitor.C04.mustHeartbeat cid corr g gen mid)
  | .syncGroup cid corr g gen mid asg => some (Monitor.C04.mustSyncGroup cid corr g gen mid asg)
  | .syncGroupMemberAssignment ver asg ud => some (Monitor.C04.mustAssignment ver asg ud)
  | .apiVersions cid corr key ver => some (Monitor.C04.mustApiVersions cid corr key ver)

/-! ## rendering of decoded responses (shared by `dec` and `mon-c05`) -/

def vProduce (r : ProduceResp) : V := .list [.bytes r.topic, .int r.partition, .int r.error, .int r.offset]
def vFetch (r : FetchResp) : V :=
  .list [.bytes r.topic, .int r.partition, .int r.error, .int r.highwaterMark,
         .list (r.messages.1.map vOfOM),
         .bytes ((match r.messages.2 with | none => "ok" | some e => e.name).toUTF8.toList)]
def vOffset (r : OffsetResp) : V := .list [.bytes r.topic, .int r.partition, .int r.error, vInts r.offsets]
def vOffsetCommit (r : OffsetCommitResp) : V := .list [.bytes r.topic, .int r.partition, .int r.error]
def vOffsetFetch (r : OffsetFetchResp) : V :=
  .list [.bytes r.topic, .int r.partition, .int r.offset, optBytes r.metadata, .int r.error]
def vPartitionMeta (p : PartitionMeta) : V :=
  .list [.bytes p.topic, .int p.partition, .int p.partitionErrorCode, .int p.leader, vInts p.replicas, vInts p.isr]
def vMetadata (r : List (Int × BrokerMeta) × List (Bytes × TopicMeta)) : V :=
  .list [.list (r.1.map (fun (k, b) => .list [.int k, .list [.int b.nodeId, .bytes b.host, .int b.port]])),
         .list (r.2.map (fun (k, t) => .list [.bytes k, .list [.bytes t.topic, .int t.topicErrorCode,
           .list (t.partitionMetadata.map (fun (pk, p) => .list [.int pk, vPartitionMeta p]))]]))]
def vConsumerMetadata (r : ConsumerMetadataResp) : V := .list [.int r.error, .int r.nodeId, .bytes r.host, .int r.port]
def vJoinGroup (r : JoinGroupResp) : V :=
  .list [.int r.error, .int r.generationId, .bytes r.groupProtocol, .bytes r.leaderId, .bytes r.memberId,
         .list (r.members.map (fun (m, d) => .list [.bytes m, optBytes d]))]
def vSubscription (r : JoinGroupProtocolMetadata) : V :=
  .list [.int r.version, .list (r.subscriptions.map .bytes), optBytes r.userData]
def vSyncGroup (r : Int × Option Bytes) : V := .list [.int r.1, optBytes r.2]
def vAssignment (r : SyncGroupMemberAssignment) : V :=
  .list [.int r.version, .list (r.assignments.map (fun (t, ps) => .list [.bytes t, vInts ps])), optBytes r.userData]
def vApiVersions (r : Int × List ApiVersion) : V :=
  .list [.int r.1, .list (r.2.map (fun v => .list [.int v.apiKey, .int v.minVersion, .int v.maxVersion]))]

def gLine {α : Type} (f : α → V) (g : G α) : List String := [genLine (g.1.map f) (endName g.2)]

/-- the MODEL of `KafkaCodec.decode_*` -/
def decResponse (s : St) (api : String) (a : List V) : Option (List String) :=
  match api, a with
  | "produce", [.bytes data, .int ver] =>
    some (match decodeProduceResponse data ver with
      | .error e => ["error " ++ e.name]
      | .ok g => gLine vProduce g)
  | "fetch", [.bytes data, .int ver] => some (gLine vFetch (decodeFetchResponse s.ext s.depth data ver))
  | "offset", [.bytes data] => some (gLine vOffset (decodeOffsetResponse data))
  | "metadata", [.bytes data] => some (showR ((decodeMetadataResponse data).map vMetadata))
  | "consumermetadata", [.bytes data] => some (showR ((decodeConsumerMetadataResponse data).map vConsumerMetadata))
  | "offset_commit", [.bytes data] => some (gLine vOffsetCommit (decodeOffsetCommitResponse data))
  | "offset_fetch", [.bytes data] => some (gLine vOffsetFetch (decodeOffsetFetchResponse data))
  | "join_group", [.bytes data] => some (showR ((decodeJoinGroupResponse data).map vJoinGroup))
  | "join_group_protocol_metadata", [.bytes data] => some (showR ((decodeJoinGroupProtocolMetadata data).map vSubscription))
  | "leave_group", [.bytes data] => some (showR ((decodeLeaveGroupResponse data).map .int))
  | "heartbeat", [.bytes data] => some (showR ((decodeHeartbeatResponse data).map .int))
  | "sync_group", [.bytes data] => some (showR ((decodeSyncGroupResponse data).map vSyncGroup))
  | "sync_group_member_assignment", [.bytes data] => some (showR ((decodeSyncGroupMemberAssignment data).map vAssignment))
  | "api_versions", [.bytes data] => some (showR ((decodeApiVersionsResponse data).map vApiVersions))
  | "correlation_id", [.bytes data] => some (showR ((getResponseCorrelationId data).map .int))
  | _, _ => none

/-! ## values of the grammar (`Afkak/Wire/Spec.lean`) from the pipe -/

section SpecValues
open Afkak.Wire.Spec

def t2 {α β : Type} (f : V → Option α) (g : V → Option β) : V → Option (α × β)
  | .list [a, b] => do let a ← f a; let b ← g b; some (a, b)
  | _ => none
def t3 {α β γ : Type} (f : V → Option α) (g : V → Option β) (h : V → Option γ) : V → Option (α × β × γ)
  | .list [a, b, c] => do let a ← f a; let b ← g b; let c ← h c; some (a, b, c)
  | _ => none
def t4 {α β γ δ : Type} (f : V → Option α) (g : V → Option β) (h : V → Option γ) (i : V → Option δ) :
    V → Option (α × β × γ × δ)
  | .list [a, b, c, d] => do let a ← f a; let b ← g b; let c ← h c; let d ← i d; some (a, b, c, d)
  | _ => none
def t5 {α β γ δ ε : Type} (f : V → Option α) (g : V → Option β) (h : V → Option γ) (i : V → Option δ)
    (j : V → Option ε) : V → Option (α × β × γ × δ × ε)
  | .list [a, b, c, d, e] => do
    let a ← f a; let b ← g b; let c ← h c; let d ← i d; let e ← j e; some (a, b, c, d, e)
  | _ => none
def tl {α : Type} (f : V → Option α) (v : V) : Option (List α) := v.toList? >>= fun l => l.mapM f
def vi := V.toInt?
def vb := V.toBytes?
def vob := V.toOptBytes?

/-- `[ imagic iattributes <ts|n> <key|n> <value|n> ]` -/
def specMsgOfV : V → Option Msg
  | .list [.int magic, .int att, ts, k, v] => do
    let ts ← ts.toOptInt?; let k ← k.toOptBytes?; let v ← v.toOptBytes?
    if att < 0 then none else some ⟨magic, att.toNat, ts, k, v⟩
  | _ => none

def specEntriesOfV : V → Option (List (Int × Msg)) := tl (t2 vi specMsgOfV)

def specTopics {α : Type} (f : V → Option α) : V → Option (List (Bytes × List α)) := tl (t2 vb (tl f))

/-- a response / message-set value of the grammar, by kind -/
inductive SpecVal
  | msgSet (v : List (Int × Msg))
  | produce0 (v : Spec.ProduceRespV0)
  | produce2 (v : Spec.ProduceRespV2)
  | fetch0 (v : Spec.FetchRespV0)
  | fetch2 (v : Spec.FetchRespV2)
  | listOffsets (v : Spec.ListOffsetsResp)
  | metadata (v : Spec.MetadataResp)
  | findCoordinator (v : Spec.FindCoordinatorResp)
  | offsetCommit (v : Spec.OffsetCommitResp)
  | offsetFetch (v : Spec.OffsetFetchResp)
  | joinGroup (v : Spec.JoinGroupResp)
  | syncGroup (v : Spec.SyncGroupResp)
  | heartbeat (v : Spec.ErrorOnlyResp)
  | leaveGroup (v : Spec.ErrorOnlyResp)
  | apiVersions (v : Spec.ApiVersionsResp)
  | subscription (v : Spec.Subscription)
  | assignment (v : Spec.Assignment)
  | correlationId (corr : Int) (rest : Bytes)

def fetchParts : V → Option (List (Bytes × List (Int × Int × Int × List (Int × Msg)))) :=
  specTopics (t4 vi vi vi specEntriesOfV)

def parseSpecVal (kind : String) (v : V) : Option SpecVal :=
  match kind with
  | "msgset" => (specEntriesOfV v).map .msgSet
  | "produce0" => (t2 vi (specTopics (t3 vi vi vi)) v).map .produce0
  | "produce2" => (t3 vi (specTopics (t4 vi vi vi vi)) vi v).map .produce2
  | "fetch0" => (t2 vi fetchParts v).map .fetch0
  | "fetch2" => (t3 vi vi fetchParts v).map .fetch2
  | "offset" => (t2 vi (specTopics (t3 vi vi (tl vi))) v).map .listOffsets
  | "metadata" =>
    (t3 vi (tl (t3 vi vb vi)) (tl (t3 vi vb (tl (t5 vi vi vi (tl vi) (tl vi))))) v).map .metadata
  | "consumermetadata" => (t5 vi vi vi vb vi v).map .findCoordinator
  | "offset_commit" => (t2 vi (specTopics (t2 vi vi)) v).map .offsetCommit
  | "offset_fetch" => (t2 vi (specTopics (t4 vi vi vob vi)) v).map .offsetFetch
  | "join_group" =>
    (match v with
     | .list [c, e, g, p, l, m, ms] => do
       let c ← vi c; let e ← vi e; let g ← vi g; let p ← vb p; let l ← vb l; let m ← vb m
       let ms ← tl (t2 vb vb) ms
       some (SpecVal.joinGroup (c, e, g, p, l, m, ms))
     | _ => none)
  | "sync_group" => (t3 vi vi vb v).map .syncGroup
  | "heartbeat" => (t2 vi vi v).map .heartbeat
  | "leave_group" => (t2 vi vi v).map .leaveGroup
  | "api_versions" => (t3 vi vi (tl (t3 vi vi vi)) v).map .apiVersions
  | "join_group_protocol_metadata" => (t3 vi (tl vb) vob v).map .subscription
  | "sync_group_member_assignment" => (t3 vi (tl (t2 vb (tl vi))) vob v).map .assignment
  | "correlation_id" => (t2 vi vb v).map (fun p => .correlationId p.1 p.2)
  | _ => none

/-- `Spec.X.enc v` -/
def SpecVal.enc : SpecVal → Bytes
  | .msgSet v => (messageSet Crc.crc32).enc v
  | .produce0 v => produceResponseV0.enc v
  | .produce2 v => produceResponseV2.enc v
  | .fetch0 v => (fetchResponseV0 Crc.crc32).enc v
  | .fetch2 v => (fetchResponseV2 Crc.crc32).enc v
  | .listOffsets v => listOffsetsResponse.enc v
  | .metadata v => metadataResponse.enc v
  | .findCoordinator v => findCoordinatorResponse.enc v
  | .offsetCommit v => offsetCommitResponse.enc v
  | .offsetFetch v => offsetFetchResponse.enc v
  | .joinGroup v => joinGroupResponse.enc v
  | .syncGroup v => syncGroupResponse.enc v
  | .heartbeat v => errorOnlyResponse.enc v
  | .leaveGroup v => errorOnlyResponse.enc v
  | .apiVersions v => apiVersionsResponse.enc v
  | .subscription v => Spec.subscription.enc v
  | .assignment v => Spec.assignment.enc v
  | .correlationId c rest => int32.enc c ++ rest

def genExpected {α : Type} (f : α → V) (e : Option (List α × Bool)) : Option (List String) :=
  e.map (fun p => [genLine (p.1.map f) "ok"])

/-- the answer line `Afkak.Monitor.C05` demands of the decoder for `Spec.X.enc v`
    (`none` = `v` is outside the property's quantifier) -/
def SpecVal.expected (s : St) : SpecVal → Option (List String)
  | .msgSet v => (Monitor.C05.expectedSet Crc.crc32 s.gunzipOpt (s.depth - 1) v).map (fun g => [showGen g])
  | .produce0 v => genExpected vProduce (Monitor.C05.expectedProduceV0 v)
  | .produce2 v => genExpected vProduce (Monitor.C05.expectedProduceV2 v)
  | .fetch0 v => genExpected vFetch (Monitor.C05.expectedFetchV0 Crc.crc32 s.gunzipOpt (s.depth - 1) v)
  | .fetch2 v => genExpected vFetch (Monitor.C05.expectedFetchV2 Crc.crc32 s.gunzipOpt (s.depth - 1) v)
  | .listOffsets v => genExpected vOffset (Monitor.C05.expectedListOffsets v)
  | .metadata v => (Monitor.C05.expectedMetadata v).map (fun r => ["ok " ++ (vMetadata r).render])
  | .findCoordinator v => (Monitor.C05.expectedFindCoordinator v).map (fun r => ["ok " ++ (vConsumerMetadata r).render])
  | .offsetCommit v => genExpected vOffsetCommit (Monitor.C05.expectedOffsetCommit v)
  | .offsetFetch v => genExpected vOffsetFetch (Monitor.C05.expectedOffsetFetch v)
  | .joinGroup v => (Monitor.C05.expectedJoinGroup v).map (fun r => ["ok " ++ (vJoinGroup r).render])
  | .syncGroup v => (Monitor.C05.expectedSyncGroup v).map (fun r => ["ok " ++ (vSyncGroup r).render])
  | .heartbeat v => (Monitor.C05.expectedErrorOnly v).map (fun r => ["ok " ++ (V.int r).render])
  | .leaveGroup v => (Monitor.C05.expectedErrorOnly v).map (fun r => ["ok " ++ (V.int r).render])
  | .apiVersions v => (Monitor.C05.expectedApiVersions v).map (fun r => ["ok " ++ (vApiVersions r).render])
  | .subscription v => (Monitor.C05.expectedSubscription v).map (fun r => ["ok " ++ (vSubscription r).render])
  | .assignment v => (Monitor.C05.expectedAssignment v).map (fun r => ["ok " ++ (vAssignment r).render])
  | .correlationId c _ => (Monitor.C05.expectedCorrelationId c).map (fun r => ["ok " ++ (V.int r).render])

/-! ### the grammar in the other direction, and requests (cross-check against `harness/sim/refcodec.py`) -/

def r2 {α β : Type} (f : α → V) (g : β → V) (p : α × β) : V := .list [f p.1, g p.2]
def r3 {α β γ : Type} (f : α → V) (g : β → V) (h : γ → V) (p : α × β × γ) : V := .list [f p.1, g p.2.1, h p.2.2]
def r4 {α β γ δ : Type} (f : α → V) (g : β → V) (h : γ → V) (i : δ → V) (p : α × β × γ × δ) : V :=
  .list [f p.1, g p.2.1, h p.2.2.1, i p.2.2.2]
def r5 {α β γ δ ε : Type} (f : α → V) (g : β → V) (h : γ → V) (i : δ → V) (j : ε → V) (p : α × β × γ × δ × ε) : V :=
  .list [f p.1, g p.2.1, h p.2.2.1, i p.2.2.2.1, j p.2.2.2.2]
def rl {α : Type} (f : α → V) (l : List α) : V := .list (l.map f)
def ri : Int → V := V.int
def rb : Bytes → V := V.bytes
def rob : Option Bytes → V := optBytes

def vOfSpecMsg (m : Msg) : V := .list [.int m.magic, .int m.attributes, optInt m.timestamp, optBytes m.key, optBytes m.value]
def vOfEntries : List (Int × Msg) → V := rl (r2 ri vOfSpecMsg)
def rTopics {α : Type} (f : α → V) : List (Bytes × List α) → V := rl (r2 rb (rl f))

def SpecVal.render : SpecVal → V
  | .msgSet v => vOfEntries v
  | .produce0 v => r2 ri (rTopics (r3 ri ri ri)) v
  | .produce2 v => r3 ri (rTopics (r4 ri ri ri ri)) ri v
  | .fetch0 v => r2 ri (rTopics (r4 ri ri ri vOfEntries)) v
  | .fetch2 v => r3 ri ri (rTopics (r4 ri ri ri vOfEntries)) v
  | .listOffsets v => r2 ri (rTopics (r3 ri ri (rl ri))) v
  | .metadata v => r3 ri (rl (r3 ri rb ri)) (rl (r3 ri rb (rl (r5 ri ri ri (rl ri) (rl ri))))) v
  | .findCoordinator v => r5 ri ri ri rb ri v
  | .offsetCommit v => r2 ri (rTopics (r2 ri ri)) v
  | .offsetFetch v => r2 ri (rTopics (r4 ri ri rob ri)) v
  | .joinGroup (c, e, g, p, l, m, ms) => .list [.int c, .int e, .int g, .bytes p, .bytes l, .bytes m, rl (r2 rb rb) ms]
  | .syncGroup v => r3 ri ri rb v
  | .heartbeat v => r2 ri ri v
  | .leaveGroup v => r2 ri ri v
  | .apiVersions v => r3 ri ri (rl (r3 ri ri ri)) v
  | .subscription v => r3 ri (rl rb) rob v
  | .assignment v => r3 ri (rl (r2 rb (rl ri))) rob v
  | .correlationId c rest => .list [.int c, .bytes rest]

/-- `Spec.X.dec` on a whole byte string (nothing may be left over) -/
def specDec (kind : String) (bs : Bytes) : Option SpecVal :=
  let all {α : Type} (c : Codec α) (k : α → SpecVal) : Option SpecVal := ((whole c).dec bs).map k
  match kind with
  | "msgset" => ((messageSet Crc.crc32).dec bs).map .msgSet
  | "produce0" => all produceResponseV0 .produce0
  | "produce2" => all produceResponseV2 .produce2
  | "fetch0" => all (fetchResponseV0 Crc.crc32) .fetch0
  | "fetch2" => all (fetchResponseV2 Crc.crc32) .fetch2
  | "offset" => all listOffsetsResponse .listOffsets
  | "metadata" => all metadataResponse .metadata
  | "consumermetadata" => all findCoordinatorResponse .findCoordinator
  | "offset_commit" => all offsetCommitResponse .offsetCommit
  | "offset_fetch" => all offsetFetchResponse .offsetFetch
  | "join_group" => all joinGroupResponse .joinGroup
  | "sync_group" => all syncGroupResponse .syncGroup
  | "heartbeat" => all errorOnlyResponse .heartbeat
  | "leave_group" => all errorOnlyResponse .leaveGroup
  | "api_versions" => all apiVersionsResponse .apiVersions
  | "join_group_protocol_metadata" => all Spec.subscription .subscription
  | "sync_group_member_assignment" => all Spec.assignment .assignment
  | _ => none

/-- a whole request of the grammar: header and body, by API -/
inductive SpecReq
  | produce (h : Header) (b : Spec.ProduceReq)
  | fetch (h : Header) (b : Spec.FetchReq)
  | listOffsets (h : Header) (b : Spec.ListOffsetsReq)
  | metadata (h : Header) (b : List Bytes)
  | offsetCommit (h : Header) (b : Spec.OffsetCommitReq)
  | offsetFetch (h : Header) (b : Spec.OffsetFetchReq)
  | findCoordinator (h : Header) (b : Bytes)
  | joinGroup (h : Header) (b : Spec.JoinGroupReq)
  | syncGroup (h : Header) (b : Spec.SyncGroupReq)
  | heartbeat (h : Header) (b : Spec.HeartbeatReq)
  | leaveGroup (h : Header) (b : Spec.LeaveGroupReq)
  | apiVersions (h : Header)

def headerOfV : V → Option Header
  | .list [.int k, .int v, .int c, cid] => cid.toOptBytes?.map (fun cid => ⟨k, v, c, cid⟩)
  | _ => none

def vOfHeader (h : Header) : V := .list [.int h.apiKey, .int h.apiVersion, .int h.correlationId, optBytes h.clientId]

def parseSpecReq (api : String) (hv bv : V) : Option SpecReq := do
  let h ← headerOfV hv
  match api with
  | "produce" => (t3 vi vi (specTopics (t2 vi specEntriesOfV)) bv).map (.produce h)
  | "fetch" => (t4 vi vi vi (specTopics (t3 vi vi vi)) bv).map (.fetch h)
  | "offset" => (t2 vi (specTopics (t3 vi vi vi)) bv).map (.listOffsets h)
  | "metadata" => (tl vb bv).map (.metadata h)
  | "offset_commit" => (t4 vb vi vb (specTopics (t4 vi vi vi vob)) bv).map (.offsetCommit h)
  | "offset_fetch" => (t2 vb (specTopics vi) bv).map (.offsetFetch h)
  | "consumermetadata" => (vb bv).map (.findCoordinator h)
  | "join_group" => (t5 vb vi vb vb (tl (t2 vb vb)) bv).map (.joinGroup h)
  | "sync_group" => (t4 vb vi vb (tl (t2 vb vb)) bv).map (.syncGroup h)
  | "heartbeat" => (t3 vb vi vb bv).map (.heartbeat h)
  | "leave_group" => (t2 vb vb bv).map (.leaveGroup h)
  | "api_versions" => some (.apiVersions h)
  | _ => none

def SpecReq.enc : SpecReq → Bytes
  | .produce h b => (request (produceRequest Crc.crc32)).enc (h, b)
  | .fetch h b => (request fetchRequest).enc (h, b)
  | .listOffsets h b => (request listOffsetsRequest).enc (h, b)
  | .metadata h b => (request metadataRequest).enc (h, b)
  | .offsetCommit h b => (request offsetCommitRequest).enc (h, b)
  | .offsetFetch h b => (request offsetFetchRequest).enc (h, b)
  | .findCoordinator h b => (request findCoordinatorRequest).enc (h, b)
  | .joinGroup h b => (request joinGroupRequest).enc (h, b)
  | .syncGroup h b => (request syncGroupRequest).enc (h, b)
  | .heartbeat h b => (request heartbeatRequest).enc (h, b)
  | .leaveGroup h b => (request leaveGroupRequest).enc (h, b)
  | .apiVersions h => (request apiVersionsRequest).enc (h, ())

def SpecReq.render : SpecReq → V
  | .produce h b => .list [vOfHeader h, r3 ri ri (rTopics (r2 ri vOfEntries)) b]
  | .fetch h b => .list [vOfHeader h, r4 ri ri ri (rTopics (r3 ri ri ri)) b]
  | .listOffsets h b => .list [vOfHeader h, r2 ri (rTopics (r3 ri ri ri)) b]
  | .metadata h b => .list [vOfHeader h, rl rb b]
  | .offsetCommit h b => .list [vOfHeader h, r4 rb ri rb (rTopics (r4 ri ri ri rob)) b]
  | .offsetFetch h b => .list [vOfHeader h, r2 rb (rTopics ri) b]
  | .findCoordinator h b => .list [vOfHeader h, rb b]
  | .joinGroup h b => .list [vOfHeader h, r5 rb ri rb rb (rl (r2 rb rb)) b]
  | .syncGroup h b => .list [vOfHeader h, r4 rb ri rb (rl (r2 rb rb)) b]
  | .heartbeat h b => .list [vOfHeader h, r3 rb ri rb b]
  | .leaveGroup h b => .list [vOfHeader h, r2 rb rb b]
  | .apiVersions h => .list [vOfHeader h, .list []]

def specDecReq (api : String) (bs : Bytes) : Option SpecReq :=
  match api with
  | "produce" => ((request (produceRequest Crc.crc32)).dec bs).map (fun p => .produce p.1 p.2)
  | "fetch" => ((request fetchRequest).dec bs).map (fun p => .fetch p.1 p.2)
  | "offset" => ((request listOffsetsRequest).dec bs).map (fun p => .listOffsets p.1 p.2)
  | "metadata" => ((request metadataRequest).dec bs).map (fun p => .metadata p.1 p.2)
  | "offset_commit" => ((request offsetCommitRequest).dec bs).map (fun p => .offsetCommit p.1 p.2)
  | "offset_fetch" => ((request offsetFetchRequest).dec bs).map (fun p => .offsetFetch p.1 p.2)
  | "consumermetadata" => ((request findCoordinatorRequest).dec bs).map (fun p => .findCoordinator p.1 p.2)
  | "join_group" => ((request joinGroupRequest).dec bs).map (fun p => .joinGroup p.1 p.2)
  | "sync_group" => ((request syncGroupRequest).dec bs).map (fun p => .syncGroup p.1 p.2)
  | "heartbeat" => ((request heartbeatRequest).dec bs).map (fun p => .heartbeat p.1 p.2)
  | "leave_group" => ((request leaveGroupRequest).dec bs).map (fun p => .leaveGroup p.1 p.2)
  | "api_versions" => ((request apiVersionsRequest).dec bs).map (fun p => .apiVersions p.1)
  | _ => none

end SpecValues

/-! ## version selection -/

def tableOfV (l : List V) : Option (List ApiVersion) :=
  l.mapM (fun e => match e with
    | .list [.int k, .int lo, .int hi] => some (⟨k, lo, hi⟩ : ApiVersion)
    | _ => none)

def stateOfV : V → Option ApiVersionsState
  | .null => some .undiscovered
  | .int 0 => some .legacy
  | .list l => (tableOfV l).map .table
  | _ => none

def vOfState : ApiVersionsState → V
  | .undiscovered => .null
  | .legacy => .int 0
  | .table t => .list (t.map (fun v => .list [.int v.apiKey, .int v.minVersion, .int v.maxVersion]))

def attemptOfV : V → Option Attempt
  | .null => some .unavailable
  | .bytes b => some (.reply b)
  | _ => none

/-! ## the step function -/

def optRes {α : Type} (f : α → List String) : Option α → List String
  | none => ["bad-op"]
  | some a => f a

/-- split the tokens at the first `|` -/
def splitBar : List String → List String × List String
  | [] => ([], [])
  | "|" :: rest => ([], rest)
  | t :: rest => let (a, b) := splitBar rest; (t :: a, b)

def step (s : St) (line : String) : St × List String :=
  match Driver.words line with
  | [] => (s, ["bad-op"])
  | "enc" :: api :: toks =>
    (match V.parseMany (toks.length + 1) toks with
     | none => (s, ["bad-op"])
     | some rest => (s, optRes (fun (r : Req) => showR ((r.encode s).map .bytes)) (parseReq api rest)))
  | "dec" :: api :: toks =>
    (match V.parseMany (toks.length + 1) toks with
     | none => (s, ["bad-op"])
     | some rest => (s, optRes id (decResponse s api rest)))
  | "mon-c04" :: api :: toks =>
    -- the caller's arguments as for `enc`, then the frame the real encoder produced
    (match V.parseMany (toks.length + 1) toks with
     | none => (s, ["bad-op"])
     | some args =>
       match args.getLast?, parseReq api args.dropLast with
       | some (.bytes frame), some r => (s, optRes (fun (v : Monitor.C04.Verdict) => [v.name]) (r.monitor s frame))
       | _, _ => (s, ["bad-op"]))
  | "must-c04" :: api :: toks =>
    -- the caller's arguments as for `enc`, sent when the REAL encoder refused them
    (match V.parseMany (toks.length + 1) toks with
     | none => (s, ["bad-op"])
     | some args => (s, optRes (fun (b : Bool) => if b then ["fail", "must-encode"] else ["out-of-range"])
         ((parseReq api args).bind (fun r => r.must s))))
  | "spec-enc" :: kind :: toks =>
    (match V.parseAll toks with
     | none => (s, ["bad-op"])
     | some v => (s, optRes (fun (sv : SpecVal) => ["ok " ++ (V.bytes sv.enc).render]) (parseSpecVal kind v)))
  | "spec-dec" :: kind :: toks =>
    (match V.parseAll toks with
     | some (.bytes bs) => (s, match specDec kind bs with
        | some sv => ["ok " ++ sv.render.render]
        | none => ["reject"])
     | _ => (s, ["bad-op"]))
  | "spec-enc-req" :: api :: toks =>
    (match V.parseMany (toks.length + 1) toks with
     | some [hv, bv] => (s, optRes (fun (r : SpecReq) => ["ok " ++ (V.bytes r.enc).render]) (parseSpecReq api hv bv))
     | _ => (s, ["bad-op"]))
  | "spec-dec-req" :: api :: toks =>
    (match V.parseAll toks with
     | some (.bytes bs) => (s, match specDecReq api bs with
        | some r => ["ok " ++ r.render.render]
        | none => ["reject"])
     | _ => (s, ["bad-op"]))
  | "mon-c05" :: kind :: toks =>
    -- `<value> | <the answer line of the real decoder>`
    (let (vt, observed) := splitBar toks
     match V.parseAll vt with
     | none => (s, ["bad-op"])
     | some v => (s, optRes (fun (sv : SpecVal) =>
         match sv.expected s with
         | none => ["out-of-range"]
         | some e => if e == [" ".intercalate observed] then ["ok"] else ["fail", "expected " ++ " ".intercalate e]) (parseSpecVal kind v)))
  | cmd :: toks =>
    match V.parseMany (toks.length + 1) toks with
    | none => (s, ["bad-op"])
    | some args =>
      match cmd, args with
      -- externals
      | "ext-clear", [] => ({ s with gunzip := [], gzip := [] }, ["ok"])
      | "ext-now", [.int t] => ({ s with now := t }, ["ok"])
      | "ext-depth", [.int d] => ({ s with depth := d.toNat }, ["ok"])
      | "ext-gunzip", [inp, .bytes out] =>
        (match inp.toOptBytes? with
         | some i => ({ s with gunzip := (i, .ok out) :: s.gunzip }, ["ok"])
         | none => (s, ["bad-op"]))
      | "ext-gunzip-err", [inp] =>
        (match inp.toOptBytes? with
         | some i => ({ s with gunzip := (i, .error .gunzip) :: s.gunzip }, ["ok"])
         | none => (s, ["bad-op"]))
      | "ext-gzip", [.bytes inp, .bytes out] => ({ s with gzip := (inp, .ok out) :: s.gzip }, ["ok"])
      -- primitives
      | "slice", [.bytes d, .int lo, .int hi] => (s, ["ok " ++ (V.bytes (Bytes.pySlice d lo hi)).render])
      | "pack", [f, vs] =>
        (s, optRes (fun (p : List Char × List Int) => showR ((pack p.1 p.2).map .bytes))
          (do let f ← fmtOf f; let vs ← ints? vs; some (f, vs)))
      | "runpack", [f, .bytes d, .int cur] =>
        (s, optRes (fun f => showR ((relativeUnpack f d cur).map (fun (vs, c) => .list [vInts vs, .int c]))) (fmtOf f))
      | "runpackn", [f, .int n, .bytes d, .int cur] =>
        (s, optRes (fun f => showR ((relativeUnpackN f n d cur).map (fun (vs, c) => .list [vInts vs, .int c]))) (fmtOf f))
      -- afkak.codec.snappy_decode / snappy_encode with a stub `snappy` module (decompress = compress = identity);
      -- `fuel` = the stub's call budget + 1 (the real stub raises on call number budget + 1)
      | "xerial", [.bytes d, .int fuel] => (s, showR ((snappyDecode (fun b => .ok b) fuel.toNat d).map .bytes))
      | "xerial-enc", [.list cs] =>
        (match cs.mapM (fun v => match v with | .bytes b => some b | _ => none) with
         | some chunks => (s, ["ok " ++ (V.bytes (xerialEncode id chunks)).render])
         | none => (s, ["bad-op"]))
      | "rsb", [.bytes d, .int cur] => (s, showR ((readShortBytes d cur).map (fun (b, c) => .list [optBytes b, .int c])))
      | "ris", [.bytes d, .int cur] => (s, showR ((readIntString d cur).map (fun (b, c) => .list [optBytes b, .int c])))
      | "rsa", [.bytes d, .int cur] => (s, showR ((readShortAscii d cur).map (fun (b, c) => .list [.bytes b, .int c])))
      | "rst", [.bytes d, .int cur] => (s, showR ((readShortText d cur).map (fun (b, c) => .list [.bytes b, .int c])))
      | "wsb", [b] => (s, optRes (fun b => showR ((writeShortBytes b).map .bytes)) b.toOptBytes?)
      | "wis", [b] => (s, optRes (fun b => showR ((writeIntString b).map .bytes)) b.toOptBytes?)
      | "wsa", [b] => (s, optRes (fun b => showR ((writeShortAscii b).map .bytes)) b.toOptBytes?)
      | "wst", [b] => (s, optRes (fun b => showR ((writeShortText b).map .bytes)) b.toOptBytes?)
      | "wcrc", [.bytes d] => (s, ["ok " ++ (V.int (Crc.crc32 d)).render])
      | "group", [.list ps] =>
        (s, optRes (fun (ps : List (Option Bytes × Int × Int)) =>
            let g := groupByTopicPartition (fun p => p.1) (fun p => p.2.1) ps
            ["ok " ++ (V.list (g.map (fun (t, inner) =>
              .list [optBytes t, .list (inner.map (fun (p, x) => .list [.int p, .int x.2.2]))]))).render])
          ((ps.zipIdx).mapM (fun (p, i) => match p with
            | .list [t, .int part] => t.toOptBytes?.map (fun t => (t, part, (i : Int)))
            | _ => none)))
      -- messages
      | "enc-msg", [m] => (s, optRes (fun m => showR ((encodeMessage s.ext m).map .bytes)) (msgOfV m))
      | "enc-set", [ms, off, .int magic] =>
        (s, optRes (fun (p : List Message × Option Int) => showR ((encodeMessageSet s.ext p.1 p.2 magic).map .bytes))
          (do let ms ← msgsOfV ms; let off ← off.toOptInt?; some (ms, off)))
      | "mon-c04-set", [ms, off, .bytes data] =>
        (s, optRes (fun (p : List Message × Option Int) => [(Monitor.C04.messageSet Crc.crc32 s.now p.1 p.2 data).name])
          (do let ms ← msgsOfV ms; let off ← off.toOptInt?; some (ms, off)))
      | "dec-set", [d] =>
        (s, optRes (fun d => [showGen (decodeMessageSetOpt s.ext s.depth d)]) d.toOptBytes?)
      | "create-set", [.list reqs, .int codec, .int magic] =>
        (s, optRes (fun reqs => showR ((createMessageSet s.ext reqs codec magic).map (fun ms => .list (ms.map vOfMsg))))
          (reqs.mapM (fun r => match r with
            | .list [k, .list ps] => do let k ← k.toOptBytes?; let ps ← ps.mapM V.toOptBytes?; some (k, ps)
            | _ => none)))
      -- version selection
      | "get-api-version", [st, .int key, .list attempts] =>
        (s, optRes (fun (p : ApiVersionsState × List Attempt) =>
            match getApiVersion p.1 key p.2 with
            | none => ["pending"]
            | some (.error e) => ["error " ++ e.name]
            -- new state, version returned, and the format the producer had chosen BEFORE the call
            | some (.ok (st', v)) => ["ok " ++ (V.list [vOfState st', .int v, .int (producerMagic p.1)]).render])
          (do let st ← stateOfV st; let atts ← attempts.mapM attemptOfV; some (st, atts)))
      -- the public fetch_api_versions() in any state: [new state, error_code returned, api_versions returned]
      | "fetch-api-versions", [st, .list attempts] =>
        (s, optRes (fun (p : ApiVersionsState × List Attempt) =>
            match fetchApiVersionsCall p.1 p.2 with
            | none => ["pending"]
            | some (.error e) => ["error " ++ e.name]
            | some (.ok (st', err, vs)) => ["ok " ++ (V.list [vOfState st', .int err, vOfState (.table vs)]).render])
          (do let st ← stateOfV st; let atts ← attempts.mapM attemptOfV; some (st, atts)))
      -- the glue of send_produce_request / send_fetch_request: [new state, version to the encoder,
      -- version to the decoder (n = no decoder), version the request header will carry]
      | "glue-produce", [st, .list attempts, .int acks] =>
        (s, optRes (fun (p : ApiVersionsState × List Attempt) =>
            match sendProduceVersions p.1 p.2 acks with
            | none => ["pending"]
            | some (.error e) => ["error " ++ e.name]
            | some (.ok (st', ve, vd)) =>
              ["ok " ++ (V.list [vOfState st', .int ve, optInt vd, .int (produceClamp ve).1, .int (producerMagic p.1)]).render])
          (do let st ← stateOfV st; let atts ← attempts.mapM attemptOfV; some (st, atts)))
      | "glue-fetch", [st, .list attempts] =>
        (s, optRes (fun (p : ApiVersionsState × List Attempt) =>
            match sendFetchVersions p.1 p.2 with
            | none => ["pending"]
            | some (.error e) => ["error " ++ e.name]
            | some (.ok (st', ve, vd)) => ["ok " ++ (V.list [vOfState st', .int ve, .int vd, .int (fetchClamp ve)]).render])
          (do let st ← stateOfV st; let atts ← attempts.mapM attemptOfV; some (st, atts)))
      | "produce-clamp", [.int v] => (s, ["ok " ++ (V.list [.int (produceClamp v).1, .int (produceClamp v).2]).render])
      | "fetch-clamp", [.int v] => (s, ["ok " ++ (V.int (fetchClamp v)).render])
      | "mon-version", [.list table, .int key, .int headerVersion, magics] =>
        (s, optRes (fun (p : List ApiVersion × List Int) => [(Monitor.C04.versionVerdict p.1 key headerVersion p.2).name])
          (do let t ← tableOfV table; let ms ← ints? magics; some (t, ms)))
      | "mon-fallback", [.int headerVersion, magics] =>
        (s, optRes (fun ms => [if Monitor.C04.fallbackOk headerVersion ms then "ok" else "fail"]) (ints? magics))
      | _, _ => (s, ["bad-op"])

end Driver.Wire

def main : IO UInt32 := do
  Driver.loop (← IO.getStdin) (← IO.getStdout) ({} : Driver.Wire.St) Driver.Wire.step
  return 0
