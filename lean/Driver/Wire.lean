import Driver.Util
/-! Driver for the `Wire` component (stub until the component is built). -/
namespace Driver.Wire

def step (st : Unit) (_line : String) : Unit × List String := (st, ["bad-op"])

end Driver.Wire

def main : IO UInt32 := do
  Driver.loop (← IO.getStdin) (← IO.getStdout) () Driver.Wire.step
  return 0
