import Afkak.Generated.Consts
import Afkak.Murmur
import Afkak.Partitioner
import Afkak.Monitor.C18
