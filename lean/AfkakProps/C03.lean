import AfkakProofs.Consumer.Trace
/-!
# C03 — commits never run ahead of successfully processed messages
-/
namespace Afkak.Props.C03
open Afkak.Consumer Afkak.Monitor Afkak.Proofs.Consumer

/-- Every commit request carries the offset of the last SUCCESSFULLY processed block at the moment it
    is issued (manual, count- and time-triggered, retried, from `shutdown()`), on every trace. -/
theorem C03_commit_le_processed (cfg : Cfg) (script : List PEntry) (evs : List Ev) :
    C03.commitLeProcessedOk (trace cfg script evs) = true :=
  accepts_trace _ _ cfg script evs (run_top cfg script evs).1.g1.clpOk

/-- At most one (uncancelled) commit request is outstanding at any time, on every trace. -/
theorem C03_one_in_flight (cfg : Cfg) (script : List PEntry) (evs : List Ev) :
    C03.oneInFlightOk (trace cfg script evs) = true :=
  accepts_trace _ _ cfg script evs (run_top cfg script evs).1.g1.oifOk

end Afkak.Props.C03

/- OBLIGATIONS
C03_commit_le_processed
C03_one_in_flight
-/
/- OPEN_STATEMENTS
-/
