import AfkakProofs.Consumer.Trace
import AfkakProofs.Consumer.A5_CR1
import AfkakProofs.Consumer.A5_TwoRuns5
import AfkakProofs.Consumer.A5_Succ4
import AfkakProofs.Consumer.A5_Rec2
import AfkakProps.Open.C03
/-!
# C03 — commits never run ahead of successfully processed messages
-/
namespace Afkak.Props.C03
open Afkak.Consumer Afkak.Monitor Afkak.Proofs.Consumer

/-- Every commit request carries the offset of the last SUCCESSFULLY processed block at the moment it
    is issued (manual, count- and time-triggered, retried, from `shutdown()`), on every trace. -/
theorem C03_commit_le_processed (cfg : Cfg) (script : List PEntry) (evs : List Ev) :
    C03.commitLeProcessedOk (trace cfg script evs) = true :=
  accepts_trace _ _ cfg script evs (run_g1 cfg script evs).clpOk

/-- At most one (uncancelled) commit request is outstanding at any time, on every trace. -/
theorem C03_one_in_flight (cfg : Cfg) (script : List PEntry) (evs : List Ev) :
    C03.oneInFlightOk (trace cfg script evs) = true :=
  accepts_trace _ _ cfg script evs (run_g1 cfg script evs).oifOk

/-- `last_committed_offset` only ever takes a value the broker acknowledged (the offset of a commit
    request whose reply was a success) or reported (an OffsetFetchResponse), on every trace. -/
theorem C03_committed_is_acked (cfg : Cfg) (script : List PEntry) (evs : List Ev) :
    C03.committedAckedOk (trace cfg script evs) = true :=
  accepts_trace _ _ cfg script evs (run_ack cfg script evs).ackOk

/-- Started from the committed position `c ≥ 0`, the next FetchRequest the consumer issues is at
    `c + 1` (whatever else happens in between, short of a restart), on every trace. -/
theorem C03_resume (cfg : Cfg) (script : List PEntry) (evs : List Ev) :
    C03.resumeOk (trace cfg script evs) = true :=
  accepts_trace _ _ cfg script evs (run_res cfg script evs).resOk

/-- After a processor failure - the processor raising, or the Deferred it returned failing - nothing more is
    handed to the processor (so nothing more can count as processed, or be committed) until the consumer is
    started again, on every trace: whatever the failure kind, whatever replies were parked or arrive later,
    whatever stop/shutdown/commit calls follow. -/
theorem C03_failure_stops_progress (cfg : Cfg) (script : List PEntry) (evs : List Ev) :
    C03.failureStopsOk (trace cfg script evs) = true :=
  accepts_trace _ _ cfg script evs (run_halt cfg script evs).haltOk

/-- Crash safety: cut the run at ANY point (every prefix of every event list is a run): every commit request
    issued so far carried an offset that successfully processed blocks cover, and no block was delivered
    after a processor failure - a process that dies there and restarts from the stored offset skips nothing
    that was not processed. -/
theorem C03_crash_safe (cfg : Cfg) (script : List PEntry) (evs : List Ev) (n : Nat) :
    C03.commitLeProcessedOk (trace cfg script (evs.take n)) = true ∧
      C03.failureStopsOk (trace cfg script (evs.take n)) = true :=
  ⟨C03_commit_le_processed cfg script (evs.take n), C03_failure_stops_progress cfg script (evs.take n)⟩

/-- A manual `commit()` (called by the application or re-entrantly by the processor) whose Deferred succeeds AT ONCE,
    without a commit request being issued, reports the last successfully processed offset (or nothing has been
    processed yet), on every trace. -/
theorem C03_commit_reports : Open.C03.C03_commit_reports := fun cfg script evs =>
  accepts_trace _ _ cfg script evs (A5.run_e cfg script evs).c1

/-! Non-vacuity: `start(OFFSET_COMMITTED)`, the coordinator reports offset 41, the consumer fetches at 42. -/
example :
    let cfg : Cfg := { group := true, autoN := 0, autoS := 0, bufInit := 100, bufMax := none, retryInit := 1, retryMax := 2,
                       maxAttempts := 0, reset := none }
    (trace cfg [] [.start Afkak.Consts.offsetCommitted, .offsetFetchOk 0 41]).filterMap
        (fun | .ob (.fetch k off _) => some (k, off) | _ => none) = [(1, 42)] := by
  decide +kernel

/-- A block of messages is handed to the processor only after the processing of the previous block SUCCEEDED (the processor
    returned, or the Deferred it returned fired with a result) or after a `start()`, on every trace (`A5.blkStep`,
    `AfkakProofs/Consumer/A5_Succ1.lean`): a block whose processing failed, was cancelled, or never finished is the last one
    of its run - so within one run everything delivered before the block a commit request refers to was processed
    successfully.  (Stronger than `C03_failure_stops_progress`: also a processor raising CancelledError, a cancelled
    Deferred, a processor that stops the consumer re-entrantly.) -/
theorem C03_next_block_after_success (cfg : Cfg) (script : List PEntry) (evs : List Ev) :
    A5.blocksSucceedOk (trace cfg script evs) = true :=
  A5.blocksSucceed_trace cfg script evs

/-- An acknowledged commit is recorded: when the consumer takes the success reply to commit request `k` (issued for offset
    `v`), `last_committed_offset` is `v` once that reply has been handled - whatever the callbacks of the commit Deferreds
    do in between (shutdown continuations, a further commit) -, on every trace (`C03.ackRecordedOk`,
    `Afkak/Monitor/C03Store.lean`; until session 5 this monitor was evaluated on implementation traces only). -/
theorem C03_ack_recorded (cfg : Cfg) (script : List PEntry) (evs : List Ev) :
    C03.ackRecordedOk (trace cfg script evs) = true :=
  A5.ackRecorded_trace cfg script evs

/-! ## Two consecutive runs sharing the coordinator's offset store ("a restarted consumer in the same group resumes
exactly after the last committed message")

Notions (decidable functions over traces, `AfkakProofs/Consumer/A5_TwoRuns1.lean`): `A5.delivered tr` = the messages handed
to the processor, in order; `A5.commitOffs tr` = the offsets of the commit requests issued; `A5.storeOf tr` = the offset of
the last commit request whose acknowledgement the consumer took (what the coordinator holds when the run ends);
`A5.committed stored ms` = the messages of `ms` up to offset `stored`; `A5.oneSegment tr` = from the first block handed to
the processor on, no `start()` and no offset reset; `A5.resumedFrom stored tr` = the first coordinator answer to an
OffsetFetchRequest carried `stored`, nothing was handed to the processor before it, afterwards no `start()`, no offset
reset, no second answer; `A5.firstFetchAfterAnswer tr` = the offset of the first FetchRequest after that answer;
`Open.C02.chainOk log ms` = each message of `ms` is the log entry following the one before it. -/

/-- Run 1 (any configuration, processor script, event list) delivers in one segment and ends with `stored ≥ 0` in the
    coordinator's store; run 2 (any configuration, script, event list: another consumer object of the group, or the same
    one after a crash) resumes from the coordinator's answer `stored`; both are served from the same partition log
    (`FaithfulLog`).  Then
    (a) run 2's first FetchRequest after the answer is at `stored + 1`, and the first message it hands to the processor is
        the first log entry at or after `stored + 1`;
    (b) `stored` is the offset of a message run 1 handed to the processor (by `C03_commit_le_processed` the last one of a
        block whose processing SUCCEEDED), and the messages run 1 delivered up to `stored` - processed and committed -
        followed by everything run 2 delivers are the log, entry by entry: no gap, no duplicate.  (What run 1 delivered
        beyond `stored` was not committed and is delivered again by run 2: at least once overall, exactly once as far as
        committed.) -/
theorem C03_two_runs_exactly_once_committed (log : List Msg) (cfg1 : Cfg) (script1 : List PEntry) (evs1 : List Ev)
    (cfg2 : Cfg) (script2 : List PEntry) (evs2 : List Ev) (stored : Int)
    (hf1 : Open.C02.FaithfulLog log cfg1 script1 evs1) (hf2 : Open.C02.FaithfulLog log cfg2 script2 evs2)
    (h1 : A5.oneSegment (trace cfg1 script1 evs1) = true)
    (hst : A5.storeOf (trace cfg1 script1 evs1) = some stored) (h0 : 0 ≤ stored)
    (h2 : A5.resumedFrom stored (trace cfg2 script2 evs2) = true) :
    (∀ off, A5.firstFetchAfterAnswer (trace cfg2 script2 evs2) = some off → off = stored + 1) ∧
    (∀ y, (A5.delivered (trace cfg2 script2 evs2)).head? = some y → C02.firstFrom log (stored + 1) = some y) ∧
    (∃ x ∈ A5.delivered (trace cfg1 script1 evs1), x.off = stored) ∧
    Open.C02.chainOk log
      (A5.committed stored (A5.delivered (trace cfg1 script1 evs1)) ++ A5.delivered (trace cfg2 script2 evs2)) = true :=
  A5.two_runs log cfg1 script1 evs1 cfg2 script2 evs2 stored hf1 hf2 h1 (A5.storeOf_mem _ _ hst) h0 h2

/-- The same when the coordinator holds the offset of ANY commit request run 1 issued (a commit the broker applied but
    whose acknowledgement run 1 never took: cancelled by `stop()`, lost, or the process died first). -/
theorem C03_two_runs_unacknowledged_commit (log : List Msg) (cfg1 : Cfg) (script1 : List PEntry) (evs1 : List Ev)
    (cfg2 : Cfg) (script2 : List PEntry) (evs2 : List Ev) (stored : Int)
    (hf1 : Open.C02.FaithfulLog log cfg1 script1 evs1) (hf2 : Open.C02.FaithfulLog log cfg2 script2 evs2)
    (h1 : A5.oneSegment (trace cfg1 script1 evs1) = true)
    (hst : stored ∈ A5.commitOffs (trace cfg1 script1 evs1)) (h0 : 0 ≤ stored)
    (h2 : A5.resumedFrom stored (trace cfg2 script2 evs2) = true) :
    (∀ off, A5.firstFetchAfterAnswer (trace cfg2 script2 evs2) = some off → off = stored + 1) ∧
    (∀ y, (A5.delivered (trace cfg2 script2 evs2)).head? = some y → C02.firstFrom log (stored + 1) = some y) ∧
    (∃ x ∈ A5.delivered (trace cfg1 script1 evs1), x.off = stored) ∧
    Open.C02.chainOk log
      (A5.committed stored (A5.delivered (trace cfg1 script1 evs1)) ++ A5.delivered (trace cfg2 script2 evs2)) = true :=
  A5.two_runs log cfg1 script1 evs1 cfg2 script2 evs2 stored hf1 hf2 h1 hst h0 h2

/-- The same with every hypothesis on the INPUTS of the two runs (event lists) instead of their traces: run 1 is started
    once, at `off1`; run 2 is `start(OFFSET_COMMITTED)`, then the coordinator's answer `stored` to its OffsetFetchRequest,
    then any events other than a further `start()`, an answer to an offset look-up, or a second coordinator answer
    (`A5.isJumpEv`): fetch replies and errors, processor results, commits and their replies, timers, stop/shutdown, cancel
    outcomes, in any order.  `A5.oneSegment` / `A5.resumedFrom` then hold of the traces (`A5.oneSegment_of_events`,
    `A5.resumed_of_events`: every handler only appends observations, `AfkakProofs/Consumer/A5_TwoRuns4.lean`). -/
theorem C03_two_runs_event_lists (log : List Msg) (cfg1 : Cfg) (script1 : List PEntry) (off1 : Int) (evs1 : List Ev)
    (cfg2 : Cfg) (script2 : List PEntry) (evs2 : List Ev) (stored : Int)
    (hf1 : Open.C02.FaithfulLog log cfg1 script1 (.start off1 :: evs1))
    (hf2 : Open.C02.FaithfulLog log cfg2 script2 (.start Afkak.Consts.offsetCommitted :: .offsetFetchOk 0 stored :: evs2))
    (hev1 : evs1.all (fun e => !A5.isJumpEv e) = true) (hev2 : evs2.all (fun e => !A5.isJumpEv e) = true)
    (hst : A5.storeOf (trace cfg1 script1 (.start off1 :: evs1)) = some stored) (h0 : 0 ≤ stored) :
    (∀ off, A5.firstFetchAfterAnswer
        (trace cfg2 script2 (.start Afkak.Consts.offsetCommitted :: .offsetFetchOk 0 stored :: evs2)) = some off →
      off = stored + 1) ∧
    (∀ y, (A5.delivered (trace cfg2 script2 (.start Afkak.Consts.offsetCommitted :: .offsetFetchOk 0 stored :: evs2))).head? = some y →
      C02.firstFrom log (stored + 1) = some y) ∧
    (∃ x ∈ A5.delivered (trace cfg1 script1 (.start off1 :: evs1)), x.off = stored) ∧
    Open.C02.chainOk log (A5.committed stored (A5.delivered (trace cfg1 script1 (.start off1 :: evs1))) ++
      A5.delivered (trace cfg2 script2 (.start Afkak.Consts.offsetCommitted :: .offsetFetchOk 0 stored :: evs2))) = true :=
  A5.two_runs_events log cfg1 script1 off1 evs1 cfg2 script2 evs2 stored hf1 hf2 hev1 hev2 (A5.storeOf_mem _ _ hst) h0

/-- "Processed successfully AND committed": in a run that delivers in one segment against a faithful log, every message
    handed to the processor at or below the offset of ANY commit request of the run (so: at or below what the coordinator
    can hold afterwards) belongs to a block whose processing SUCCEEDED (`A5.succeeded`: the processor returned, or the
    Deferred it returned fired with a result).  With `C03_two_runs_exactly_once_committed`: the part of run 1 that the
    two-run chain keeps (`A5.committed stored …`) consists of successfully processed messages only. -/
theorem C03_committed_were_processed (log : List Msg) (cfg : Cfg) (script : List PEntry) (evs : List Ev)
    (hf : Open.C02.FaithfulLog log cfg script evs) (h1 : A5.oneSegment (trace cfg script evs) = true)
    (stored : Int) (hst : stored ∈ A5.commitOffs (trace cfg script evs)) :
    ∀ y ∈ A5.committed stored (A5.delivered (trace cfg script evs)), y ∈ A5.succeeded (trace cfg script evs) :=
  A5.committed_succeeded log cfg script evs hf h1 stored hst

/-! Non-vacuity: run 1 delivers offsets 0-1, commits 1 (acknowledged), then delivers 2 and ends without committing it; run 2
starts from the committed position, the coordinator answers 1, it fetches at 2 and delivers 2-3.  Every hypothesis (of the trace-level
and of the event-list-level theorem) holds; committed ++ run 2 = the log. -/
example :
    let log : List Msg := [⟨0, 10⟩, ⟨1, 11⟩, ⟨2, 12⟩, ⟨3, 13⟩]
    let cfg : Cfg := { group := true, autoN := 0, autoS := 0, bufInit := 100, bufMax := none, retryInit := 1, retryMax := 2,
                       maxAttempts := 0, reset := none }
    let evs1 : List Ev := [.start 0, .fetchOk 0 { msgs := [⟨0, 10⟩, ⟨1, 11⟩], tail := .done }, .commit, .commitOk 1, .retryFire,
                           .fetchOk 2 { msgs := [⟨2, 12⟩], tail := .done }]
    let evs2 : List Ev := [.start Afkak.Consts.offsetCommitted, .offsetFetchOk 0 1,
                           .fetchOk 1 { msgs := [⟨2, 12⟩, ⟨3, 13⟩], tail := .done }]
    Open.C02.FaithfulLog log cfg [] evs1 ∧ Open.C02.FaithfulLog log cfg [] evs2 ∧
      A5.oneSegment (trace cfg [] evs1) = true ∧ A5.storeOf (trace cfg [] evs1) = some 1 ∧
      A5.resumedFrom 1 (trace cfg [] evs2) = true ∧
      evs1.tail.all (fun e => !A5.isJumpEv e) = true ∧ (evs2.drop 2).all (fun e => !A5.isJumpEv e) = true ∧
      A5.delivered (trace cfg [] evs1) = [⟨0, 10⟩, ⟨1, 11⟩, ⟨2, 12⟩] ∧
      A5.firstFetchAfterAnswer (trace cfg [] evs2) = some 2 ∧
      A5.commitOffs (trace cfg [] evs1) = [1] ∧ A5.succeeded (trace cfg [] evs1) = [⟨0, 10⟩, ⟨1, 11⟩, ⟨2, 12⟩] ∧
      A5.committed 1 (A5.delivered (trace cfg [] evs1)) ++ A5.delivered (trace cfg [] evs2) = log := by
  refine ⟨A.faithfulB_sound _ _ _ _ (by decide +kernel), A.faithfulB_sound _ _ _ _ (by decide +kernel), by decide +kernel,
    by decide +kernel, by decide +kernel, by decide +kernel, by decide +kernel, by decide +kernel, by decide +kernel,
    by decide +kernel, by decide +kernel, by decide +kernel⟩

/-! Non-vacuity of `C03_committed_were_processed`, with a block that fails: blocks of one message, the first is processed and
committed (by count), the second makes the processor raise: delivered but not succeeded, and above the committed offset. -/
example :
    let log : List Msg := [⟨0, 10⟩, ⟨1, 11⟩]
    let cfg : Cfg := { group := true, autoN := 1, autoS := 0, bufInit := 100, bufMax := none, retryInit := 1, retryMax := 2,
                       maxAttempts := 0, reset := none }
    let script : List PEntry := [⟨[], .ok⟩, ⟨[], .err .kafka 7⟩]
    let evs : List Ev := [.start 0, .fetchOk 0 { msgs := [⟨0, 10⟩, ⟨1, 11⟩], tail := .done }]
    Open.C02.FaithfulLog log cfg script evs ∧ A5.oneSegment (trace cfg script evs) = true ∧
      A5.commitOffs (trace cfg script evs) = [0] ∧ A5.delivered (trace cfg script evs) = [⟨0, 10⟩, ⟨1, 11⟩] ∧
      A5.succeeded (trace cfg script evs) = [⟨0, 10⟩] := by
  refine ⟨A.faithfulB_sound _ _ _ _ (by decide +kernel), by decide +kernel, by decide +kernel, by decide +kernel,
    by decide +kernel⟩

end Afkak.Props.C03

/- OBLIGATIONS
C03_commit_le_processed
C03_one_in_flight
C03_committed_is_acked
C03_resume
C03_failure_stops_progress
C03_crash_safe
C03_commit_reports
C03_next_block_after_success
C03_ack_recorded
C03_two_runs_exactly_once_committed
C03_two_runs_unacknowledged_commit
C03_two_runs_event_lists
C03_committed_were_processed
-/
/- OPEN_STATEMENTS
-/
