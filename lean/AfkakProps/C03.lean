import AfkakProofs.Consumer.Trace
import AfkakProofs.Consumer.A5_CR1
import AfkakProofs.Consumer.A5_TwoRuns3
import AfkakProps.Open.C03
/-!
# C03 — commits never run ahead of successfully processed messages
-/
namespace Afkak.Props.C03
open Afkak.Consumer Afkak.Monitor Afkak.Proofs.Consumer

/-- Every commit request carries the offset of the last SUCCESSFULLY processed block at the moment it
    is issued (manual, count- and time-triggered, retried, from `shutdown()`), on every trace. -/
theorem C03_commit_le_processed (cfg : Cfg) (script : List PEntry) (evs : List Ev) :
    C03.commitLeProcessedOk (trace cfg script evs) = true :=
  accepts_trace _ _ cfg script evs (run_g1 cfg script evs).clpOk

/-- At most one (uncancelled) commit request is outstanding at any time, on every trace. -/
theorem C03_one_in_flight (cfg : Cfg) (script : List PEntry) (evs : List Ev) :
    C03.oneInFlightOk (trace cfg script evs) = true :=
  accepts_trace _ _ cfg script evs (run_g1 cfg script evs).oifOk

/-- `last_committed_offset` only ever takes a value the broker acknowledged (the offset of a commit
    request whose reply was a success) or reported (an OffsetFetchResponse), on every trace. -/
theorem C03_committed_is_acked (cfg : Cfg) (script : List PEntry) (evs : List Ev) :
    C03.committedAckedOk (trace cfg script evs) = true :=
  accepts_trace _ _ cfg script evs (run_ack cfg script evs).ackOk

/-- Started from the committed position `c ≥ 0`, the next FetchRequest the consumer issues is at
    `c + 1` (whatever else happens in between, short of a restart), on every trace. -/
theorem C03_resume (cfg : Cfg) (script : List PEntry) (evs : List Ev) :
    C03.resumeOk (trace cfg script evs) = true :=
  accepts_trace _ _ cfg script evs (run_res cfg script evs).resOk

/-- After a processor failure - the processor raising, or the Deferred it returned failing - nothing more is
    handed to the processor (so nothing more can count as processed, or be committed) until the consumer is
    started again, on every trace: whatever the failure kind, whatever replies were parked or arrive later,
    whatever stop/shutdown/commit calls follow. -/
theorem C03_failure_stops_progress (cfg : Cfg) (script : List PEntry) (evs : List Ev) :
    C03.failureStopsOk (trace cfg script evs) = true :=
  accepts_trace _ _ cfg script evs (run_halt cfg script evs).haltOk

/-- Crash safety: cut the run at ANY point (every prefix of every event list is a run): every commit request
    issued so far carried an offset that successfully processed blocks cover, and no block was delivered
    after a processor failure - a process that dies there and restarts from the stored offset skips nothing
    that was not processed. -/
theorem C03_crash_safe (cfg : Cfg) (script : List PEntry) (evs : List Ev) (n : Nat) :
    C03.commitLeProcessedOk (trace cfg script (evs.take n)) = true ∧
      C03.failureStopsOk (trace cfg script (evs.take n)) = true :=
  ⟨C03_commit_le_processed cfg script (evs.take n), C03_failure_stops_progress cfg script (evs.take n)⟩

/-- A manual `commit()` (called by the application or re-entrantly by the processor) whose Deferred succeeds AT ONCE,
    without a commit request being issued, reports the last successfully processed offset (or nothing has been
    processed yet), on every trace. -/
theorem C03_commit_reports : Open.C03.C03_commit_reports := fun cfg script evs =>
  accepts_trace _ _ cfg script evs (A5.run_e cfg script evs).c1

/-! Non-vacuity: `start(OFFSET_COMMITTED)`, the coordinator reports offset 41, the consumer fetches at 42. -/
example :
    let cfg : Cfg := { group := true, autoN := 0, autoS := 0, bufInit := 100, bufMax := none, retryInit := 1, retryMax := 2,
                       maxAttempts := 0, reset := none }
    (trace cfg [] [.start Afkak.Consts.offsetCommitted, .offsetFetchOk 0 41]).filterMap
        (fun | .ob (.fetch k off _) => some (k, off) | _ => none) = [(1, 42)] := by
  decide +kernel

/-! ## Two consecutive runs sharing the coordinator's offset store ("a restarted consumer in the same group resumes
exactly after the last committed message")

Notions (decidable functions over traces, `AfkakProofs/Consumer/A5_TwoRuns1.lean`): `A5.delivered tr` = the messages handed
to the processor, in order; `A5.commitOffs tr` = the offsets of the commit requests issued; `A5.storeOf tr` = the offset of
the last commit request whose acknowledgement the consumer took (what the coordinator holds when the run ends);
`A5.committed stored ms` = the messages of `ms` up to offset `stored`; `A5.oneSegment tr` = from the first block handed to
the processor on, no `start()` and no offset reset; `A5.resumedFrom stored tr` = the first coordinator answer to an
OffsetFetchRequest carried `stored`, nothing was handed to the processor before it, afterwards no `start()`, no offset
reset, no second answer; `A5.firstFetchAfterAnswer tr` = the offset of the first FetchRequest after that answer;
`Open.C02.chainOk log ms` = each message of `ms` is the log entry following the one before it. -/

/-- Run 1 (any configuration, processor script, event list) delivers in one segment and ends with `stored ≥ 0` in the
    coordinator's store; run 2 (any configuration, script, event list: another consumer object of the group, or the same
    one after a crash) resumes from the coordinator's answer `stored`; both are served from the same partition log
    (`FaithfulLog`).  Then
    (a) run 2's first FetchRequest after the answer is at `stored + 1`, and the first message it hands to the processor is
        the first log entry at or after `stored + 1`;
    (b) `stored` is the offset of a message run 1 handed to the processor (by `C03_commit_le_processed` the last one of a
        block whose processing SUCCEEDED), and the messages run 1 delivered up to `stored` - processed and committed -
        followed by everything run 2 delivers are the log, entry by entry: no gap, no duplicate.  (What run 1 delivered
        beyond `stored` was not committed and is delivered again by run 2: at least once overall, exactly once as far as
        committed.) -/
theorem C03_two_runs_exactly_once_committed (log : List Msg) (cfg1 : Cfg) (script1 : List PEntry) (evs1 : List Ev)
    (cfg2 : Cfg) (script2 : List PEntry) (evs2 : List Ev) (stored : Int)
    (hf1 : Open.C02.FaithfulLog log cfg1 script1 evs1) (hf2 : Open.C02.FaithfulLog log cfg2 script2 evs2)
    (h1 : A5.oneSegment (trace cfg1 script1 evs1) = true)
    (hst : A5.storeOf (trace cfg1 script1 evs1) = some stored) (h0 : 0 ≤ stored)
    (h2 : A5.resumedFrom stored (trace cfg2 script2 evs2) = true) :
    (∀ off, A5.firstFetchAfterAnswer (trace cfg2 script2 evs2) = some off → off = stored + 1) ∧
    (∀ y, (A5.delivered (trace cfg2 script2 evs2)).head? = some y → C02.firstFrom log (stored + 1) = some y) ∧
    (∃ x ∈ A5.delivered (trace cfg1 script1 evs1), x.off = stored) ∧
    Open.C02.chainOk log
      (A5.committed stored (A5.delivered (trace cfg1 script1 evs1)) ++ A5.delivered (trace cfg2 script2 evs2)) = true :=
  A5.two_runs log cfg1 script1 evs1 cfg2 script2 evs2 stored hf1 hf2 h1 (A5.storeOf_mem _ _ hst) h0 h2

/-- The same when the coordinator holds the offset of ANY commit request run 1 issued (a commit the broker applied but
    whose acknowledgement run 1 never took: cancelled by `stop()`, lost, or the process died first). -/
theorem C03_two_runs_unacknowledged_commit (log : List Msg) (cfg1 : Cfg) (script1 : List PEntry) (evs1 : List Ev)
    (cfg2 : Cfg) (script2 : List PEntry) (evs2 : List Ev) (stored : Int)
    (hf1 : Open.C02.FaithfulLog log cfg1 script1 evs1) (hf2 : Open.C02.FaithfulLog log cfg2 script2 evs2)
    (h1 : A5.oneSegment (trace cfg1 script1 evs1) = true)
    (hst : stored ∈ A5.commitOffs (trace cfg1 script1 evs1)) (h0 : 0 ≤ stored)
    (h2 : A5.resumedFrom stored (trace cfg2 script2 evs2) = true) :
    (∀ off, A5.firstFetchAfterAnswer (trace cfg2 script2 evs2) = some off → off = stored + 1) ∧
    (∀ y, (A5.delivered (trace cfg2 script2 evs2)).head? = some y → C02.firstFrom log (stored + 1) = some y) ∧
    (∃ x ∈ A5.delivered (trace cfg1 script1 evs1), x.off = stored) ∧
    Open.C02.chainOk log
      (A5.committed stored (A5.delivered (trace cfg1 script1 evs1)) ++ A5.delivered (trace cfg2 script2 evs2)) = true :=
  A5.two_runs log cfg1 script1 evs1 cfg2 script2 evs2 stored hf1 hf2 h1 hst h0 h2

/-! Non-vacuity: run 1 delivers offsets 0-1, commits 1 (acknowledged), then delivers 2 and ends without committing it; run 2
starts from the committed position, the coordinator answers 1, it fetches at 2 and delivers 2-3.  Every hypothesis holds;
committed ++ run 2 = the log. -/
example :
    let log : List Msg := [⟨0, 10⟩, ⟨1, 11⟩, ⟨2, 12⟩, ⟨3, 13⟩]
    let cfg : Cfg := { group := true, autoN := 0, autoS := 0, bufInit := 100, bufMax := none, retryInit := 1, retryMax := 2,
                       maxAttempts := 0, reset := none }
    let evs1 : List Ev := [.start 0, .fetchOk 0 { msgs := [⟨0, 10⟩, ⟨1, 11⟩], tail := .done }, .commit, .commitOk 1, .retryFire,
                           .fetchOk 2 { msgs := [⟨2, 12⟩], tail := .done }]
    let evs2 : List Ev := [.start Afkak.Consts.offsetCommitted, .offsetFetchOk 0 1,
                           .fetchOk 1 { msgs := [⟨2, 12⟩, ⟨3, 13⟩], tail := .done }]
    Open.C02.FaithfulLog log cfg [] evs1 ∧ Open.C02.FaithfulLog log cfg [] evs2 ∧
      A5.oneSegment (trace cfg [] evs1) = true ∧ A5.storeOf (trace cfg [] evs1) = some 1 ∧
      A5.resumedFrom 1 (trace cfg [] evs2) = true ∧
      A5.delivered (trace cfg [] evs1) = [⟨0, 10⟩, ⟨1, 11⟩, ⟨2, 12⟩] ∧
      A5.firstFetchAfterAnswer (trace cfg [] evs2) = some 2 ∧
      A5.committed 1 (A5.delivered (trace cfg [] evs1)) ++ A5.delivered (trace cfg [] evs2) = log := by
  refine ⟨A.faithfulB_sound _ _ _ _ (by decide +kernel), A.faithfulB_sound _ _ _ _ (by decide +kernel), by decide +kernel,
    by decide +kernel, by decide +kernel, by decide +kernel, by decide +kernel, by decide +kernel⟩

end Afkak.Props.C03

/- OBLIGATIONS
C03_commit_le_processed
C03_one_in_flight
C03_committed_is_acked
C03_resume
C03_failure_stops_progress
C03_crash_safe
C03_commit_reports
C03_two_runs_exactly_once_committed
C03_two_runs_unacknowledged_commit
-/
/- OPEN_STATEMENTS
-/
