import AfkakProofs.Consumer.Trace
import AfkakProofs.Consumer.A5_CR1
import AfkakProps.Open.C03
/-!
# C03 — commits never run ahead of successfully processed messages
-/
namespace Afkak.Props.C03
open Afkak.Consumer Afkak.Monitor Afkak.Proofs.Consumer

/-- Every commit request carries the offset of the last SUCCESSFULLY processed block at the moment it
    is issued (manual, count- and time-triggered, retried, from `shutdown()`), on every trace. -/
theorem C03_commit_le_processed (cfg : Cfg) (script : List PEntry) (evs : List Ev) :
    C03.commitLeProcessedOk (trace cfg script evs) = true :=
  accepts_trace _ _ cfg script evs (run_g1 cfg script evs).clpOk

/-- At most one (uncancelled) commit request is outstanding at any time, on every trace. -/
theorem C03_one_in_flight (cfg : Cfg) (script : List PEntry) (evs : List Ev) :
    C03.oneInFlightOk (trace cfg script evs) = true :=
  accepts_trace _ _ cfg script evs (run_g1 cfg script evs).oifOk

/-- `last_committed_offset` only ever takes a value the broker acknowledged (the offset of a commit
    request whose reply was a success) or reported (an OffsetFetchResponse), on every trace. -/
theorem C03_committed_is_acked (cfg : Cfg) (script : List PEntry) (evs : List Ev) :
    C03.committedAckedOk (trace cfg script evs) = true :=
  accepts_trace _ _ cfg script evs (run_ack cfg script evs).ackOk

/-- Started from the committed position `c ≥ 0`, the next FetchRequest the consumer issues is at
    `c + 1` (whatever else happens in between, short of a restart), on every trace. -/
theorem C03_resume (cfg : Cfg) (script : List PEntry) (evs : List Ev) :
    C03.resumeOk (trace cfg script evs) = true :=
  accepts_trace _ _ cfg script evs (run_res cfg script evs).resOk

/-- After a processor failure - the processor raising, or the Deferred it returned failing - nothing more is
    handed to the processor (so nothing more can count as processed, or be committed) until the consumer is
    started again, on every trace: whatever the failure kind, whatever replies were parked or arrive later,
    whatever stop/shutdown/commit calls follow. -/
theorem C03_failure_stops_progress (cfg : Cfg) (script : List PEntry) (evs : List Ev) :
    C03.failureStopsOk (trace cfg script evs) = true :=
  accepts_trace _ _ cfg script evs (run_halt cfg script evs).haltOk

/-- Crash safety: cut the run at ANY point (every prefix of every event list is a run): every commit request
    issued so far carried an offset that successfully processed blocks cover, and no block was delivered
    after a processor failure - a process that dies there and restarts from the stored offset skips nothing
    that was not processed. -/
theorem C03_crash_safe (cfg : Cfg) (script : List PEntry) (evs : List Ev) (n : Nat) :
    C03.commitLeProcessedOk (trace cfg script (evs.take n)) = true ∧
      C03.failureStopsOk (trace cfg script (evs.take n)) = true :=
  ⟨C03_commit_le_processed cfg script (evs.take n), C03_failure_stops_progress cfg script (evs.take n)⟩

/-- A manual `commit()` (called by the application or re-entrantly by the processor) whose Deferred succeeds AT ONCE,
    without a commit request being issued, reports the last successfully processed offset (or nothing has been
    processed yet), on every trace. -/
theorem C03_commit_reports : Open.C03.C03_commit_reports := fun cfg script evs =>
  accepts_trace _ _ cfg script evs (A5.run_e cfg script evs).c1

/-! Non-vacuity: `start(OFFSET_COMMITTED)`, the coordinator reports offset 41, the consumer fetches at 42. -/
example :
    let cfg : Cfg := { group := true, autoN := 0, autoS := 0, bufInit := 100, bufMax := none, retryInit := 1, retryMax := 2,
                       maxAttempts := 0, reset := none }
    (trace cfg [] [.start Afkak.Consts.offsetCommitted, .offsetFetchOk 0 41]).filterMap
        (fun | .ob (.fetch k off _) => some (k, off) | _ => none) = [(1, 42)] := by
  decide +kernel

end Afkak.Props.C03

/- OBLIGATIONS
C03_commit_le_processed
C03_one_in_flight
C03_committed_is_acked
C03_resume
C03_failure_stops_progress
C03_crash_safe
C03_commit_reports
-/
/- OPEN_STATEMENTS
-/
