import Afkak.Monitor.C17
import AfkakProofs.Group.Trace
import AfkakProofs.Group.Retry
import AfkakProofs.Group.Fresh
import AfkakProofs.Group.Fatal
import AfkakProofs.Group.Progress
import AfkakProofs.Group.CoordRefresh
import AfkakProofs.Group.JoinProgress
import AfkakProofs.Group.ProgressDrain
import AfkakProofs.Group.FairReach
import AfkakProofs.Group.NoCrashStep
import AfkakProofs.Group.F12Exact
import AfkakProofs.Group.FairSettled
import AfkakProps.Open.C17
/-!
# C17 — a started group member always progresses toward stable membership
Property theorems only; helper lemmas live in `AfkakProofs/Group/`.
All theorems quantify over EVERY configuration and EVERY event list: every finite sequence of
failures at every step of the join protocol and every ordering of replies and timers.
-/
namespace Afkak.Props.C17
open Afkak.Group Afkak.Consts Afkak.Monitor.C17 Afkak.Monitor.C17Coord

/-- no event delivers a non-Kafka error at a point where it escapes `_join_and_sync`
    (coordinator look-up, metadata load, leader partition load) — the COARSE, event-only form of the
    excluded situation; the exact one is `f12Occurs` (below), which this implies (`C17_no_escape_no_f12`). -/
def noNonKafkaEscape (evs : List Ev) : Bool := evs.all fun e => !nonKafkaEscape e

/-- the coarse predicate implies the exact one -/
theorem C17_no_escape_no_f12 (cfg : Cfg) (evs : List Ev) (h : noNonKafkaEscape evs = true) : f12Occurs cfg evs = false :=
  f12From_of_noEscape cfg evs init (fun e he => by
    have := List.all_eq_true.mp h e he
    simpa using this)

/-- Never idle (the monitor that is run on the implementation, proved of every model trace):
    after every event, a started and not stopping member has a join in flight, or is stable with the
    heartbeat timer running, or has a rejoin / coordinator-retry timer pending, or `start`'s Deferred
    has fired — on EVERY history in which the known finding's situation does not occur
    (`f12Occurs cfg evs`, a decidable predicate of the event list: a member that is not stopping
    PROCESSES a NON-Kafka error on the coordinator look-up, the metadata load or the leader's partition
    load — finding `F12-nonkafka-error-escaping-join-swallowed`: the code only logs that).  The same
    error delivered when the member is not waiting for that reply, or to a stopping member, is not
    excluded.  The gap to `Open.C17_never_idle` is exactly the finding. -/
theorem C17_never_idle_partial (cfg : Cfg) (evs : List Ev) (h : f12Occurs cfg evs = false) :
    neverIdle (toMSteps (run cfg evs)) = true :=
  neverIdle_run_exact cfg evs h

/-- Every non-Kafka error surfaces on `start`'s Deferred — BOTH monitors of the full-strength
    statement — on every history in which the known finding's situation does not occur: errors on
    join / sync / heartbeat replies and from consumers surface always (`fatalSurfaces`,
    unconditionally: `C17_fatal_surfaces_on_replies`), and without the finding's situation there is no
    processed non-Kafka error at an escape site for `escapeSurfaces` to ask about.  The gap to
    `Open.C17_fatal_surfaces` is exactly the finding. -/
theorem C17_fatal_surfaces_partial (cfg : Cfg) (evs : List Ev) (h : f12Occurs cfg evs = false) :
    fatalSurfaces (toMSteps (run cfg evs)) = true ∧ escapeSurfaces (toMSteps (run cfg evs)) = true :=
  ⟨fatalSurfaces_run cfg evs, escapeSurfaces_run_exact cfg evs h⟩

/-- The excluded situation is real: a non-Kafka failure of the coordinator look-up leaves the
    member idle for ever — the full-strength statement is false of the code. -/
def exCfg : Cfg := { initialBackoffMs := 1000, retryBackoffMs := 125, fatalBackoffMs := 10000, heartbeatMs := 5000 }

theorem C17_never_idle_counterexample : ¬ Open.C17_never_idle := by
  intro h
  have := h exCfg [.start, .coordDone (.err .nonKafka)]
  revert this
  decide +kernel

/-- … and that error is not surfaced on `start`'s Deferred either. -/
theorem C17_fatal_surfaces_counterexample : ¬ Open.C17_fatal_surfaces := by
  intro h
  have := (h exCfg [.start, .coordDone (.err .nonKafka)]).2
  revert this
  decide +kernel

/-- Every retriable condition ⇒ a rejoin after the documented back-off (monitor `retriableRejoins`
    on every model trace): whenever a started, not stopping member processes a Kafka error — on the
    coordinator look-up, escaping the join (metadata load, leader partition load), on a join / sync /
    heartbeat reply or from a consumer — a rejoin is wanted afterwards, a rejoin / coordinator-retry
    timer is pending, and every such timer set in that step has the DOCUMENTED delay for that error
    kind and site (`documentedDelayMs`, written out independently of the generated tables). -/
theorem C17_retriable_rejoins (cfg : Cfg) (evs : List Ev) : retriableRejoins cfg (toMSteps (run cfg evs)) = true :=
  retriable_run cfg evs

/-- A stable member heartbeats: in every reachable state, if no rejoin is wanted and the member is
    not stopping, the heartbeat looper is running and its timer is pending. -/
theorem C17_stable_heartbeat (cfg : Cfg) (evs : List Ev)
    (h1 : (final cfg evs).rejoinNeeded = false) (h2 : (final cfg evs).stopping = false) :
    (final cfg evs).hbRunning = true ∧ ∃ t ∈ (final cfg evs).timers, t.kind = .hb := by
  have h := final_sinv cfg evs
  exact ⟨h.stable_hb h1 h2, h.hb_has (h.stable_hb h1 h2)⟩

/-- The source's error tables: while running every Kafka error schedules a rejoin with the
    documented back-off, every failed coordinator look-up a retry with the documented back-off, and
    an escaping error is routed to the same table exactly when it is a Kafka error. -/
theorem C17_retriable_table (cfg : Cfg) (e : GErr) (h : isKafka e = true) :
    (rejoinRow false e).act = .rejoin ∧
    (∀ site, site ≠ .lookup →
      (if (rejoinRow false e).fatalDelay then cfg.fatalBackoffMs else cfg.retryBackoffMs) = documentedDelayMs cfg site e) ∧
    ((coordFailRow e = .retryInitial ∧ documentedDelayMs cfg .lookup e = cfg.initialBackoffMs) ∨
     (coordFailRow e = .retryFatal ∧ documentedDelayMs cfg .lookup e = cfg.fatalBackoffMs)) ∧
    escapeRejoins e = true :=
  ⟨Afkak.Group.Tables.kafka_rejoins e h, fun site hs => Afkak.Group.Tables.kafka_delay cfg site hs e h,
   Afkak.Group.Tables.lookup_retry cfg e h, by rw [Afkak.Group.Tables.escape_iff_kafka, h]⟩

/-- While running, a non-Kafka error reply is fatal in the table: leave the group and stop with
    that error (which `Coordinator.stop` delivers to `start`'s Deferred). -/
theorem C17_fatal_table (e : GErr) (h : isKafka e = false) : (rejoinRow false e).act = .fatal :=
  Afkak.Group.Tables.nonKafka_fatal e h

/-- UnknownMemberId and InvalidGroupId — the coordinator has forgotten the member — clear the member
    id in the source's table (whether or not stopping) and are never ignored, so the next JoinGroup
    quotes the empty id and the coordinator can let the member back in. -/
theorem C17_forgotten_member_resets (stopping : Bool) (e : GErr) (h : forgetsMember e = true) :
    (rejoinRow stopping e).clearMember = true ∧ (rejoinRow stopping e).act ≠ .ignore :=
  Afkak.Group.Tables.forgets_clears stopping e h

/-- A non-Kafka error on a join / sync / heartbeat reply or from a consumer always surfaces (monitor
    `fatalSurfaces` on every model trace): processed in a started, not stopping member it fires
    `start`'s Deferred with that error in the same step, or sends the leave request and the step that
    delivers the leave reply fires it with that error.  (The other half of full strength — errors
    escaping the join — is violated by the code: `C17_fatal_surfaces_counterexample`.) -/
theorem C17_fatal_surfaces_on_replies (cfg : Cfg) (evs : List Ev) : fatalSurfaces (toMSteps (run cfg evs)) = true :=
  fatalSurfaces_run cfg evs

/-- After a processed UnknownMemberId / InvalidGroupId eviction every JoinGroup observed before the
    next processed successful join reply quotes the EMPTY member id (monitor `freshAfterEviction` on
    every model trace), so a coordinator that forgot the member lets it back in. -/
theorem C17_fresh_after_eviction (cfg : Cfg) (evs : List Ev) : freshAfterEviction (toMSteps (run cfg evs)) = true :=
  freshAfterEviction_run cfg evs

/-- The rejoin goes to the CURRENT coordinator (monitor `coordinatorRefreshed` on every model trace):
    a started, not stopping member that processes a time-out, NotCoordinator or
    CoordinatorNotAvailable on a join / sync / heartbeat reply or from a consumer invalidates the
    client's cached coordinator in that step (`reset_consumer_group_metadata`), so the look-up of the
    rejoin asks the cluster — a coordinator that died without a word never says NotCoordinator. -/
theorem C17_coordinator_refreshed (cfg : Cfg) (evs : List Ev) : coordinatorRefreshed (toMSteps (run cfg evs)) = true :=
  coordRefreshed_run cfg evs

/-- … and the source's table says so for each of the three errors, stopping or not. -/
theorem C17_suspect_table (stopping : Bool) (e : GErr) (h : suspectsCoordinator e = true) :
    (rejoinRow stopping e).resetMeta = true :=
  (Afkak.Group.Tables.suspect_resets stopping e h).1

/-- A join in flight always has something to wake it (monitor `joinProgress` on every model trace):
    whenever a started, not stopping member has its join coroutine alive, one of the coroutine's
    client requests is outstanding — counted from the observed requests, processed replies and
    observed cancellations — or a consumer is draining.  The drain half is the CONVERSE drain
    invariant (`CInv`): while `on_join_prepare` waits, the awaited list is not empty and every awaited
    shutdown Deferred belongs to a consumer that is still draining; the same for every waiting
    `ConsumerGroup.stop`; and a coroutine parked behind `_stop_draining` has a `stop()` waiting. -/
theorem C17_join_progress (cfg : Cfg) (evs : List Ev) : joinProgress (toMSteps (run cfg evs)) = true :=
  joinProgress_run cfg evs

/-- The member's own machinery never trips over itself (monitor `noInternalError` on every model
    trace): `Coordinator.stop` never cancels a `_rejoin_wait_dc` that has already fired or been
    cancelled (`AlreadyCalled` would leave `stop()` failed half-way with `_stopping` set: no leave,
    `start`'s Deferred never fired — wedged for ever), and `_handle_heartbeat_failure` /
    `stop()` never stop a heartbeat looper that is not running (its assertion).  The only exception
    a step raises is the documented `RestartError` of `start()` on a started or stopped member. -/
theorem C17_no_internal_error (cfg : Cfg) (evs : List Ev) :
    Afkak.Monitor.C17Crash.noInternalError (toMSteps (run cfg evs)) = true :=
  Afkak.Group.NoCrash.noInternalError_run cfg evs

/-- the hypothesis of `C17_rejoins_bounded_partial`, a decidable predicate of the STATE the history
    ends in: started, not stopping, no `stop()` waiting for consumers, and not idle (a member that
    wants to rejoin and has no join in flight has a rejoin / retry timer pending — what
    `C17_never_idle_partial` establishes for every history in which no non-Kafka error escaped the
    join, and what the F12 state lacks).  Compared with the full-strength statement
    (`Open.C17_rejoins_bounded`) the ONLY extra condition is the last conjunct: the known finding. -/
def eligible (cfg : Cfg) (evs : List Ev) : Bool :=
  let s := final cfg evs
  s.started && !s.stopping && !s.stopDraining &&
    (!s.rejoinNeeded || s.rejoinD || s.timers.any (fun t => t.kind != .hb))

/-- Bounded rejoin, in model time: once failures cease, an eligible member — INCLUDING one in the
    middle of `on_join_prepare` (the ordinary rebalance state: the continuation first completes every
    awaited shutdown, which is enabled because each awaited consumer is still draining, `CInv`) —
    reaches stable membership (`rejoinNeeded = false`: synced, consumers started, heartbeat running —
    `C17_stable_heartbeat`) by a failure-free continuation of at most `6 + #consumers` events; the
    only time that has to pass is the remaining delay of the pending rejoin / coordinator-retry
    timer (whose delay is the documented back-off: `C17_retriable_rejoins`). -/
theorem C17_rejoins_bounded_partial (cfg : Cfg) (evs : List Ev) (h : eligible cfg evs = true) :
    ∃ tail : List Ev, tail.all okEv = true ∧ tail.length ≤ 6 + (final cfg evs).cons.length ∧
      (∀ dt, Ev.advance dt ∈ tail → ∃ t ∈ (final cfg evs).timers, t.kind ≠ .hb ∧
        dt = if (final cfg evs).now < t.due then t.due - (final cfg evs).now else 0) ∧
      (final cfg (evs ++ tail)).rejoinNeeded = false := by
  simp only [eligible, Bool.and_eq_true, Bool.not_eq_true', Bool.or_eq_true] at h
  obtain ⟨⟨⟨h2, h3⟩, h4⟩, h7⟩ := h
  have hb : Busy (final cfg evs) := by
    intro _ _ hn hrd
    rcases h7 with (x | x) | x
    · rw [hn] at x; cases x
    · rw [hrd] at x; cases x
    · obtain ⟨t, ht, hk⟩ := List.any_eq_true.mp x
      exact ⟨t, ht, by simpa using hk⟩
  exact progress_drain_final cfg evs hb h2 h3 h4

/-- … hence for every history in which the known finding's situation does not occur (`f12Occurs`: a
    member that is not stopping processes a non-Kafka error at an escape site) the full-strength
    conclusion holds — the `_partial` of `Open.C17_rejoins_bounded` whose only extra hypothesis is the
    finding: started, not stopping, no `stop()` waiting ⇒ a failure-free
    continuation of at most `6 + #consumers` events makes the member stable. -/
theorem C17_rejoins_bounded_no_escape (cfg : Cfg) (evs : List Ev) (hne : f12Occurs cfg evs = false)
    (h2 : (final cfg evs).started = true) (h3 : (final cfg evs).stopping = false) (h4 : (final cfg evs).stopDraining = false) :
    ∃ tail : List Ev, tail.all okEv = true ∧ tail.length ≤ 6 + (final cfg evs).cons.length ∧
      (finalFrom cfg (final cfg evs) tail).rejoinNeeded = false := by
  have hb : Busy (final cfg evs) := final_busy_exact cfg evs hne
  obtain ⟨tail, a, b, _, d⟩ := progress_drain_final cfg evs hb h2 h3 h4
  exact ⟨tail, a, b, by unfold final at d; rwa [finalFrom_append] at d⟩

/-- **Bounded rejoin as a ∀-statement under fairness.**  Take ANY history without the known finding's
    situation (`f12Occurs`, finding F12) after which the member is started, not stopping and no `stop()`
    waits for consumers — waiting on its rejoin timer, looking the coordinator up, loading metadata, in the
    middle of `on_join_prepare`, joining or syncing.  Then EVERY failure-free continuation (`okEvF`: time
    passes, timers fire, requests are answered successfully, shutdowns complete, heartbeats are acknowledged —
    in any order, with any reply contents, the member leader or follower, interleaved with any number of
    events that are not enabled) that goes on until the environment owes the member nothing (`settled`: no
    request of the join coroutine outstanding, no shutdown awaited, no rejoin / coordinator-retry timer
    pending) ends with a STABLE member: synced, its consumers started for exactly the assignment of that
    sync reply (`C16_starts_committed`), heartbeat timer running (`C17_stable_heartbeat`).  `settled` implies
    that no event is an owed move (`settled_nothing_owed`), and while the member is not stable something IS
    owed (`C17_owes`).  How many moves that takes: `C17_rejoins_bounded_no_escape` (at most `6 + #consumers`). -/
theorem C17_rejoins_fair_settled (cfg : Cfg) (evs : List Ev) (hne : f12Occurs cfg evs = false)
    (h2 : (final cfg evs).started = true) (h3 : (final cfg evs).stopping = false) (h4 : (final cfg evs).stopDraining = false)
    (tail : List Ev) (ha : tail.all okEvF = true) (hs : settled (finalFrom cfg (final cfg evs) tail) = true) :
    (finalFrom cfg (final cfg evs) tail).rejoinNeeded = false :=
  fair_settles cfg _ (elig_final cfg evs (final_busy_exact cfg evs hne) h2 h3 h4) tail ha hs

/-- … and while such a member is not stable, the environment owes it something: a successful reply /
    shutdown completion that is an enabled owed move (`owedMove`), or a rejoin / coordinator-retry timer is
    pending (its firing is owed once it is due) — at the end of the history and after every failure-free
    continuation of it. -/
theorem C17_owes (cfg : Cfg) (evs : List Ev) (hne : f12Occurs cfg evs = false)
    (h2 : (final cfg evs).started = true) (h3 : (final cfg evs).stopping = false) (h4 : (final cfg evs).stopDraining = false)
    (tail : List Ev) (ha : tail.all okEvF = true) (hn : (finalFrom cfg (final cfg evs) tail).rejoinNeeded = true) :
    (∃ e, okEvF e = true ∧ owedMove (finalFrom cfg (final cfg evs) tail) e = true) ∨
    ((finalFrom cfg (final cfg evs) tail).jpc = .idle ∧ ∃ t ∈ (finalFrom cfg (final cfg evs) tail).timers, t.kind ≠ .hb) :=
  owes (elig_tail cfg tail _ (elig_final cfg evs (final_busy_exact cfg evs hne) h2 h3 h4) ha) hn

/-- The COUNTING form of the fairness statement (kept; the statement that carries the meaning is
    `C17_rejoins_fair_settled` above).  For every failure-free continuation in which the environment makes at
    least `μ` owed moves the member is stable at the end, `μ ≤ 7 + #consumers`.  CAVEAT (independent audit,
    round 2): `μ` drops by more than one on some mandatory transitions (metadata reply → `on_join_prepare` /
    JoinGroup; a follower's join reply → SyncGroup), so the hypothesis `μ ≤ #owed moves` is satisfiable only
    from mid-exchange states and with a leader's replies (e.g. `exDrain` with `exFairTail` below); from a
    member that is idle, looking the coordinator up or loading metadata, and for every follower, it is
    vacuous. -/
theorem C17_rejoins_fair (cfg : Cfg) (evs : List Ev) (hne : f12Occurs cfg evs = false)
    (h2 : (final cfg evs).started = true) (h3 : (final cfg evs).stopping = false) (h4 : (final cfg evs).stopDraining = false)
    (tail : List Ev) (ha : tail.all okEvF = true) (hf : mu (final cfg evs) ≤ owedCount cfg (final cfg evs) tail) :
    (finalFrom cfg (final cfg evs) tail).rejoinNeeded = false ∧ mu (final cfg evs) ≤ 7 + (final cfg evs).cons.length := by
  have hb : Busy (final cfg evs) := final_busy_exact cfg evs hne
  have he := elig_final cfg evs hb h2 h3 h4
  exact ⟨fair_reaches cfg _ he tail ha hf, mu_le _ he⟩

/-- Non-vacuity of `C17_rejoins_fair`: from the state in the middle of `on_join_prepare` (`exDrain`
    below: μ = 5) a continuation with an unanswerable event in between and the five owed moves. -/
def exFairTail : List Ev :=
  [.consumerDown 0 true, .hbDone .ok, .consumerDown 1 true, .joinDone (.ok 1 2 true 1), .advance 3, .partsDone .ok, .syncDone (.ok [(0, [1])])]

/-- The excluded case is real: after `start` and a non-Kafka error on the coordinator look-up the
    member is started, not stopping, no stop is waiting — and NO failure-free continuation, of any
    length, makes it stable. -/
theorem C17_rejoins_bounded_counterexample : ¬ Open.C17_rejoins_bounded := by
  intro h
  have hs : Stuck (final exCfg [.start, .coordDone (.err .nonKafka)]) := by
    refine ⟨?_, ?_, ?_, ?_⟩ <;> decide +kernel
  obtain ⟨tail, a, _, c⟩ := h exCfg [.start, .coordDone (.err .nonKafka)] (by decide +kernel) (by decide +kernel) (by decide +kernel)
  have ha : tail.all Afkak.Group.okEv = true := by
    rw [List.all_eq_true] at a ⊢
    intro e he
    have := a e he
    cases e <;> first | exact this | (rename_i r; cases r <;> exact this) | (rename_i x r; cases r <;> exact this)
  have := (finalFrom_stuck exCfg tail _ ha hs).needed
  rw [c] at this; cases this

/-! Non-vacuity: an event list with failures at several steps of the join protocol that satisfies
the hypothesis, on which the member is NOT trivially idle-free (it goes through retry timers). -/
def exFaults : List Ev :=
  [.start, .coordDone (.err .coordinatorNotAvailable), .advance 1, .fire 0 none, .coordDone .ok, .metaDone (.err .kafkaUnavailable),
   .advance 10, .fire 1 none, .coordDone .ok, .metaDone .ok, .joinDone (.err .unknownMemberId)]
example : noNonKafkaEscape exFaults = true := by decide
example : f12Occurs exCfg exFaults = false := by decide +kernel
/-- the exact predicate admits histories the coarse one rejects: a non-Kafka "reply" nobody waits for
    (not processed) and one that reaches a member that is already stopping -/
example : noNonKafkaEscape (exFaults ++ [.metaDone (.err .nonKafka)]) = false ∧
    f12Occurs exCfg (exFaults ++ [.metaDone (.err .nonKafka)]) = false := by decide +kernel
example : f12Occurs exCfg [.start, .coordDone .ok, .metaDone .ok, .joinDone (.ok 1 1 false 0), .syncDone (.ok []), .advance 5, .fire 0 none,
    .hbDone (.err .rebalanceInProgress), .advance 1, .fire 2 none, .stop, .coordDone (.err .nonKafka)] = false := by decide +kernel
/-- … and it is true of the counterexample's history -/
example : f12Occurs exCfg [.start, .coordDone (.err .nonKafka)] = true := by decide +kernel
example : ((final exCfg exFaults).timers.map fun t => (t.id, t.kind)) = [(2, .rejoin)] := by decide +kernel

example : eligible exCfg exFaults = true := by decide +kernel
/-- a history that ends in the middle of `on_join_prepare` (two consumers draining for a rebalance) -/
def exDrain : List Ev :=
  [.start, .coordDone .ok, .metaDone .ok, .joinDone (.ok 1 1 false 0), .syncDone (.ok [(0, [0, 1])]),
   .consumerErr 0 .rebalanceInProgress, .advance 1, .fire 1 none, .coordDone .ok, .metaDone .ok]
example : (final exCfg exDrain).jpc = .prepare := by decide +kernel
example : eligible exCfg exDrain = true := by decide +kernel
example : noNonKafkaEscape exDrain = true := by decide
example : f12Occurs exCfg exDrain = false := by decide +kernel
example : exFairTail.all okEvF = true ∧ mu (final exCfg exDrain) = 5 ∧
    mu (final exCfg exDrain) ≤ owedCount exCfg (final exCfg exDrain) exFairTail ∧
    (final exCfg (exDrain ++ exFairTail)).rejoinNeeded = false := by decide +kernel
example : eligible exCfg (exFaults ++ [.advance 1, .fire 2 none, .coordDone .ok]) = true := by decide +kernel

/-! Non-vacuity of `C17_rejoins_fair_settled` from the states the property is about: a fresh member that
is looking the coordinator up and becomes a FOLLOWER; the member of `exFaults` waiting on its rejoin timer
(idle), with an event that is not enabled in between, as a leader; and the mid-drain state `exDrain` with a
follower reply. -/
example : (final exCfg [.start]).jpc = .coordLookup ∧
    ([.coordDone .ok, .metaDone .ok, .joinDone (.ok 1 1 false 0), .syncDone (.ok [(0, [0])])] : List Ev).all okEvF = true ∧
    settled (finalFrom exCfg (final exCfg [.start]) [.coordDone .ok, .metaDone .ok, .joinDone (.ok 1 1 false 0), .syncDone (.ok [(0, [0])])]) = true := by
  decide +kernel
example : (final exCfg exFaults).jpc = .idle ∧
    ([.advance 1, .syncDone (.ok []), .fire 2 none, .coordDone .ok, .metaDone .ok, .joinDone (.ok 1 3 true 2), .partsDone .ok, .syncDone (.ok [(0, [1])])] : List Ev).all okEvF = true ∧
    settled (finalFrom exCfg (final exCfg exFaults)
      [.advance 1, .syncDone (.ok []), .fire 2 none, .coordDone .ok, .metaDone .ok, .joinDone (.ok 1 3 true 2), .partsDone .ok, .syncDone (.ok [(0, [1])])]) = true := by
  decide +kernel
example : settled (finalFrom exCfg (final exCfg exDrain) [.consumerDown 0 true, .consumerDown 1 true, .joinDone (.ok 1 2 false 1), .syncDone (.ok [(0, [1])])]) = true := by
  decide +kernel
/-- not settled while the rejoin timer is pending, although no owed move is enabled yet -/
example : settled (final exCfg exFaults) = false := by decide +kernel


end Afkak.Props.C17

/- OBLIGATIONS
C17_never_idle_partial
C17_fatal_surfaces_partial
C17_no_escape_no_f12
C17_never_idle_counterexample
C17_fatal_surfaces_counterexample
C17_retriable_rejoins
C17_stable_heartbeat
C17_retriable_table
C17_fatal_table
C17_forgotten_member_resets
C17_fatal_surfaces_on_replies
C17_fresh_after_eviction
C17_coordinator_refreshed
C17_suspect_table
C17_no_internal_error
C17_rejoins_bounded_partial
C17_rejoins_bounded_no_escape
C17_rejoins_fair
C17_rejoins_fair_settled
C17_owes
C17_rejoins_bounded_counterexample
C17_join_progress
-/
/- OPEN_STATEMENTS
C17_never_idle
C17_fatal_surfaces
C17_rejoins_bounded
-/
