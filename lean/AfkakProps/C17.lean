import Afkak.Monitor.C17
import AfkakProofs.Group.Tables
/-!
# C17 — a started group member always progresses toward stable membership
Property theorems only; helper lemmas live in `AfkakProofs/Group/`.
-/
namespace Afkak.Props.C17
open Afkak.Group Afkak.Consts Afkak.Monitor.C17

/-- The source's error tables: while running every Kafka error schedules a rejoin with the
    documented back-off, every failed coordinator look-up a retry with the documented back-off, and
    an escaping error is routed to the same table exactly when it is a Kafka error. -/
theorem C17_retriable_table (cfg : Cfg) (e : GErr) (h : isKafka e = true) :
    (rejoinRow false e).act = .rejoin ∧
    (∀ site, site ≠ .lookup →
      (if (rejoinRow false e).fatalDelay then cfg.fatalBackoffMs else cfg.retryBackoffMs) = documentedDelayMs cfg site e) ∧
    ((coordFailRow e = .retryInitial ∧ documentedDelayMs cfg .lookup e = cfg.initialBackoffMs) ∨
     (coordFailRow e = .retryFatal ∧ documentedDelayMs cfg .lookup e = cfg.fatalBackoffMs)) ∧
    escapeRejoins e = true :=
  ⟨Afkak.Group.Tables.kafka_rejoins e h, fun site hs => Afkak.Group.Tables.kafka_delay cfg site hs e h,
   Afkak.Group.Tables.lookup_retry cfg e h, by rw [Afkak.Group.Tables.escape_iff_kafka, h]⟩

end Afkak.Props.C17

/- OBLIGATIONS
C17_retriable_table
-/
/- OPEN_STATEMENTS
-/
