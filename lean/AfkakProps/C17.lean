import Afkak.Monitor.C17
import AfkakProofs.Group.Trace
import AfkakProofs.Group.Retry
import AfkakProofs.Group.Fresh
import AfkakProofs.Group.Fatal
import AfkakProofs.Group.Progress
import AfkakProps.Open.C17
/-!
# C17 — a started group member always progresses toward stable membership
Property theorems only; helper lemmas live in `AfkakProofs/Group/`.
All theorems quantify over EVERY configuration and EVERY event list: every finite sequence of
failures at every step of the join protocol and every ordering of replies and timers.
-/
namespace Afkak.Props.C17
open Afkak.Group Afkak.Consts Afkak.Monitor.C17

/-- no event delivers a non-Kafka error at a point where it escapes `_join_and_sync`
    (coordinator look-up, metadata load, leader partition load) -/
def noNonKafkaEscape (evs : List Ev) : Bool := evs.all fun e => !nonKafkaEscape e

/-- Never idle (the monitor that is run on the implementation, proved of every model trace):
    after every event, a started and not stopping member has a join in flight, or is stable with the
    heartbeat timer running, or has a rejoin / coordinator-retry timer pending, or `start`'s Deferred
    has fired — provided no NON-Kafka error escaped the join (finding F12: the code swallows that). -/
theorem C17_never_idle_partial (cfg : Cfg) (evs : List Ev) (h : noNonKafkaEscape evs = true) :
    neverIdle (toMSteps (run cfg evs)) = true := by
  refine neverIdle_run cfg evs (fun e he => ?_)
  have := List.all_eq_true.mp h e he
  simpa using this

/-- The excluded situation is real: a non-Kafka failure of the coordinator look-up leaves the
    member idle for ever — the full-strength statement is false of the code. -/
def exCfg : Cfg := { initialBackoffMs := 1000, retryBackoffMs := 125, fatalBackoffMs := 10000, heartbeatMs := 5000 }

theorem C17_never_idle_counterexample : ¬ Open.C17_never_idle := by
  intro h
  have := h exCfg [.start, .coordDone (.err .nonKafka)]
  revert this
  decide +kernel

/-- … and that error is not surfaced on `start`'s Deferred either. -/
theorem C17_fatal_surfaces_counterexample : ¬ Open.C17_fatal_surfaces := by
  intro h
  have := (h exCfg [.start, .coordDone (.err .nonKafka)]).2
  revert this
  decide +kernel

/-- Every retriable condition ⇒ a rejoin after the documented back-off (monitor `retriableRejoins`
    on every model trace): whenever a started, not stopping member processes a Kafka error — on the
    coordinator look-up, escaping the join (metadata load, leader partition load), on a join / sync /
    heartbeat reply or from a consumer — a rejoin is wanted afterwards, a rejoin / coordinator-retry
    timer is pending, and every such timer set in that step has the DOCUMENTED delay for that error
    kind and site (`documentedDelayMs`, written out independently of the generated tables). -/
theorem C17_retriable_rejoins (cfg : Cfg) (evs : List Ev) : retriableRejoins cfg (toMSteps (run cfg evs)) = true :=
  retriable_run cfg evs

/-- A stable member heartbeats: in every reachable state, if no rejoin is wanted and the member is
    not stopping, the heartbeat looper is running and its timer is pending. -/
theorem C17_stable_heartbeat (cfg : Cfg) (evs : List Ev)
    (h1 : (final cfg evs).rejoinNeeded = false) (h2 : (final cfg evs).stopping = false) :
    (final cfg evs).hbRunning = true ∧ ∃ t ∈ (final cfg evs).timers, t.kind = .hb := by
  have h := final_sinv cfg evs
  exact ⟨h.stable_hb h1 h2, h.hb_has (h.stable_hb h1 h2)⟩

/-- The source's error tables: while running every Kafka error schedules a rejoin with the
    documented back-off, every failed coordinator look-up a retry with the documented back-off, and
    an escaping error is routed to the same table exactly when it is a Kafka error. -/
theorem C17_retriable_table (cfg : Cfg) (e : GErr) (h : isKafka e = true) :
    (rejoinRow false e).act = .rejoin ∧
    (∀ site, site ≠ .lookup →
      (if (rejoinRow false e).fatalDelay then cfg.fatalBackoffMs else cfg.retryBackoffMs) = documentedDelayMs cfg site e) ∧
    ((coordFailRow e = .retryInitial ∧ documentedDelayMs cfg .lookup e = cfg.initialBackoffMs) ∨
     (coordFailRow e = .retryFatal ∧ documentedDelayMs cfg .lookup e = cfg.fatalBackoffMs)) ∧
    escapeRejoins e = true :=
  ⟨Afkak.Group.Tables.kafka_rejoins e h, fun site hs => Afkak.Group.Tables.kafka_delay cfg site hs e h,
   Afkak.Group.Tables.lookup_retry cfg e h, by rw [Afkak.Group.Tables.escape_iff_kafka, h]⟩

/-- While running, a non-Kafka error reply is fatal in the table: leave the group and stop with
    that error (which `Coordinator.stop` delivers to `start`'s Deferred). -/
theorem C17_fatal_table (e : GErr) (h : isKafka e = false) : (rejoinRow false e).act = .fatal :=
  Afkak.Group.Tables.nonKafka_fatal e h

/-- UnknownMemberId and InvalidGroupId — the coordinator has forgotten the member — clear the member
    id in the source's table (whether or not stopping) and are never ignored, so the next JoinGroup
    quotes the empty id and the coordinator can let the member back in. -/
theorem C17_forgotten_member_resets (stopping : Bool) (e : GErr) (h : forgetsMember e = true) :
    (rejoinRow stopping e).clearMember = true ∧ (rejoinRow stopping e).act ≠ .ignore :=
  Afkak.Group.Tables.forgets_clears stopping e h

/-- A non-Kafka error on a join / sync / heartbeat reply or from a consumer always surfaces (monitor
    `fatalSurfaces` on every model trace): processed in a started, not stopping member it fires
    `start`'s Deferred with that error in the same step, or sends the leave request and the step that
    delivers the leave reply fires it with that error.  (The other half of full strength — errors
    escaping the join — is violated by the code: `C17_fatal_surfaces_counterexample`.) -/
theorem C17_fatal_surfaces_on_replies (cfg : Cfg) (evs : List Ev) : fatalSurfaces (toMSteps (run cfg evs)) = true :=
  fatalSurfaces_run cfg evs

/-- After a processed UnknownMemberId / InvalidGroupId eviction every JoinGroup observed before the
    next processed successful join reply quotes the EMPTY member id (monitor `freshAfterEviction` on
    every model trace), so a coordinator that forgot the member lets it back in. -/
theorem C17_fresh_after_eviction (cfg : Cfg) (evs : List Ev) : freshAfterEviction (toMSteps (run cfg evs)) = true :=
  freshAfterEviction_run cfg evs

/-- the hypothesis of `C17_rejoins_bounded_partial`, a decidable predicate of the STATE the history
    ends in: started, not stopping, no `stop()` waiting for consumers, the join coroutine not in the
    middle of `on_join_prepare`, and not idle (a member that wants to rejoin and has no join in flight
    has a rejoin / retry timer pending — what `C17_never_idle_partial` establishes for every history
    in which no non-Kafka error escaped the join, and what the F12 state lacks) -/
def eligible (cfg : Cfg) (evs : List Ev) : Bool :=
  let s := final cfg evs
  s.started && !s.stopping && !s.stopDraining && s.jpc != .prepare && s.jpc != .hang &&
    (!s.rejoinNeeded || s.rejoinD || s.timers.any (fun t => t.kind != .hb))

/-- Bounded rejoin, in model time: once failures cease, an eligible member reaches stable
    membership (`rejoinNeeded = false`: synced, consumers started, heartbeat running —
    `C17_stable_heartbeat`) by a failure-free continuation of at most `6 + #consumers` events; the
    only time that has to pass is the remaining delay of the pending rejoin / coordinator-retry
    timer (whose delay is the documented back-off: `C17_retriable_rejoins`). -/
theorem C17_rejoins_bounded_partial (cfg : Cfg) (evs : List Ev) (h : eligible cfg evs = true) :
    ∃ tail : List Ev, tail.all okEv = true ∧ tail.length ≤ 6 + (final cfg evs).cons.length ∧
      (∀ dt, Ev.advance dt ∈ tail → ∃ t ∈ (final cfg evs).timers, t.kind ≠ .hb ∧
        dt = if (final cfg evs).now < t.due then t.due - (final cfg evs).now else 0) ∧
      (final cfg (evs ++ tail)).rejoinNeeded = false := by
  simp only [eligible, Bool.and_eq_true, Bool.not_eq_true', bne_iff_ne, ne_eq, Bool.or_eq_true] at h
  obtain ⟨⟨⟨⟨⟨h2, h3⟩, h4⟩, h5⟩, h6⟩, h7⟩ := h
  have hb : Busy (final cfg evs) := by
    intro _ _ hn hrd
    rcases h7 with (x | x) | x
    · rw [hn] at x; cases x
    · rw [hrd] at x; cases x
    · obtain ⟨t, ht, hk⟩ := List.any_eq_true.mp x
      exact ⟨t, ht, by simpa using hk⟩
  obtain ⟨tail, a, b, c, d⟩ := progress cfg (final cfg evs) (final_sinv cfg evs) hb h2 h3 h4 h5 h6
  exact ⟨tail, a, b, c, by unfold final; rw [finalFrom_append]; exact d⟩

/-- The excluded case is real: after `start` and a non-Kafka error on the coordinator look-up the
    member is started, not stopping, no stop is waiting — and NO failure-free continuation, of any
    length, makes it stable. -/
theorem C17_rejoins_bounded_counterexample : ¬ Open.C17_rejoins_bounded := by
  intro h
  have hs : Stuck (final exCfg [.start, .coordDone (.err .nonKafka)]) := by
    refine ⟨?_, ?_, ?_, ?_⟩ <;> decide +kernel
  obtain ⟨tail, a, _, c⟩ := h exCfg [.start, .coordDone (.err .nonKafka)] (by decide +kernel) (by decide +kernel) (by decide +kernel)
  have ha : tail.all Afkak.Group.okEv = true := by
    rw [List.all_eq_true] at a ⊢
    intro e he
    have := a e he
    cases e <;> first | exact this | (rename_i r; cases r <;> exact this) | (rename_i x r; cases r <;> exact this)
  have := (finalFrom_stuck exCfg tail _ ha hs).needed
  rw [c] at this; cases this

/-! Non-vacuity: an event list with failures at several steps of the join protocol that satisfies
the hypothesis, on which the member is NOT trivially idle-free (it goes through retry timers). -/
def exFaults : List Ev :=
  [.start, .coordDone (.err .coordinatorNotAvailable), .advance 1, .fire 0 none, .coordDone .ok, .metaDone (.err .kafkaUnavailable),
   .advance 10, .fire 1 none, .coordDone .ok, .metaDone .ok, .joinDone (.err .unknownMemberId)]
example : noNonKafkaEscape exFaults = true := by decide
example : ((final exCfg exFaults).timers.map fun t => (t.id, t.kind)) = [(2, .rejoin)] := by decide +kernel

example : eligible exCfg exFaults = true := by decide +kernel
example : eligible exCfg (exFaults ++ [.advance 1, .fire 2 none, .coordDone .ok]) = true := by decide +kernel

end Afkak.Props.C17

/- OBLIGATIONS
C17_never_idle_partial
C17_never_idle_counterexample
C17_fatal_surfaces_counterexample
C17_retriable_rejoins
C17_stable_heartbeat
C17_retriable_table
C17_fatal_table
C17_forgotten_member_resets
C17_fatal_surfaces_on_replies
C17_fresh_after_eviction
C17_rejoins_bounded_partial
C17_rejoins_bounded_counterexample
-/
/- OPEN_STATEMENTS
C17_never_idle
C17_fatal_surfaces
C17_rejoins_bounded
C17_join_progress
-/
