import Afkak.ClientCache
import Afkak.ClientNet
import Afkak.Monitor.C07
import AfkakProofs.Client.Route
import AfkakProofs.Client.Assemble
import AfkakProofs.Client.Hosts
import AfkakProofs.Client.A_Unavail5
import AfkakProofs.Client.A_Coroutine
import AfkakProofs.Client.A_Follow
import AfkakProofs.Client.A5_MonWitness
import AfkakProofs.Client.A5_UnavailPos
import AfkakProofs.Client.A5_Coalesce
import AfkakProofs.Client.A5_Tied
import AfkakProofs.Client.A5_UnawareLoop
import AfkakProps.Open.C07
/-!
# C07 — requests reach the responsible broker; results return in payload order
Property theorems only; helper lemmas live in `AfkakProofs/Client/`.
-/
namespace Afkak.Props.C07
open Afkak.ClientCache Afkak.ClientNet

/-- Each payload is sent to the broker the cache names as leader of its partition: whenever routing
    succeeds, payload `i` is in a request to node `n` only if `topics_to_brokers[key i]` is a broker
    with that node id — and every payload is in some request. -/
theorem C07_routed_to_leader (c : Cache) (keys : List TP) (gs : List (Int × List Nat))
    (h : route c keys none = .ok gs) :
    (∀ n idxs, (n, idxs) ∈ gs → ∀ i ∈ idxs, ∃ (hi : i < keys.length) (b : Broker),
        get? keys[i] c.t2b = some (some b) ∧ b.nodeId = n) ∧
    (∀ i (_ : i < keys.length), ∃ n idxs, (n, idxs) ∈ gs ∧ i ∈ idxs) := by
  simp only [route] at h
  cases hr : resolveAll c 0 keys with
  | error e => simp [hr, Except.map] at h
  | ok r =>
    simp only [hr, Except.map, Except.ok.injEq] at h
    subst h
    obtain ⟨hidx, hlead⟩ := resolveAll_spec c keys 0 r hr
    constructor
    · intro n idxs hmem i hi
      obtain ⟨rfl, _⟩ := groupByNode_group r n idxs hmem
      obtain ⟨x, hx, rfl⟩ := List.mem_map.mp hi
      obtain ⟨hxr, hxn⟩ := List.mem_filter.mp hx
      have hx2 : x.2 ∈ r.map (·.2) := List.mem_map.mpr ⟨x, hxr, rfl⟩
      rw [hidx] at hx2
      simp only [Nat.add_zero, List.map_id', List.mem_range] at hx2
      obtain ⟨b, hb, hbm⟩ := hlead x.2 hx2
      refine ⟨hx2, b, hb, ?_⟩
      -- indices in `r` are distinct, so the pair with index `x.2` is `x`
      have hnd : (r.map (·.2)).Nodup := by rw [hidx]; simpa using List.nodup_range
      have : (b.nodeId, x.2 + 0) = x := by
        have h1 : ((b.nodeId, x.2 + 0) : Int × Nat).2 = x.2 := by simp
        exact eq_of_nodup_map (·.2) hnd hbm hxr h1
      have : b.nodeId = x.1 := by rw [← this]
      simpa [this] using hxn
    · intro i hi
      obtain ⟨b, _, hbm⟩ := hlead i hi
      obtain ⟨ps, hps, hin⟩ := groupByNode_covers r _ hbm
      exact ⟨b.nodeId, ps, hps, by simpa using hin⟩

/-- One request per broker, carrying exactly that broker's payloads in payload order: the brokers
    of the issued requests are pairwise distinct, each request is non-empty and is the sub-list of
    payloads routed to its broker, and every payload is in the request to its broker. -/
theorem C07_one_request_per_broker {α} (routed : List (Int × α)) :
    ((groupByNode routed).map (·.1)).Nodup ∧
    (∀ n ps, (n, ps) ∈ groupByNode routed →
        ps = (routed.filter (fun x => x.1 == n)).map (·.2) ∧ ps ≠ []) ∧
    (∀ x ∈ routed, ∃ ps, (x.1, ps) ∈ groupByNode routed ∧ x.2 ∈ ps) :=
  ⟨groupByNode_nodup routed,
   fun n ps h => ⟨(groupByNode_group routed n ps h).1, groupByNode_nonempty routed n ps h⟩,
   groupByNode_covers routed⟩

/-- Group and offset-commit requests go to the group's coordinator, in ONE request carrying every
    payload in order; without a known coordinator nothing is routed. -/
theorem C07_coordinator (c : Cache) (keys : List TP) (g : String) (hne : keys ≠ []) :
    (∀ b, get? g c.groups = some b → route c keys (some g) = .ok [(b.nodeId, List.range keys.length)]) ∧
    (get? g c.groups = none → route c keys (some g) = .error .coordinatorNotAvailable) := by
  constructor
  · intro b hb
    simp only [route, hb, groupByNode]
    have hlen : 0 < keys.length := List.length_pos_iff.mpr hne
    have hmap : ((List.range keys.length).map (fun i => (b.nodeId, i))).map (·.1) = List.replicate keys.length b.nodeId := by
      simp [List.map_map, Function.comp_def, List.map_const']
    rw [hmap]
    obtain ⟨m, hm⟩ : ∃ m, keys.length = m + 1 := ⟨keys.length - 1, by omega⟩
    have hd : dedup (List.replicate (m + 1) b.nodeId) = [b.nodeId] := by
      simp only [List.replicate_succ, dedup]
      congr 1
      apply List.filter_eq_nil_iff.mpr
      intro a ha
      have := mem_dedup.mp ha
      simp only [List.mem_replicate] at this
      simp [this.2]
    rw [hm, hd]
    simp [List.filter_map, Function.comp_def, List.map_map]
  · intro hn
    simp [route, hn]

/-- Responses are ordered as the payloads were: the keys of the returned responses are exactly the
    answered payload keys, in payload order, and each response is the last answer received for its key. -/
theorem C07_order {φ} (keys : List TP) (results : List (List Nat × BrokerResult φ)) :
    ((assemble keys results).1.map (·.key) =
        keys.filter (fun k => (accOf results).any (fun r => r.key == k))) ∧
    (∀ r ∈ (assemble keys results).1, r.key ∈ keys ∧ accGet (accOf results) r.key = some r) :=
  ⟨responsesOf_keys keys _, responsesOf_mem keys _⟩

/-- The failed payloads are exactly the payloads of the failed broker requests (request order, payload
    order within a request): none is dropped and none is duplicated. -/
theorem C07_failed_payloads {φ} (keys : List TP) (results : List (List Nat × BrokerResult φ)) :
    (assemble keys results).2.map (·.1) =
      (results.filter (fun r => match r.2 with | .fail _ => true | .ok _ => false)).flatMap (·.1) :=
  failedOf_idxs results

/-- The hypotheses `hnd`/`hcover` of `C07_accounting` hold for the requests `_send_broker_aware_request` builds:
    whatever broker each payload index `0..n-1` was routed to (the resolution loop appends `(leader, i)` for
    `i = 0, 1, …`), the per-broker requests (`payloads_by_broker`, kernel `groupByNode`) carry every payload
    index exactly once. -/
theorem C07_requests_partition_payloads (routed : List (Int × Nat)) (n : Nat) (h : routed.map (·.2) = List.range n) :
    ((groupByNode routed).flatMap (·.2)).Nodup ∧ ∀ i, i < n → i ∈ (groupByNode routed).flatMap (·.2) :=
  groupByNode_partition routed n h

/-- Accounting: if the payload keys are distinct, the requests partition the payload list and every
    broker that answers, answers for exactly the partitions it was asked (`AnswersAsked`), then
    responses ∪ failed payloads account for every payload exactly once: payload `i` is among the failed
    payloads iff its key got no response, the failed payloads are listed without duplicates, and so are
    the responses (one per answered payload, in payload order — `C07_order`). -/
theorem C07_accounting {φ} (keys : List TP) (results : List (List Nat × BrokerResult φ))
    (hkeys : keys.Nodup) (hnd : (results.flatMap (·.1)).Nodup)
    (hcover : ∀ i, i < keys.length → i ∈ results.flatMap (·.1))
    (hans : ∀ idxs rs, (idxs, BrokerResult.ok rs) ∈ results → AnswersAsked keys idxs rs) :
    (∀ i (hi : i < keys.length),
      (i ∈ (assemble keys results).2.map (·.1) ↔ ¬ (accOf results).any (fun r => r.key == keys[i]) = true)) ∧
    ((assemble keys results).2.map (·.1)).Nodup ∧
    ((assemble keys results).1.map (·.key)).Nodup := by
  refine ⟨fun i hi => accounting keys results hkeys hnd hcover hans i hi, failed_nodup results hnd, ?_⟩
  show ((responsesOf keys (accOf results)).map (·.key)).Nodup
  rw [responsesOf_keys]
  exact hkeys.sublist List.filter_sublist

/-! Non-vacuity of `C07_accounting`: three payloads on two brokers, one broker fails. -/
example : AnswersAsked [("t", 1), ("t", 0), ("u", 0)] [0, 2] [⟨("u", 0), 7, 0⟩, ⟨("t", 1), 8, 0⟩] := by
  refine ⟨fun r hr => ?_, fun i hi k hk => ?_⟩
  · simp only [List.mem_cons, List.mem_nil_iff, or_false] at hr
    rcases hr with rfl | rfl
    · exact ⟨2, by simp, rfl⟩
    · exact ⟨0, by simp, rfl⟩
  · simp only [List.mem_cons, List.mem_nil_iff, or_false] at hi
    rcases hi with rfl | rfl
    · simp at hk; exact ⟨⟨("t", 1), 8, 0⟩, by simp, hk⟩
    · simp at hk; exact ⟨⟨("u", 0), 7, 0⟩, by simp, hk⟩

/-- The connected-first ordering of a broker-agnostic request keeps every known broker exactly as
    often as the shuffled list had it, and never places an unconnected broker before a connected one. -/
theorem C07_connected_first (st : St) (nodes : List Int) :
    (connectedFirst st nodes).Perm nodes ∧
    ∃ l₁ l₂, connectedFirst st nodes = l₁ ++ l₂ ∧
      (∀ n ∈ l₁, nodeConnected st n = true) ∧ (∀ n ∈ l₂, nodeConnected st n = false) := by
  refine ⟨?_, _, _, rfl, ?_, ?_⟩
  · unfold connectedFirst
    exact (List.filter_append_perm _ nodes)
  · intro n hn; exact (List.mem_filter.mp hn).2
  · intro n hn; simpa using (List.mem_filter.mp hn).2

/-- `_normalize_hosts`: the result is strictly ascending (hence unique and sorted) and contains
    exactly the parsed inputs; a `host` without port gets the default Kafka port. -/
theorem C07_normalize_hosts (hs : List HostSpec) (l : List (String × Int)) (h : normalizeHosts hs = some l) :
    l.Pairwise (fun x y => hpLt x y = true) ∧ l.Nodup ∧
    (∀ x, x ∈ l ↔ ∃ s ∈ hs, parseHost s = some x) ∧
    (∀ host : String, pySplit ':' host = [host] → HostSpec.str host ∈ hs →
        (pyStrip host, (Afkak.Consts.clientDefaultKafkaPort : Int)) ∈ l) := by
  simp only [normalizeHosts, Option.map_eq_some_iff] at h
  obtain ⟨ps, hps, rfl⟩ := h
  have hmem := mem_of_mapM_some parseHost hps
  refine ⟨sortHP_sorted ps, nodup_of_sorted (sortHP_sorted ps), fun x => by rw [mem_sortHP]; exact hmem x, ?_⟩
  intro host hc hin
  rw [mem_sortHP, hmem]
  refine ⟨_, hin, ?_⟩
  simp [parseHost, hc]

/-! Non-vacuity of `C07_normalize_hosts`: an input in all three forms, with a duplicate, a missing
    port and out of order. -/
example : normalizeHosts [.str "kafka", .tup "a" "9093", .str " b : 1 ", .str "kafka:9092"]
    = some [("a", 9093), ("b", 1), ("kafka", 9092)] := by decide +kernel
example : pySplit ':' "kafka" = ["kafka"] := by decide +kernel


/-! Non-vacuity of the routing theorems: three brokers, a leaderless partition, payloads out of order. -/
example :
    (match route { t2b := [(("t", 0), some ⟨1, "h1", 9092⟩), (("t", 1), some ⟨2, "h2", 9092⟩),
                           (("t", 2), some ⟨1, "h1", 9092⟩), (("t", 3), none)] }
        [("t", 1), ("t", 0), ("t", 2)] none with
     | .ok gs => gs == [(2, [0]), (1, [1, 2])]
     | .error _ => false) = true := by decide
example :
    (match route { t2b := [(("t", 1), some ⟨2, "h2", 9092⟩), (("t", 3), none)] } [("t", 1), ("t", 3)] none with
     | .error e => e == .leaderUnavailable 1
     | .ok _ => false) = true := by decide

/-! Non-vacuity of the order/accounting theorems: two brokers answer (one out of order, one with a
    key nobody asked), one broker fails. -/
example :
    assemble [("t", 1), ("t", 0), ("t", 2), ("t", 5)]
      [([0, 2], BrokerResult.ok [⟨("t", 2), 12, 0⟩, ⟨("t", 1), 11, 0⟩, ⟨("zz", 9), 99, 0⟩]),
       ([3], BrokerResult.fail "timedOut"), ([1], BrokerResult.ok [⟨("t", 0), 10, 6⟩])]
      = ([⟨("t", 1), 11, 0⟩, ⟨("t", 0), 10, 6⟩, ⟨("t", 2), 12, 0⟩], [(3, "timedOut")]) := by decide

/-- **The coroutine's requests and results, tied to the send they belong to** (session 5, after audit round 2 C07-1: the
    witnesses of `C07_coroutine_requests_and_results` below are existentially quantified and tied to nothing of the run).
    `SendsOk` - every send holds `routed = [(leader, 0), (leader, 1), …]` over ITS OWN key list while resolving and
    `slots = groupByNode routed` once in flight - holds in every reachable state (1) and is preserved by every action
    of the interpreter (2); in ANY state that satisfies it:
    (3) the action that hands a payload request to a broker client (`issueSlot s j`) hands it exactly group `j` of
    `groupByNode x.routed` for THE send `x = s` of that state - `x.routed` resolves every payload index of `x.keys` in
    order - with `x`'s own keys at those indices and `x`'s `expect` flag, and the broker client `b` it hands it to is a
    broker client of that group's node: so the requests of ONE send go to the pairwise distinct nodes of
    `groupByNode x.routed` (`C07_one_request_per_broker`), carry disjoint index lists that cover the payload list
    (`C07_requests_partition_payloads`), in payload order;
    (4) the action that completes a send (`sendCheck s`) delivers to the send's own operation `x.o` exactly
    `assemble x.keys results` where `results = slotResults x.expect slots` are the completions recorded in `x`'s own
    slots (`reqDone` stores the completion of request `k` in the slot whose request is `k`), one per group of
    `groupByNode x.routed` - so `C07_order`, `C07_failed_payloads`, `C07_accounting` apply to what the caller gets
    with the SEND'S keys and the SEND'S per-request results.
    Still not stated at trace level: that the leader column of `x.routed` is the cached leader at resolution time
    (the model's `sendLookup` appends `(b.nodeId, i)` for the cache entry `b` of key `i`: by definition, no theorem), and
    the correspondence between a slot's recorded completion and the `fire` event of its request across steps. -/
theorem C07_coroutine_tied_to_send (cfg : Cfg) :
    (∀ evs : List (Env × Ev), SendsOk (evs.foldl (fun s e => (step cfg s e.1 e.2).1) ({} : St))) ∧
    (∀ (st : St) (a : Act), Ids st → SendsOk st → (∀ s, a = .sendIssue s → Ready st s) → SendsOk (exec cfg st a).1) ∧
    (∀ (st : St) (s j : Nat), SendsOk st → ∀ k b e idxs ks, Ob.mk k b e (.payloads idxs ks) ∈ (exec cfg st (.issueSlot s j)).2.1 →
      ∃ (x : Send) (slots : List Slot) (sl : Slot), sendGet st s = some x ∧ x.phase = .inflight slots ∧ slots[j]? = some sl ∧
        x.routed.map (·.2) = List.range x.keys.length ∧ (groupByNode x.routed)[j]? = some (sl.node, sl.idxs) ∧
        idxs = sl.idxs ∧ ks = sl.idxs.filterMap (fun i => x.keys[i]?) ∧ e = x.expect ∧
        ∃ i ∈ (exec cfg st (.issueSlot s j)).1.bcs, i.b = b ∧ i.node = sl.node) ∧
    (∀ (st : St) (s : Nat), SendsOk st → ∀ o r, Act.opResult o r ∈ (exec cfg st (.sendCheck s)).2.2 →
      ∃ (x : Send) (slots : List Slot), sendGet st s = some x ∧ o = x.o ∧ x.phase = .inflight slots ∧
        slots.map (fun sl => (sl.node, sl.idxs)) = groupByNode x.routed ∧ x.routed.map (·.2) = List.range x.keys.length ∧
        (∀ tags, r = .responses tags → ∃ results, slotResults x.expect slots = some results ∧
            results.map (·.1) = slots.map (·.idxs) ∧ (assemble x.keys results).2 = [] ∧
            tags = (assemble x.keys results).1.map (·.tag)) ∧
        (∀ tags failed, r = .failedPayloads tags failed → ∃ results, slotResults x.expect slots = some results ∧
            results.map (·.1) = slots.map (·.idxs) ∧ failed = (assemble x.keys results).2 ∧ failed ≠ [] ∧
            tags = (assemble x.keys results).1.map (·.tag))) :=
  ⟨fun evs => (reachable_sendsOk cfg evs {} Ids.init SendsOk.init).1,
   fun st a hi hs hr => exec_sendsOk cfg st a hi hs hr,
   fun st s j hs k b e idxs ks hm => issueSlot_tied cfg st s j hs k b e idxs ks hm,
   fun st s hs o r hm => sendCheck_tied cfg st s hs o r hm⟩

/-- **The SHAPE of what the coroutine issues and returns** (every run of the client model, any event list, no hypothesis;
    NOTE (audit round 2): `keys`, `routed`, `n`, `results` below are existentially quantified - this theorem only says
    that every payload request / result occurring in a trace has the shape the kernels produce for SOME key list; the
    statement tied to the send of the run is `C07_coroutine_tied_to_send` above):
    (1) every payload request `_send_broker_aware_request` hands to a broker client carries exactly one group of
    `groupByNode routed` for a `routed` that resolves EVERY payload index `0..n-1` of its send in order - so the
    kernel theorems `C07_one_request_per_broker` / `C07_requests_partition_payloads` apply to the requests the
    coroutine issues (one request per broker, the requests partition the payload list, payload order inside each);
    (2) every `FailedPayloadsError` and (3) every response list delivered to a caller is `assemble keys results` for
    per-request results whose payload-index lists partition the payload list - the hypotheses `hnd`/`hcover` of
    `C07_accounting`, so `C07_order`, `C07_failed_payloads` and `C07_accounting` apply to what the coroutine returns.
    Proof: reachable-state invariant `SendsOk` (each send holds `routed = [(leader, 0), (leader, 1), …]` while
    resolving and `slots = groupByNode routed` once in flight) plus a stack invariant of the interpreter
    (AfkakProofs/Client/A_Coroutine.lean). -/
theorem C07_coroutine_requests_and_results (cfg : Cfg) (evs : List (Env × Ev)) :
    (∀ k b e idxs ks, TItem.ob (.mk k b e (.payloads idxs ks)) ∈ traceOf cfg {} evs →
      ∃ (keys : List TP) (routed : List (Int × Nat)) (n : Int), routed.map (·.2) = List.range keys.length ∧
        (n, idxs) ∈ groupByNode routed ∧ ks = idxs.filterMap (fun i => keys[i]?)) ∧
    (∀ o tags failed, TItem.ob (.result o (.failedPayloads tags failed)) ∈ traceOf cfg {} evs →
      ∃ (keys : List TP) (results : List (List Nat × BrokerResult Kind)),
        ((results.flatMap (·.1)).Nodup ∧ ∀ i, i < keys.length → i ∈ results.flatMap (·.1)) ∧
        failed = (assemble keys results).2 ∧ tags = (assemble keys results).1.map (·.tag)) ∧
    (∀ o tags, TItem.ob (.result o (.responses tags)) ∈ traceOf cfg {} evs →
      ∃ (keys : List TP) (results : List (List Nat × BrokerResult Kind)),
        ((results.flatMap (·.1)).Nodup ∧ ∀ i, i < keys.length → i ∈ results.flatMap (·.1)) ∧
        (assemble keys results).2 = [] ∧ tags = (assemble keys results).1.map (·.tag)) := by
  have h := trace_obOk cfg evs {} Ids.init SendsOk.init
  refine ⟨?_, ?_, ?_⟩
  · intro k b e idxs ks hm
    exact (h _ hm).1 k b e idxs ks rfl
  · intro o tags failed hm
    exact (h _ hm).2 o _ rfl
  · intro o tags hm
    exact (h _ hm).2 o _ rfl

/-! Non-vacuity of `C07_coroutine_requests_and_results`: two brokers lead three partitions; one send of three payloads
    issues two payload requests ([0, 2] to broker 1, [1] to broker 2); broker 2's request times out: the caller gets
    a `FailedPayloadsError` carrying broker 1's two responses and payload 1. -/
example :
    let cfg : Cfg := { timeout := 10, disconnectOnTimeout := false, bootHosts := [("boot", 9092)] }
    let evs : List (Env × Ev) :=
      [({ shuffles := [[], [0]] }, .load 0 []), ({}, .bootOk 0),
       ({}, .bootReply 0 (.metadata [⟨1, "h1", 9092⟩, ⟨2, "h2", 9092⟩] [⟨"t", 0, [⟨0, 0, 1⟩, ⟨0, 1, 2⟩, ⟨0, 2, 1⟩]⟩])),
       ({}, .send 1 [("t", 0), ("t", 1), ("t", 2)] none true true),
       ({}, .fire 0 (.ok (.items [(("t", 2), 0, 72), (("t", 0), 0, 70)]))), ({}, .advance 10)]
    (traceOf cfg {} evs).any (fun it => match it with
      | .ob (.mk _ _ _ (.payloads idxs _)) => idxs == [0, 2] | _ => false) = true ∧
    (traceOf cfg {} evs).any (fun it => match it with
      | .ob (.result 1 (.failedPayloads tags failed)) => tags == [70, 72] && failed.map (·.1) == [1] | _ => false) = true := by
  decide +kernel

/-- **Live broker clients sit at the address the current metadata names for their broker**: in every reachable state
    of the client model (any event list) every entry of `clients` holds exactly the `BrokerMetadata` that `_brokers`
    holds for its node id (`_update_brokers` tells every existing broker client; `_get_brokerclient` creates from
    `_brokers`) - what a broker client has queued goes to the address the metadata names NOW.  This is the rule the
    C07 monitor evaluates on every dump of the real client (`newAddr` in `Afkak.Monitor.C07.stepItem`). -/
theorem C07_clients_follow_brokers (cfg : Cfg) (evs : List (Env × Ev)) :
    let st := evs.foldl (fun s e => (step cfg s e.1 e.2).1) ({} : St)
    st.cache.clients.all (fun (cl : Int × Broker) => get? cl.1 st.cache.brokers == some cl.2) = true := by
  intro st
  have h := reachable_follows cfg evs {} (fun _ hcl => by cases hcl)
  apply List.all_eq_true.mpr
  intro cl hcl
  have := h cl hcl
  simp only [beq_iff_eq]
  exact this

/-- **"Unavailable" only after every bootstrap host was tried** (coroutine level, every event sequence): in a run
    of the client model without `close()` in which every completion the broker clients deliver for a request is a
    reply, a Kafka error or a cancellation (`benignFires`: what the real `_KafkaBrokerClient` produces), ANY operation
    (metadata load, send, `_load_topic_partitions`, …) that fails with `KafkaUnavailableError` does so only after a
    bootstrap connection attempt has been made to every configured bootstrap host.  No well-formedness, freshness or
    fuel hypothesis, and cancellations of any operation are allowed (stronger than the open statement in those
    respects).  Proof: `UInv` (AfkakProofs/Client/A_Unavail*.lean) - a stack invariant of the interpreter with the
    ghost set of hosts boot-connected so far: bootstrap lists still to be tried cover, together with the ghost set,
    all hosts; nodes still to be tried are known brokers (the broker table never shrinks); an action that can turn
    into an "unavailable" result is on the stack only when all hosts were tried. -/
theorem C07_unaware_unavailable_only_after_all_partial (cfg : Cfg) (evs : List (Env × Ev)) (o : Nat)
    (hc : noClose evs = true) (hb : benignFires evs = true)
    (hm : TItem.ob (.result o (.fail .unavailable)) ∈ traceOf cfg {} evs) :
    ∀ hp ∈ cfg.bootHosts, ∃ j, TItem.ob (.bootConnect j hp.1 hp.2) ∈ traceOf cfg {} evs :=
  unavailable_only_after_all cfg evs o hc hb hm

/-! Non-vacuity of `C07_unaware_unavailable_only_after_all_partial`: the client knows broker 1; a metadata load is tried
    on broker 1 (request times out after 10 s), then on both bootstrap hosts, which refuse: `unavailable`. -/
example :
    let cfg : Cfg := { timeout := 10, disconnectOnTimeout := false, bootHosts := [("a", 1), ("b", 2)] }
    let evs : List (Env × Ev) :=
      [({ shuffles := [[], [0, 1]] }, .load 0 []), ({}, .bootOk 0), ({}, .bootReply 0 (.metadata [⟨1, "h1", 9092⟩] [])),
       ({ shuffles := [[0]] }, .load 1 []), ({ shuffles := [[1, 0]] }, .advance 10), ({}, .bootFail 1), ({}, .bootFail 2)]
    noClose evs = true ∧ benignFires evs = true ∧
    (traceOf cfg {} evs).any (TItem.isUnavResultOf 1) = true ∧
    (traceOf cfg {} evs).any (TItem.isBootConnectTo ("b", 2)) = true := by
  decide +kernel

/-- **"Unavailable" only AFTER every bootstrap host was tried** (session 5: the restated open statement, PROVED): in
    every run of the client model without `close()` in which the broker clients complete requests with replies,
    cancellations or Kafka errors (`benignRes`), the trace splits at ANY `result o (fail unavailable)` into
    `pre ++ [result] ++ post` with a bootstrap connection attempt to every configured bootstrap host in `pre` -
    before the caller sees the error, not merely somewhere in the run.  All event sequences: no well-formedness,
    freshness, fuel or no-cancel hypothesis.  Proof: the invariant `UInv` of `…_partial` with a positional `Good`
    (AfkakProofs/Client/A5_UnavailPos.lean). -/
theorem C07_unaware_unavailable_only_after_all : Open.C07_unaware_unavailable_only_after_all := by
  intro cfg evs o hc hb hm
  have hb' : ∀ e ∈ evs, ∀ k r, e.2 = .fire k r → r.benign = true := by
    intro e he k r heq
    have := hb e he k r heq
    cases r with
    | ok p => rfl
    | err kd => cases kd <;> first | rfl | (simp [benignRes, Kind.isKafkaError] at this)
  obtain ⟨pre, post, heq, hcov⟩ := Pos.trace_unavailable_pos cfg evs {} [] (UInv.init cfg) hc hb' o hm
  refine ⟨pre, post, heq, fun hp hhp => ?_⟩
  rcases hcov hp hhp with h | h
  · cases h
  · exact h

/-! Non-vacuity: the run of the example of `…_partial` (known broker times out, both bootstrap hosts refuse) satisfies
    the hypotheses, and its `unavailable` result comes after the connection attempt to host b. -/
example :
    let cfg : Cfg := { timeout := 10, disconnectOnTimeout := false, bootHosts := [("a", 1), ("b", 2)] }
    let evs : List (Env × Ev) :=
      [({ shuffles := [[], [0, 1]] }, .load 0 []), ({}, .bootOk 0), ({}, .bootReply 0 (.metadata [⟨1, "h1", 9092⟩] [])),
       ({ shuffles := [[0]] }, .load 1 []), ({ shuffles := [[1, 0]] }, .advance 10), ({}, .bootFail 1), ({}, .bootFail 2)]
    evs.all (fun e => match e.2 with | .close _ => false | .fire _ r => benignRes r | _ => true) = true ∧
    (traceOf cfg {} evs).any (TItem.isUnavResultOf 1) = true ∧
    ((traceOf cfg {} evs).takeWhile (fun it => !TItem.isUnavResultOf 1 it)).any (TItem.isBootConnectTo ("b", 2)) = true := by
  decide +kernel

/-- **Concurrent coordinator look-ups for one group share one request** (`load_coordinator_for_group` /
    its deprecated alias `load_consumer_metadata_for_group`, `_coordinator_fetches`): in ANY state of the client model
    in which a look-up for group `g` is in flight, another `load_coordinator_for_group(g)` produces no observation at
    all - no request to any broker client, no bootstrap connection, no new broker-agnostic request instance - and the
    caller is queued as a waiter of the look-up in flight (it gets that look-up's result). -/
theorem C07_coordinator_lookups_coalesce (cfg : Cfg) (st : St) (env : Env) (o : Nat) (g : String)
    (h : st.cfetches.any (fun f => f.g == g) = true) :
    (step cfg st env (.cload o g)).2 = [] ∧
    (step cfg st env (.cload o g)).1.unawares = st.unawares ∧
    (step cfg st env (.cload o g)).1.reqs = st.reqs ∧
    ∀ f ∈ (step cfg st env (.cload o g)).1.cfetches, f.g = g → (Waiter.api o, false) ∈ f.waiters :=
  cload_joins cfg st env o g h

/-! Non-vacuity: after a bootstrap, a first look-up for g issues one FindCoordinator request; a second one while it is
    in flight issues nothing; the reply answers both callers. -/
example :
    let cfg : Cfg := { timeout := 10, disconnectOnTimeout := false, bootHosts := [("boot", 9092)] }
    let evs : List (Env × Ev) :=
      [({ shuffles := [[], [0]] }, .load 0 []), ({}, .bootOk 0), ({}, .bootReply 0 (.metadata [⟨1, "h1", 9092⟩] [])),
       ({ shuffles := [[0]] }, .cload 1 "g")]
    let st := evs.foldl (fun s e => (step cfg s e.1 e.2).1) ({} : St)
    st.cfetches.any (fun f => f.g == "g") = true ∧ (step cfg st {} (.cload 2 "g")).2 = [] ∧
    ((step cfg (step cfg st {} (.cload 2 "g")).1 {} (.fire 0 (.ok (.coord 0 ⟨1, "h1", 9092⟩)))).2.filter
      (fun ob => match ob with | .result _ .okTrue => true | _ => false)).length = 2 := by
  decide +kernel

/-- **"Tried on every known broker, connected ones first, and only then on the bootstrap hosts" - the broker loop, action
    by action** (session 5; the first half of the sentence at the level of the coroutine's actions, in ANY state):
    (1) `unawareStart` on an open client builds the list the loop walks from the shuffled known brokers: it holds every
    known broker and only known brokers, those whose broker client reports connected first;
    (2) the completion of a request of the loop moves on to the REST of that list exactly when it is a Kafka error
    (time-out, closed client, …); a reply or any other failure ends the loop;
    (3) while the list is non-empty the loop never turns to the bootstrap hosts (`bootNext` is pushed only by
    `unawareNext u []`).  The second half (bootstrap hosts, positional) is `C07_unaware_unavailable_only_after_all`.
    Not a trace-level statement: that the brokers known when the loop STARTED have all been tried before the first
    bootstrap attempt of that loop follows from (1)-(3) along the loop's own actions, but is not stated over traces
    (the monitor's `uattr`/`battr` rules check it on the real client's traces). -/
theorem C07_unaware_loop_actions (cfg : Cfg) :
    (∀ (st : St) (u : Nat), st.closing = false → ∀ st1 nodes, shuffle st (st.cache.brokers.map (·.1)) = some (st1, nodes) →
      (exec cfg st (.unawareStart u)).2.2 = [.unawareNext u (connectedFirst st1 nodes)] ∧
      (∀ n, hasKey n st.cache.brokers = true → n ∈ connectedFirst st1 nodes) ∧
      (∀ n ∈ connectedFirst st1 nodes, hasKey n st.cache.brokers = true) ∧
      ∃ l₁ l₂, connectedFirst st1 nodes = l₁ ++ l₂ ∧ (∀ n ∈ l₁, nodeConnected st1 n = true) ∧
        (∀ n ∈ l₂, nodeConnected st1 n = false)) ∧
    (∀ (st : St) (u : Nat) (rest : List Int) (k : Nat) (r : Res),
      (reqDone st (.unaware u rest) k r).2 =
        (match r with
         | .ok _ => [Act.unawareDone u r]
         | .err kind => if kind.isKafkaError then [Act.unawareNext u rest] else [Act.unawareDone u r])) ∧
    (∀ (st : St) (u : Nat) (n : Int) (rest : List Int),
      ∀ a ∈ (exec cfg st (.unawareNext u (n :: rest))).2.2, ∀ u' hosts, a ≠ .bootNext u' hosts) :=
  ⟨fun st u hc st1 nodes hsh => unawareStart_order cfg st u hc st1 nodes hsh,
   fun st u rest k r => unaware_reqDone st u rest k r,
   fun st u n rest => unawareNext_no_boot cfg st u n rest⟩

/-- The statement `C07_unaware_unavailable_only_after_all_v1` (sessions 3-4) is FALSE of the model as stated: the model lets a broker
    client fail a request with ANY failure kind, and `_send_broker_unaware_request` only swallows `KafkaError`s: a
    request failing with, say, a connection-lost error ends the broker loop, `_handleMetadataErr` turns the failure
    into `KafkaUnavailableError`, and the bootstrap hosts are never tried (witness `UnavailWitness`: host b is never
    connected).  In the code the only way a `_KafkaBrokerClient` fails a request like that is `proto.sendString`
    raising inside `_sendRequest` (`tReq.d.errback(e)` with the raw exception), which the in-memory network cannot
    provoke: the statement needs the environment assumption `benignFires` (then it is
    `C07_unaware_unavailable_only_after_all_partial`); it stays open as stated. -/
theorem C07_unaware_unavailable_only_after_all_counterexample : ¬ Open.C07_unaware_unavailable_only_after_all_v1 := by
  open UnavailWitness in
  intro h
  have hwf : WellFormedRun cfg evs := ⟨by decide +kernel, noBadOp_of_all (by decide +kernel)⟩
  have hnf : NoFuel cfg {} evs := by
    simp only [evs, NoFuel, and_true]
    decide +kernel
  have hne : ∀ e ∈ evs, (∀ o', e.2 ≠ .close o') ∧ e.2 ≠ .cancel 1 := by
    intro e he
    simp only [evs, List.mem_cons, List.not_mem_nil, or_false] at he
    rcases he with rfl | rfl | rfl | rfl | rfl <;> exact ⟨fun o' hh => (by cases hh), fun hh => (by cases hh)⟩
  have := h cfg evs 1 hwf hnf hne (mem_unavResult_of_any (by decide +kernel)) ("b", 2) (by decide)
  exact no_bootConnect_of_all (hp := ("b", 2)) (tr := traceOf cfg {} evs) (by decide +kernel) this

/-- The statement `C07_model_traces_satisfy_monitor_v1` (sessions 3-4) is FALSE of the model as stated (session 5): `WellFormedRun`
    admits a `connected()` report (`Ev.conn b v`) for a broker client that does not exist yet - a silent no-op of the
    model (no `badOp`), but the monitor files the report under the id `b`; the broker client created later with that id
    is connected for the monitor and unconnected for the model, and a broker-agnostic request ordered by the model
    (both brokers unconnected: shuffle order) violates the monitor's "connected brokers first" rule (witness
    `MonWitness`: `conn 0 true` before any broker client exists).  The real client cannot produce this history (the
    harness polls `connected()` of broker clients that exist): the statement is too strong, not the code defective; a
    true version needs the hypothesis `connKnown`: the open statement `C07_model_traces_satisfy_monitor` is restated with it. -/
theorem C07_model_traces_satisfy_monitor_counterexample : ¬ Open.C07_model_traces_satisfy_monitor_v1 := by
  open MonWitness in
  intro h
  have hwf : WellFormedRun cfg evs := ⟨by decide +kernel, noBadOp_of_all' (by decide +kernel)⟩
  have hnf : NoFuel cfg {} evs := by
    simp only [evs, NoFuel, and_true]
    decide +kernel
  have := h cfg evs hwf hnf
  revert this
  decide +kernel

/-! The witness is excluded by `connKnown`; the runs of the other examples of this file satisfy it. -/
example : connKnown MonWitness.cfg {} MonWitness.evs = false := by decide +kernel

end Afkak.Props.C07

/- OBLIGATIONS
C07_routed_to_leader
C07_one_request_per_broker
C07_coordinator
C07_order
C07_failed_payloads
C07_accounting
C07_requests_partition_payloads
C07_connected_first
C07_normalize_hosts
C07_unaware_unavailable_only_after_all_partial
C07_unaware_unavailable_only_after_all_counterexample
C07_coroutine_requests_and_results
C07_clients_follow_brokers
C07_model_traces_satisfy_monitor_counterexample
C07_unaware_unavailable_only_after_all
C07_coordinator_lookups_coalesce
C07_coroutine_tied_to_send
C07_unaware_loop_actions
-/
/- OPEN_STATEMENTS
C07_model_traces_satisfy_monitor
-/
