import AfkakProps.Open.C19
import Afkak.Monitor.C19
import AfkakProofs.Producer.AccTrace
import AfkakProofs.Producer.Stop
import AfkakProofs.Producer.Sids
import AfkakProofs.Producer.Once
/-!
# C19 — Batching thresholds, time limit and cancellation behave as documented
Property theorems only.  Model: `Afkak/Producer.lean`; monitors: `Afkak/Monitor/C19.lean`.
-/
namespace Afkak.Props.C19
open Afkak.Producer Afkak.Monitor.ProducerTrace Afkak.Monitor.C19

/-- Accounting: after EVERY event of every event list, `_waitingMsgCount` / `_waitingByteCount` are
    the sums of message counts / byte lengths over the sends still queued — whatever interleaving
    of sends, cancels, dispatches and stop produced the queue; in particular zero when it is empty. -/
theorem C19_accounting (cfg : Cfg) (evs : List Ev) : accounting cfg (traceOf cfg evs) = true :=
  accounting_model cfg evs

/-- … as a state invariant (what the trace monitor reads off the snapshots). -/
theorem C19_accounting_state (cfg : Cfg) (evs : List Ev) :
    AccInv (run cfg (St.init cfg) evs).1 := by
  suffices h : ∀ st, AccInv st → AccInv (run cfg st evs).1 from h _ (acc_init cfg)
  induction evs with
  | nil => intro st h; exact h
  | cons e rest ih => intro st h; simp only [run]; exact ih _ (step_acc cfg st e h)

/-- Cancelling a send before dispatch guarantees its messages are never transmitted: in every reachable
    state (any event list `before`), if the send is still queued and its Deferred has not fired, then
    after `cancel` no `produce` observation of ANY continuation `after` carries it. -/
theorem C19_cancel_before_dispatch_never_sent (cfg : Cfg) (before after : List Ev) (sid : Sid)
    (hq : sid ∈ (run cfg (St.init cfg) before).1.queue.map (·.sid))
    (ho : sid ∈ (run cfg (St.init cfg) before).1.outstanding) :
    ∀ rid ps, Ob.produce rid ps ∈ (run cfg (run cfg (St.init cfg) before).1 (.cancel sid :: after)).2 →
      sid ∉ payloadSids ps := by
  have hk := kinv_run cfg before _ (kinv_init cfg)
  obtain ⟨g1, g2⟩ := cancel_gone cfg _ sid hk hq ho
  intro rid ps hm
  simp only [run] at hm
  rcases List.mem_append.mp hm with hm | hm
  · exact absurd hm (g2 rid ps)
  · exact gone_run cfg after _ sid g1 rid ps hm

/-- Stop transmits nothing further — for ANY state `st` (reachable or not) in which `stop` is enabled,
    any answer of the client to the cancels (`pout`, `mouts`, `wipe`), and ANY later event list: neither
    the `stop` step nor any later step emits a `produce` or a `loadMeta` observation.  (F8: before the
    fix the real client's answer to the cancel scheduled a retry and the payloads went out after stop.) -/
theorem C19_stop_transmits_nothing (cfg : Cfg) (st : St) (wipe : Bool) (pout : Option ProdRes)
    (mouts : List (Rid × MetaRes)) (hv : stopValid st pout = true) (later : List Ev) :
    noTx (step cfg st (.stop wipe pout mouts)).2 ∧
    noTx (run cfg (step cfg st (.stop wipe pout mouts)).1 later).2 := by
  obtain ⟨h1, h2⟩ := stop_establishes cfg st wipe pout mouts hv
  exact ⟨h1, run_after_stop cfg _ later h2⟩

/-- Stop fires every outstanding send before it returns: afterwards `_outstanding` is empty and every
    Deferred that was outstanding fired in the `stop` step itself (with what: C01 says `ok` only if
    acknowledged; everything else is an error) — for any state whose `_outstanding` has no duplicates. -/
theorem C19_stop_fires_all (cfg : Cfg) (st : St) (wipe : Bool) (pout : Option ProdRes) (mouts : List (Rid × MetaRes))
    (hv : stopValid st pout = true) (hn : st.outstanding.Nodup) :
    (step cfg st (.stop wipe pout mouts)).1.outstanding = [] ∧
    ∀ s ∈ st.outstanding, s ∈ firedSids (step cfg st (.stop wipe pout mouts)).2 :=
  stop_fires_all cfg st wipe pout mouts hv hn

/-- … and `_outstanding` never has duplicates in a reachable state, so the hypothesis above holds. -/
theorem C19_outstanding_nodup (cfg : Cfg) (evs : List Ev) : (run cfg (St.init cfg) evs).1.outstanding.Nodup := by
  suffices h : ∀ st, st.outstanding.Nodup ∧ (∀ s ∈ st.outstanding, s < st.nextSid) →
      (run cfg st evs).1.outstanding.Nodup from h _ ⟨by simp [St.init], by simp [St.init]⟩
  induction evs with
  | nil => intro st h; exact h.1
  | cons e rest ih =>
    intro st h
    simp only [run]
    apply ih
    obtain ⟨hn, hlt, _, _⟩ := outPlus_spec (cfg := cfg) (t := {}) st e ⟨h.1, h.2, by simp⟩
    have fd := step_fd cfg st e
    exact ⟨fd.nodup hn, fun s hs => hlt s (fd.sub s hs)⟩

/-! Non-vacuity: a stop with a produce in flight whose cancel the client answers the way the real
client does; the retry timer fires later; nothing goes out.  And: counters move and come back to zero through cancels. -/
def exCfg : Cfg := Cfg.ofArgs 1 3 (1/4) true 10 0 (some 1) false
def exCfg2 : Cfg := Cfg.ofArgs 1 5 (1/4) false 1 1 none false
def exEvs2 : List Ev := [.metaSet 0 0 (some [0, 1]), .send 0 0 none [some 10]]
/- a queued send is cancelled; the batch later goes out without it -/
example : (run exCfg (St.init exCfg) [.metaSet 0 0 (some [0]), .send 0 0 none [some 3], .send 1 0 none [some 4], .cancel 0, .tick]).2
    = [.fire 0 (.err (.acancelled (some false))), .produce 0 [⟨⟨0, 0⟩, [1]⟩]] := by decide +kernel
example : stopValid (run exCfg2 (St.init exCfg2) exEvs2).1 (some (.failed [] [⟨⟨0, 0⟩, .tcancelled, true⟩])) = true := by
  decide +kernel
example : (run exCfg2 (St.init exCfg2) (exEvs2 ++ [.stop true (some (.failed [] [⟨⟨0, 0⟩, .tcancelled, true⟩])) [], .timer 0, .tick])).2
    = [.produce 0 [⟨⟨0, 0⟩, [0]⟩], .cancelReq 0, .fire 0 (.err (.acancelled (some false))), .badOp, .badOp] := by
  decide +kernel
example : ((traceOf exCfg [.send 0 0 none [some 3, none], .send 1 1 none [some 5], .cancel 0]).map
    (fun s => (s.post.queue, s.post.msgCount, s.post.byteCount))) = [([0], 2, 3), ([0, 1], 3, 8), ([1], 1, 5)] := by
  decide +kernel

end Afkak.Props.C19

/- OBLIGATIONS
C19_accounting
C19_accounting_state
C19_cancel_before_dispatch_never_sent
C19_stop_transmits_nothing
C19_stop_fires_all
C19_outstanding_nodup
-/
/- OPEN_STATEMENTS
C19_dispatch_iff
C19_cancel
C19_cancel_later_detaches
C19_stop
C19_wait_bound
-/
