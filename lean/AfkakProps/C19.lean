import AfkakProps.Open.C19
import Afkak.Monitor.C19
import AfkakProofs.Producer.AccTrace
/-!
# C19 — Batching thresholds, time limit and cancellation behave as documented
Property theorems only.  Model: `Afkak/Producer.lean`; monitors: `Afkak/Monitor/C19.lean`.
-/
namespace Afkak.Props.C19
open Afkak.Producer Afkak.Monitor.ProducerTrace Afkak.Monitor.C19

/-- Accounting: after EVERY event of every event list, `_waitingMsgCount` / `_waitingByteCount` are
    the sums of message counts / byte lengths over the sends still queued — whatever interleaving
    of sends, cancels, dispatches and stop produced the queue; in particular zero when it is empty. -/
theorem C19_accounting (cfg : Cfg) (evs : List Ev) : accounting cfg (traceOf cfg evs) = true :=
  accounting_model cfg evs

/-- … as a state invariant (what the trace monitor reads off the snapshots). -/
theorem C19_accounting_state (cfg : Cfg) (evs : List Ev) :
    AccInv (run cfg (St.init cfg) evs).1 := by
  suffices h : ∀ st, AccInv st → AccInv (run cfg st evs).1 from h _ (acc_init cfg)
  induction evs with
  | nil => intro st h; exact h
  | cons e rest ih => intro st h; simp only [run]; exact ih _ (step_acc cfg st e h)

/-! Non-vacuity: counters move and come back to zero through cancels. -/
def exCfg : Cfg := Cfg.ofArgs 1 3 (1/4) true 10 0 (some 1) false
example : ((traceOf exCfg [.send 0 0 none [some 3, none], .send 1 1 none [some 5], .cancel 0]).map
    (fun s => (s.post.queue, s.post.msgCount, s.post.byteCount))) = [([0], 2, 3), ([0, 1], 3, 8), ([1], 1, 5)] := by
  decide +kernel

end Afkak.Props.C19

/- OBLIGATIONS
C19_accounting
C19_accounting_state
-/
/- OPEN_STATEMENTS
C19_dispatch_iff
C19_cancel
C19_stop
C19_wait_bound
-/
