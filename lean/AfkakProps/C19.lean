import Afkak.Monitor.C19
import AfkakProofs.Producer.AccTrace
import AfkakProofs.Producer.Stop
import AfkakProofs.Producer.Sids
import AfkakProofs.Producer.Once
import AfkakProofs.Producer.StopTrace
import AfkakProofs.Producer.Dispatch
import AfkakProofs.Producer.Wait
import AfkakProofs.Producer.ReentrantExt
import AfkakProofs.Producer.ReentrantTail
import AfkakProofs.Producer.AfterStop
import AfkakProofs.Producer.IdleOver
/-!
# C19 — Batching thresholds, time limit and cancellation behave as documented
Property theorems only.  Model: `Afkak/Producer.lean`; monitors: `Afkak/Monitor/C19.lean`.
-/
namespace Afkak.Props.C19
open Afkak.Producer Afkak.Monitor.ProducerTrace Afkak.Monitor.C19

/-- Accounting: after EVERY event of every event list, `_waitingMsgCount` / `_waitingByteCount` are
    the sums of message counts / byte lengths over the sends still queued — whatever interleaving
    of sends, cancels, dispatches and stop produced the queue; in particular zero when it is empty. -/
theorem C19_accounting (cfg : Cfg) (evs : List Ev) : accounting cfg (traceOf cfg evs) = true :=
  accounting_model cfg evs

/-- Dispatch exactly when it should — trace level, for EVERY event list: (i) after every step the producer
    is never idle (`_batch_send_d is None`) with a non-empty queue whose message count or byte count is over its
    (non-zero) threshold - stopped or not (once stopped the queue is empty) - a threshold met while a batch is
    in flight takes effect in the very step that resolves the batch; (ii) whenever a step takes the queue other
    than by the periodic tick, a threshold was met on the queue as it stood at that check (including the send
    just made, without the send just cancelled); (iii) a tick of the running looping call with no batch in
    flight takes a non-empty queue; (iv) the queue is never taken once stopped; (v) the queue is taken ONLY WHEN
    NO BATCH IS IN FLIGHT: nothing was in flight before the step, or the step takes the client's answer to the
    request in flight (unanswered before, answered after), or the step is a look-up answer (metadata result,
    back-off timer) for a batch none of whose requests is unanswered - a dispatch while a produce request is
    out and stays out is rejected. -/
theorem C19_dispatch_iff (cfg : Cfg) (evs : List Ev) : dispatchIff cfg (traceOf cfg evs) = true :=
  dispatchIff_model cfg evs

/-- Never idle over a threshold — trace level, for EVERY event list: after every step the producer is not left with
    no batch in flight and a non-empty queue over the count or byte threshold (clause (i) of `C19_dispatch_iff` on its
    own, `Afkak/Monitor/C19Idle.lean`).  It speaks about the bookkeeping AFTER a step only; the harness therefore
    evaluates this monitor also on implementation traces whose steps contain re-entrant calls from callbacks of send
    Deferreds (a send made from the callback of a batch that completes inside `_send_batch()` must be dispatched
    when that batch resolves), where the other flat monitors are not evaluated. -/
theorem C19_never_idle_over_threshold (cfg : Cfg) (evs : List Ev) : neverIdleOver cfg (traceOf cfg evs) = true :=
  neverIdleOver_model cfg evs

/-- Wait bound (time limit) — in model time.  `tick` is an input event of the model; WHEN the looping call
    ticks is an assumption on the environment, `Afkak.Monitor.C19.scheduleFrom` (Twisted's `LoopingCall`
    over the reactor clock: calls at `start + k·T`, a late call is made once and the missed multiples are
    skipped, nothing else runs while a call is overdue; `_send_batch` returns `None`, so the looping call
    never waits on a Deferred of its callee) - checked on every trace of the real Producer as monitor
    `c19-schedule`.
    From any reachable state (`pre` arbitrary) with NO BATCH IN FLIGHT, the looping call running and due
    within one period (`due ≤ now + T`): if the trace that follows obeys the schedule, then at any event -
    other than a timer firing - that comes more than `T` later, no send that was queued is still queued:
    it was dispatched (by the tick or by a threshold), or cancelled.  It never returns to the queue. -/
theorem C19_wait_bound (cfg : Cfg) (T : Rat) (pre evs : List Ev) (e : Ev) (rest : List Ev) (now due : Rat)
    (hidle : (run cfg (St.init cfg) pre).1.phase = .idle) (hl : (run cfg (St.init cfg) pre).1.looper = true)
    (hs : (run cfg (St.init cfg) pre).1.stopping = false) (hdue : due ≤ now + T)
    (hsched : scheduleFrom T now due true (traceFrom cfg (run cfg (St.init cfg) pre).1 (evs ++ e :: rest)) = true)
    (he : notTT e)
    (hlate : now + T < (clockFrom T now due (traceFrom cfg (run cfg (St.init cfg) pre).1 evs)).1) :
    ∀ sid ∈ queued (run cfg (St.init cfg) pre).1, sid ∉ queued (run cfg (run cfg (St.init cfg) pre).1 evs).1 :=
  wait_bound_scheduled cfg T _ (reach_run cfg pre _ (reach_init cfg)) hidle hl hs now due hdue evs e rest hsched he hlate

/-- … the same without the schedule assumption, in terms of the clock alone: more than one period has
    passed and the looping call is not overdue (the reactor has run what was due). -/
theorem C19_wait_bound_clock (cfg : Cfg) (T : Rat) (pre evs : List Ev) (now due : Rat)
    (hidle : (run cfg (St.init cfg) pre).1.phase = .idle) (hl : (run cfg (St.init cfg) pre).1.looper = true)
    (hs : (run cfg (St.init cfg) pre).1.stopping = false) (hdue : due ≤ now + T)
    (hlate : now + T < (clockFrom T now due (traceFrom cfg (run cfg (St.init cfg) pre).1 evs)).1)
    (hsettled : ¬ ((run cfg (run cfg (St.init cfg) pre).1 evs).1.looper = true ∧
      (clockFrom T now due (traceFrom cfg (run cfg (St.init cfg) pre).1 evs)).2 ≤
        (clockFrom T now due (traceFrom cfg (run cfg (St.init cfg) pre).1 evs)).1)) :
    ∀ sid ∈ queued (run cfg (St.init cfg) pre).1, sid ∉ queued (run cfg (run cfg (St.init cfg) pre).1 evs).1 :=
  wait_bound cfg T _ (reach_run cfg pre _ (reach_init cfg)) hidle hl hs now due hdue evs hlate hsettled

/-- Cancellation — trace level, for EVERY event list.  Cancelling a QUEUED send: it has never been in a
    request and never will be (checked at every later produce request), its Deferred fires
    `CancelledError(request_sent=False)` and nothing else happens, and it leaves `_batch_reqs`, both
    counters (by exactly its message count and byte length) and `_outstanding` at once.  Cancelling a send
    that was already dispatched only detaches the caller: its Deferred fires `CancelledError`
    (`request_sent` telling whether a batch is in flight), it leaves `_outstanding`, and nothing else
    changes - no request is cancelled, the batch goes on.  Cancelling a fired (or unknown) send does
    nothing. -/
theorem C19_cancel (cfg : Cfg) (evs : List Ev) : Afkak.Monitor.C19.cancel cfg (traceOf cfg evs) = true :=
  cancel_model cfg evs

/-- … and after a late cancel the batch still resolves everyone else: on traces that contain a cancel of a
    dispatched send, whenever no batch is in flight everything outstanding is still queued (C01's
    exactly-once check), given the client's accounting (C07). -/
theorem C19_cancel_later_detaches (cfg : Cfg) (evs : List Ev) : detach cfg (traceOf cfg evs) = true :=
  detach_model cfg evs

/-- Stop — trace level, for EVERY event list: when an (enabled) `stop()` returns, `_outstanding` is empty
    and every Deferred that was outstanding has fired inside it; the looping call is stopped; the queue is
    empty; if the client's answer to the cancel of the in-flight produce request is one of its cancel
    outcomes (still pending, failed payloads, a KafkaError, CancelledError) every Deferred fired in
    `stop()` failed with a CANCELLATION error - or truthfully succeeded with the acknowledgement that
    answer still carried (C01 checks those); nothing is transmitted (no produce request, no metadata
    request) in `stop()` or in any later step; after `stop()` and after EVERY later step nothing is outstanding
    and nothing is queued; and a `send_messages` made after it fires its Deferred at once, with
    `CancelledError(request_sent=False)`, and nothing else happens.  The two conditions in the monitor are on the
    ENVIRONMENT (see its docstring): the client's answer to the cancel names only payloads of the request (C07;
    else the model takes no step), and the cancellation KINDS are promised for the real client's cancel outcomes. -/
theorem C19_stop (cfg : Cfg) (evs : List Ev) : Afkak.Monitor.C19.stop cfg (traceOf cfg evs) = true :=
  stop_model cfg evs

/-- Once `stop()` has begun — in EVERY reachable state: nothing is outstanding and nothing is queued. -/
theorem C19_stopped_nothing_pending (cfg : Cfg) (evs : List Ev)
    (hs : (run cfg (St.init cfg) evs).1.stopping = true) :
    (run cfg (St.init cfg) evs).1.outstanding = [] ∧ (run cfg (St.init cfg) evs).1.queue = [] :=
  reach_stopped_empty (reach_run cfg evs _ (reach_init cfg)) hs

/-- … and a `send_messages` (with messages) made then is refused at once: its Deferred fires with
    `CancelledError(request_sent=False)` in the call; it is not queued and not outstanding; nothing else changes
    (F29: it used to be queued for ever). -/
theorem C19_send_after_stop_refused (cfg : Cfg) (st : St) (topic : Topic) (key : Option (List UInt8))
    (msgs : List (Option Nat)) (hs : st.stopping = true) (hm : msgs ≠ []) :
    step cfg st (.send st.nextSid topic key msgs) =
      ({ st with nextSid := st.nextSid + 1 }, [.fire st.nextSid (.err (.acancelled (some false)))]) :=
  send_after_stop cfg st topic key msgs hs hm

/-- … as a state invariant (what the trace monitor reads off the snapshots). -/
theorem C19_accounting_state (cfg : Cfg) (evs : List Ev) :
    AccInv (run cfg (St.init cfg) evs).1 := by
  suffices h : ∀ st, AccInv st → AccInv (run cfg st evs).1 from h _ (acc_init cfg)
  induction evs with
  | nil => intro st h; exact h
  | cons e rest ih => intro st h; simp only [run]; exact ih _ (step_acc cfg st e h)

/-- Cancelling a send before dispatch guarantees its messages are never transmitted: in every reachable
    state (any event list `before`), if the send is still queued and its Deferred has not fired, then
    after `cancel` no `produce` observation of ANY continuation `after` carries it. -/
theorem C19_cancel_before_dispatch_never_sent (cfg : Cfg) (before after : List Ev) (sid : Sid)
    (hq : sid ∈ (run cfg (St.init cfg) before).1.queue.map (·.sid))
    (ho : sid ∈ (run cfg (St.init cfg) before).1.outstanding) :
    ∀ rid ps, Ob.produce rid ps ∈ (run cfg (run cfg (St.init cfg) before).1 (.cancel sid :: after)).2 →
      sid ∉ payloadSids ps := by
  have hk := kinv_run cfg before _ (kinv_init cfg)
  obtain ⟨g1, g2⟩ := cancel_gone cfg _ sid hk hq ho
  intro rid ps hm
  simp only [run] at hm
  rcases List.mem_append.mp hm with hm | hm
  · exact absurd hm (g2 rid ps)
  · exact gone_run cfg after _ sid g1 rid ps hm

/-- Stop transmits nothing further — for ANY state `st` (reachable or not) in which `stop` is enabled,
    any answer of the client to the cancels (`pout`, `mouts`, `wipe`), and ANY later event list: neither
    the `stop` step nor any later step emits a `produce` or a `loadMeta` observation.  (F8: before the
    fix the real client's answer to the cancel scheduled a retry and the payloads went out after stop.) -/
theorem C19_stop_transmits_nothing (cfg : Cfg) (st : St) (wipe : Bool) (pout : Option ProdRes)
    (mouts : List (Rid × MetaRes)) (hv : stopValid st pout = true) (later : List Ev) :
    noTx (step cfg st (.stop wipe pout mouts)).2 ∧
    noTx (run cfg (step cfg st (.stop wipe pout mouts)).1 later).2 := by
  obtain ⟨h1, h2⟩ := stop_establishes cfg st wipe pout mouts hv
  exact ⟨h1, run_after_stop cfg _ later h2⟩

/-- Stop fires every outstanding send before it returns: afterwards `_outstanding` is empty and every
    Deferred that was outstanding fired in the `stop` step itself (with what: C01 says `ok` only if
    acknowledged; everything else is an error) — for any state whose `_outstanding` has no duplicates. -/
theorem C19_stop_fires_all (cfg : Cfg) (st : St) (wipe : Bool) (pout : Option ProdRes) (mouts : List (Rid × MetaRes))
    (hv : stopValid st pout = true) (hn : st.outstanding.Nodup) :
    (step cfg st (.stop wipe pout mouts)).1.outstanding = [] ∧
    ∀ s ∈ st.outstanding, s ∈ firedSids (step cfg st (.stop wipe pout mouts)).2 :=
  stop_fires_all cfg st wipe pout mouts hv hn

/-- … and `_outstanding` never has duplicates in a reachable state, so the hypothesis above holds. -/
theorem C19_outstanding_nodup (cfg : Cfg) (evs : List Ev) : (run cfg (St.init cfg) evs).1.outstanding.Nodup := by
  suffices h : ∀ st, st.outstanding.Nodup ∧ (∀ s ∈ st.outstanding, s < st.nextSid) →
      (run cfg st evs).1.outstanding.Nodup from h _ ⟨by simp [St.init], by simp [St.init]⟩
  induction evs with
  | nil => intro st h; exact h.1
  | cons e rest ih =>
    intro st h
    simp only [run]
    apply ih
    obtain ⟨hn, hlt, _, _⟩ := outPlus_spec (cfg := cfg) (t := {}) st e ⟨h.1, h.2, by simp⟩
    have fd := step_fd cfg st e
    exact ⟨fd.nodup hn, fun s hs => hlt s (fd.sub s hs)⟩

/-! Non-vacuity: a stop with a produce in flight whose cancel the client answers the way the real
client does; the retry timer fires later; nothing goes out.  And: counters move and come back to zero through cancels. -/
def exCfg : Cfg := Cfg.ofArgs 1 3 (1/4) true 10 0 (some 1) false
def exCfg2 : Cfg := Cfg.ofArgs 1 5 (1/4) false 1 1 none false
def exEvs2 : List Ev := [.metaSet 0 0 (some [0, 1]), .send 0 0 none [some 10]]
/- a queued send is cancelled; the batch later goes out without it -/
example : (run exCfg (St.init exCfg) [.metaSet 0 0 (some [0]), .send 0 0 none [some 3], .send 1 0 none [some 4], .cancel 0, .tick]).2
    = [.fire 0 (.err (.acancelled (some false))), .produce 0 [⟨⟨0, 0⟩, [1], [⟨none, some 4⟩]⟩]] := by decide +kernel
example : stopValid (run exCfg2 (St.init exCfg2) exEvs2).1 (some (.failed [] [⟨⟨0, 0⟩, .tcancelled, true⟩])) = true := by
  decide +kernel
example : (run exCfg2 (St.init exCfg2) (exEvs2 ++ [.stop true (some (.failed [] [⟨⟨0, 0⟩, .tcancelled, true⟩])) [], .timer 0, .tick])).2
    = [.produce 0 [⟨⟨0, 0⟩, [0], [⟨none, some 10⟩]⟩], .cancelReq 0, .fire 0 (.err (.acancelled (some false))), .badOp, .badOp] := by
  decide +kernel
example : ((traceOf exCfg [.send 0 0 none [some 3, none], .send 1 1 none [some 5], .cancel 0]).map
    (fun s => (s.post.queue, s.post.msgCount, s.post.byteCount))) = [([0], 2, 3), ([0, 1], 3, 8), ([1], 1, 5)] := by
  decide +kernel

/-! ## Re-entrant callbacks (`Afkak/ProducerR.lean`)

The callbacks a caller attaches to the Deferreds of `send_messages` may call back into the Producer
(`send_messages`, cancel of another send, `stop()`); Twisted runs them synchronously, in the middle of the loop
that fires the Deferreds.  `ProducerR` is the same machine with those loops threading the whole state; the
driver and the correspondence check run IT (the scenarios attach such callbacks to a share of the sends). -/

/-- Conservative extension: on event lists without hooks the re-entrant machine IS the flat one - same
    states, same observations - so every theorem above is about the machine the implementation is compared
    with.  (`depth`: how deep hooks may nest; irrelevant without hooks.) -/
theorem C19_reentrant_conservative (cfg : Cfg) (depth : Nat) (c : St) (evs : List Ev) :
    Afkak.ProducerR.runR cfg depth (Afkak.ProducerR.ofCore c) (evs.map .flat) =
      (Afkak.ProducerR.ofCore (run cfg c evs).1, Afkak.ProducerR.lift (run cfg c evs).2) :=
  Afkak.ProducerR.runR_flat cfg depth c evs

/-- … step by step, whatever would execute the calls of hooks. -/
theorem C19_reentrant_conservative_step (cfg : Cfg) (act : Afkak.ProducerR.Act) (c : St) (e : Ev) :
    Afkak.ProducerR.stepCore cfg act (Afkak.ProducerR.ofCore c) e =
      (Afkak.ProducerR.ofCore (step cfg c e).1, Afkak.ProducerR.lift (step cfg c e).2) :=
  Afkak.ProducerR.stepCore_flat cfg act c e

/-- Transfer of the flat theorems to hooked runs, as far as it goes: a hook that fires in TAIL position runs
    when the Producer's own code has finished, so the hooked step IS a flat run on the rewritten event list
    "the step, then the hook's calls" (`flatten`: the ids of sends made by the hook are the next free ones) -
    same final state, same observations up to the hook markers - and every theorem about `run` applies to it.
    Case 1: the caller cancels a hooked send (the only hook). -/
theorem C19_reentrant_tail_cancel (cfg : Cfg) (n : Nat) (c : St) (sid : Sid) (h : Afkak.ProducerR.Hook)
    (hlt : sid < c.nextSid) (ho : sid ∈ c.outstanding) :
    (Afkak.ProducerR.stepR cfg (n + 1) { core := c, hooks := [(sid, h)], running := false } (.flat (.cancel sid))).1 =
      Afkak.ProducerR.ofCore (run cfg c (Ev.cancel sid :: Afkak.ProducerR.flatten cfg (cancelSend c sid).1 h)).1 ∧
    Afkak.ProducerR.flatObs
        (Afkak.ProducerR.stepR cfg (n + 1) { core := c, hooks := [(sid, h)], running := false } (.flat (.cancel sid))).2 =
      (run cfg c (Ev.cancel sid :: Afkak.ProducerR.flatten cfg (cancelSend c sid).1 h)).2 :=
  Afkak.ProducerR.cancel_hooked cfg n c sid h hlt ho

/-- Case 2: a hooked send that `send_messages` refuses (no messages): its callback runs as it is attached.
    (A hook that fires in the MIDDLE of a firing loop has no flat equivalent - F27/F28 live there; such runs
    are compared with `ProducerR` only.) -/
theorem C19_reentrant_tail_refused (cfg : Cfg) (n : Nat) (c : St) (topic : Topic) (key : Option (List UInt8))
    (h : Afkak.ProducerR.Hook) (hno : c.nextSid ∉ c.outstanding) :
    (Afkak.ProducerR.stepR cfg (n + 1) (Afkak.ProducerR.ofCore c) (.sendH c.nextSid topic key [] h)).1 =
      Afkak.ProducerR.ofCore (run cfg c (Ev.send c.nextSid topic key [] ::
        Afkak.ProducerR.flatten cfg { c with nextSid := c.nextSid + 1 } h)).1 ∧
    Afkak.ProducerR.flatObs (Afkak.ProducerR.stepR cfg (n + 1) (Afkak.ProducerR.ofCore c) (.sendH c.nextSid topic key [] h)).2 =
      (run cfg c (Ev.send c.nextSid topic key [] :: Afkak.ProducerR.flatten cfg { c with nextSid := c.nextSid + 1 } h)).2 :=
  Afkak.ProducerR.sendH_refused cfg n c topic key h hno

/-- Finding F27 (fixed 2a89c0b), in the re-entrant machine: whatever the callbacks of the sends that fail in
    `_send_requests`' loop do (`act` arbitrary - e.g. call `stop()`), `_send_requests` lets a produce request
    go out only if the Producer is not stopping at that moment. -/
theorem C19_reentrant_no_request_once_stopping (act : Afkak.ProducerR.Act) (st : Afkak.ProducerR.StR) (ls : List Lookup)
    (h : (Afkak.ProducerR.sendRequests act st ls).2.2 = false) :
    (Afkak.ProducerR.sendRequests act st ls).1.core.stopping = false :=
  Afkak.ProducerR.sendRequests_not_stopping act st ls h

/-! Non-vacuity of the wait bound: a timed producer (`batch_every_t = 1`, thresholds out of reach); a send waits
for the tick; the trace obeys the schedule (also with a late tick: the clock jumps to 5/2, one call, next due 3). -/
def exCfgT : Cfg := Cfg.ofArgs 1 3 (1/4) true 100 10000 (some 1) false
def exEvsT : List Ev :=
  [.metaSet 0 0 (some [0]), .send 0 0 none [some 3], .advance (1/2), .send 1 0 none [some 2], .advance (1/2), .tick,
   .produceDone 0 (.responses [⟨⟨0, 0⟩, 0, 7⟩]), .send 2 0 none [some 1], .advance (3/2), .tick]
example : schedule exCfgT (traceOf exCfgT exEvsT) = true := by decide +kernel
example : (traceOf exCfgT exEvsT).map (·.post.queue) = [[], [0], [0], [0, 1], [0, 1], [], [], [2], [2], []] := by
  decide +kernel
example : clockFrom 1 0 1 (traceOf exCfgT exEvsT) = (5/2, 3) := by decide +kernel
/-- a tick that is not due breaks the schedule -/
example : schedule exCfgT (traceOf exCfgT [.send 0 0 none [some 3], .advance (1/2), .tick]) = false := by decide +kernel

end Afkak.Props.C19

/- OBLIGATIONS
C19_accounting
C19_accounting_state
C19_cancel_before_dispatch_never_sent
C19_stop_transmits_nothing
C19_stop_fires_all
C19_outstanding_nodup
C19_cancel
C19_cancel_later_detaches
C19_stop
C19_stopped_nothing_pending
C19_send_after_stop_refused
C19_dispatch_iff
C19_never_idle_over_threshold
C19_wait_bound
C19_wait_bound_clock
C19_reentrant_conservative
C19_reentrant_conservative_step
C19_reentrant_no_request_once_stopping
C19_reentrant_tail_cancel
C19_reentrant_tail_refused
-/
/- OPEN_STATEMENTS
-/
