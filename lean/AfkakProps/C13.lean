import AfkakProofs.Consumer.Trace
/-!
# C13 — stop and shutdown leave nothing running and report once
Property theorems only; helper lemmas live in `AfkakProofs/Consumer/`.
-/
namespace Afkak.Props.C13
open Afkak.Consumer Afkak.Monitor Afkak.Proofs.Consumer

/-- The Deferred returned by `start()` fires at most once per run, and only while that run is on
    (never between the return of `stop()` and the next `start()`), on every trace - whatever the
    events, cancel outcomes, commit outcomes and re-entrant calls. -/
theorem C13_start_fires_at_most_once (cfg : Cfg) (script : List PEntry) (evs : List Ev) :
    C13.firesOnceOk (trace cfg script evs) = true :=
  accepts_trace _ _ cfg script evs (run_top cfg script evs).1.fo.foOk

/-- What `stop()` leaves behind, from EVERY reachable state (any point of any history, any cancel
    outcome, a graceful shutdown pending or not): the consumer is stopped, no `_process_messages`
    generator is suspended on a processor result, no refetch is scheduled, no uncancelled fetch/offset
    request is outstanding and no reply is parked. -/
theorem C13_stop_leaves_nothing_fetching (cfg : Cfg) (script : List PEntry) (evs : List Ev) :
    let s := run cfg script evs
    let s' := stopCore cfg (opsN cfg cfg.depth) s
    s'.startD = .none ∧ s'.proc = none ∧ retryPending s'.retryCall = false ∧
      activeReq s'.requestD = none ∧ s'.parked = none := by
  intro s s'
  have ht := run_top cfg script evs
  have hq := stopCore_quiet_any (cfg := cfg) (opsN_quiet cfg cfg.depth) (opsN_procNone cfg cfg.depth) s
  have hc := stopCore_calm_any (cfg := cfg) (opsN_calm cfg cfg.depth) (opsN_procNone cfg cfg.depth) s ht.1.sf.parkedBlock
  exact ⟨stopCore_startD s, hq.1, hq.2, hc.2.1, hc.2.2⟩

/-- `stop()` called when the consumer is not running raises `RestopError` and changes nothing. -/
theorem C13_stop_when_stopped (cfg : Cfg) (inner : Ops) (s : St) (h : s.startD = .none) :
    stop cfg inner s = emit .raisedRestop s := by
  simp [stop, h]

/-- A stopped consumer can be started again: `start()` on a stopped consumer is accepted and (no
    stale request being in the way) immediately issues the request its start offset calls for. -/
theorem C13_restartable (cfg : Cfg) (off : Int) (s : St) (h : s.startD = .none) (hr : s.requestD = .none) :
    (start cfg off s).startD ≠ .none ∧ (start cfg off s).requestD ≠ .none := by
  unfold start doFetch startErrback errbackRaises emit
  simp only [h, hr]
  refine ⟨?_, ?_⟩ <;> (repeat' split) <;> simp_all

end Afkak.Props.C13

/- OBLIGATIONS
C13_start_fires_at_most_once
C13_stop_leaves_nothing_fetching
C13_stop_when_stopped
C13_restartable
-/
/- OPEN_STATEMENTS
-/
