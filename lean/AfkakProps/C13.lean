import AfkakProofs.Consumer.Trace
import AfkakProofs.Consumer.B5_N9
import AfkakProps.Open.C13
/-!
# C13 — stop and shutdown leave nothing running and report once
Property theorems only; helper lemmas live in `AfkakProofs/Consumer/`.
-/
namespace Afkak.Props.C13
open Afkak.Consumer Afkak.Monitor Afkak.Proofs.Consumer

/-- The Deferred returned by `start()` fires at most once per run, and only while that run is on
    (never between the return of `stop()` and the next `start()`), on every trace - whatever the
    events, cancel outcomes, commit outcomes and re-entrant calls. -/
theorem C13_start_fires_at_most_once (cfg : Cfg) (script : List PEntry) (evs : List Ev) :
    C13.firesOnceOk (trace cfg script evs) = true :=
  accepts_trace _ _ cfg script evs (run_fo cfg script evs).foOk

/-- What `stop()` leaves behind, from EVERY reachable state (any point of any history, any cancel
    outcome, a graceful shutdown pending or not): the consumer is stopped, no `_process_messages`
    generator is suspended on a processor result, no refetch is scheduled, no uncancelled fetch/offset
    request is outstanding and no reply is parked. -/
theorem C13_stop_leaves_nothing_fetching (cfg : Cfg) (script : List PEntry) (evs : List Ev) :
    let s := run cfg script evs
    let s' := stopCore cfg (opsN cfg cfg.depth) s
    s'.startD = .none ∧ s'.proc = none ∧ retryPending s'.retryCall = false ∧
      activeReq s'.requestD = none ∧ s'.parked = none := by
  intro s s'
  letI : EnvHyp := ⟨False⟩   -- the lemmas below assume nothing about the environment
  have hq := stopCore_quiet_any (cfg := cfg) (opsN_quiet cfg cfg.depth) (opsN_procNone cfg cfg.depth) s
  have hc := stopCore_calm_any (cfg := cfg) (opsN_calm cfg cfg.depth) (opsN_procNone cfg cfg.depth) s (run_sf cfg script evs).parkedBlock
  exact ⟨stopCore_startD s, hq.1, hq.2, hc.2.1, hc.2.2⟩

/-- … and no timer of the consumer is left armed: the auto-commit looper is gone and no commit retry is
    scheduled - from ANY state, reachable or not (the last two steps of `stop()` see to it). -/
theorem C13_stop_leaves_no_timer (cfg : Cfg) (inner : Ops) (s : St) :
    (stopCore cfg inner s).looper = none ∧ (∀ d dl a, (stopCore cfg inner s).commitCall ≠ .pending d dl a) := by
  unfold stopCore
  simp only []
  generalize stopCommitReq cfg inner _ = x
  obtain ⟨h1, h2⟩ := stopTimers_spec x
  obtain ⟨h3, h4⟩ := stopFinish_timers (stopTimers x)
  exact ⟨h3.trans h1, fun d dl a => by rw [h4]; exact h2 d dl a⟩

/-- `stop()` called when the consumer is not running raises `RestopError` and changes nothing. -/
theorem C13_stop_when_stopped (cfg : Cfg) (inner : Ops) (s : St) (h : s.startD = .none) :
    stop cfg inner s = emit .raisedRestop s := by
  simp [stop, h]

/-- A stopped consumer can be started again: `start()` on a stopped consumer is accepted and (no
    stale request being in the way) immediately issues the request its start offset calls for. -/
theorem C13_restartable (cfg : Cfg) (off : Int) (s : St) (h : s.startD = .none) (hr : s.requestD = .none) :
    (start cfg off s).startD ≠ .none ∧ (start cfg off s).requestD ≠ .none := by
  unfold start doFetch startErrback errbackRaises emit
  simp only [h, hr]
  refine ⟨?_, ?_⟩ <;> (repeat' split) <;> simp_all

/-- `stop()` forgets the request it cancelled even when the client swallowed the cancel (the late result is
    dropped, never delivered into a later run), so a restart - from ANY state `stop()` is called in - immediately
    issues the request its start offset calls for. -/
theorem C13_restart_after_stop (cfg : Cfg) (inner : Ops) (off : Int) (s : St) :
    (stopCore cfg inner s).requestD = .none ∧
      (start cfg off (stopCore cfg inner s)).startD ≠ .none ∧ (start cfg off (stopCore cfg inner s)).requestD ≠ .none := by
  have hr : (stopCore cfg inner s).requestD = .none := by
    unfold stopCore
    simp only []
    exact stopFinish_requestD _
  letI : EnvHyp := ⟨False⟩   -- `stopCore_startD` assumes nothing about the environment
  exact ⟨hr, C13_restartable cfg off _ (stopCore_startD s) hr⟩

/-! ## Finding F26 (known, pinned by the suite): `shutdown()` from inside the processor -/

/-- The witness: a consumer with a group; the processor of the second block calls `shutdown()` and
    returns a Deferred; when the shutdown's commit is acknowledged the consumer stops and CANCELS that
    Deferred instead of waiting for it.  (Same scenario as `corpus/consumer/f26-*.json`, replayed on the
    implementation by every run of the check.) -/
def f26Cfg : Cfg :=
  { group := true, autoN := 0, autoS := 0, bufInit := 100, bufMax := none, retryInit := 1 / 4, retryMax := 2,
    maxAttempts := 0, reset := none }
def f26Script : List PEntry := [{ acts := [], res := .ok }, { acts := [.shutdown], res := .defer }]
def f26Evs : List Ev :=
  [.env (some (.kafka, 0)) (some (.kafka, 0)), .start 0, .fetchOk 0 { msgs := [{ off := 0, pid := 1 }], tail := .done }, .retryFire,
   .fetchOk 1 { msgs := [{ off := 1, pid := 2 }], tail := .done }, .commitOk 2]

/-- The code violates "graceful shutdown waits for in-progress processing" when `shutdown()` is called
    from inside the processor. -/
theorem C13_shutdown_waits_counterexample : ¬ Afkak.Props.Open.C13.C13_shutdown_waits_inproc := by
  intro h
  have h1 := h f26Cfg f26Script f26Evs
  revert h1
  decide +kernel

/-! ## The depth bound of the model

`Cfg.depth` is how deep the model follows re-entrant calls; at depth 0 even the `stop()` that ends a graceful
`shutdown()` is not followed (the model reports `crash "re-entrancy depth"` and goes on), at depth 1 a `shutdown()`
called from inside the processor is not.  The code has no such bound; the harness and the driver run the model at
depth 4, and nothing nests deeper than 2.  The statements of this property are therefore about `2 ≤ cfg.depth`.
The three examples below are what the bound does to the model below that (they say nothing about the code). -/

/-- depth 0: re-entrant calls are not followed by the model -/
def d0Cfg : Cfg :=
  { group := false, autoN := 0, autoS := 0, bufInit := 100, bufMax := none, retryInit := 1 / 4, retryMax := 2,
    maxAttempts := 0, reset := none, depth := 0 }

example : C13.quiescentOk (trace d0Cfg [] [.start 0, .shutdown]) = false := by decide +kernel
example : C13.startOnceOk (trace d0Cfg [] [.start 0, .shutdown]) = false := by decide +kernel
example : C13.noCrashOk (trace d0Cfg [] [.start 0, .shutdown]) = false := by decide +kernel

/-- Quiescence after `stop()` on EVERY trace, with or without a consumer group, at every depth ≥ 2 (the harness
    runs depth 4; re-entrant calls never nest deeper than 2 in the model): whatever the events, cancel outcomes,
    commit outcomes and re-entrant calls, when `stop()` returns (and when a graceful `shutdown()` reports success)
    no timer is armed - refetch, commit retry, auto-commit looper -, no uncancelled fetch / offset / commit request is
    outstanding and no processor result is pending, and there is no fetch / offset / processor / timer activity until
    the next `start()`, and no commit activity either unless the application itself calls `commit()` on the stopped
    consumer.  The proof is the invariant `BG.QG` relating the monitor's state to the model's along the trace
    (`AfkakProofs/Consumer/B5_N1.lean` … `B5_N9.lean`). -/
theorem C13_quiescent_after_stop : Afkak.Props.Open.C13.C13_quiescent_after_stop := by
  intro cfg script evs hd
  letI : EnvHyp := ⟨False⟩
  have hd' : cfg.depth = (cfg.depth - 2) + 2 := by omega
  exact accepts_trace _ _ cfg script evs (BN.run_q (cfg.depth - 2) hd' script evs).1.ok

/-- No API call ends in an exception the API does not document, on EVERY trace at every depth ≥ 2 - whatever the
    events, cancel outcomes, commit outcomes and the processor's re-entrant `stop()` / `commit()` / `shutdown()` calls:
    `_send_commit_request` is never entered with a commit request outstanding or with nothing processed, the shutdown
    continuations never call `stop()` on a stopped consumer nor fire a missing `_shutdown_d`, `stop()`'s loop over
    `_commit_ds` terminates, `stop()` never finds `_start_d` unset, and the model's depth marker is not reached.  (The
    same invariant as for quiescence, with two more fields: no `crash` observation so far; a commit in progress has
    something to commit.) -/
theorem C13_no_crash : Afkak.Props.Open.C13.C13_no_crash := by
  intro cfg script evs hd
  letI : EnvHyp := ⟨False⟩
  have hd' : cfg.depth = (cfg.depth - 2) + 2 := by omega
  exact BN.noCrash_of _ (BN.run_q (cfg.depth - 2) hd' script evs).1.ncOut

/-! Non-vacuity: a configuration the theorem speaks about (consumer group, depth 4), and a trace of it on
    which `stop()` has something to cancel on the commit side (a manual commit in flight: request 1) and a refetch
    timer armed - the monitor has to see both cancellations to accept. -/
def qCfg : Cfg :=
  { group := true, autoN := 0, autoS := 0, bufInit := 100, bufMax := none, retryInit := 1 / 4, retryMax := 2,
    maxAttempts := 0, reset := none, depth := 4 }
def qEvs : List Ev := [.start 0, .fetchOk 0 { msgs := [{ off := 0, pid := 1 }], tail := .done }, .commit, .stop]

example :
    2 ≤ qCfg.depth ∧
      (trace qCfg [] qEvs).filterMap (fun | .ob (.cancelReq k) => some k | _ => none) = [1] ∧
      (trace qCfg [] qEvs).filterMap (fun | .ob (.cancelTimer t) => some t | _ => none) = [.retry] := by
  decide +kernel

end Afkak.Props.C13

/- OBLIGATIONS
C13_start_fires_at_most_once
C13_stop_leaves_nothing_fetching
C13_stop_leaves_no_timer
C13_stop_when_stopped
C13_restartable
C13_restart_after_stop
C13_shutdown_waits_counterexample
C13_quiescent_after_stop
C13_no_crash
-/
/- OPEN_STATEMENTS
C13_start_fires_once
C13_shutdown_sequence
C13_shutdown_waits_inproc
C13_commit_bounded
C13_shutdown_never_stuck
C13_restart_alive
C13_shutdown_failure_own
-/
