import AfkakProofs.Consumer.Trace
import AfkakProofs.Consumer.B5_QuietG9
import AfkakProps.Open.C13
/-!
# C13 — stop and shutdown leave nothing running and report once
Property theorems only; helper lemmas live in `AfkakProofs/Consumer/`.
-/
namespace Afkak.Props.C13
open Afkak.Consumer Afkak.Monitor Afkak.Proofs.Consumer

/-- The Deferred returned by `start()` fires at most once per run, and only while that run is on
    (never between the return of `stop()` and the next `start()`), on every trace - whatever the
    events, cancel outcomes, commit outcomes and re-entrant calls. -/
theorem C13_start_fires_at_most_once (cfg : Cfg) (script : List PEntry) (evs : List Ev) :
    C13.firesOnceOk (trace cfg script evs) = true :=
  accepts_trace _ _ cfg script evs (run_fo cfg script evs).foOk

/-- What `stop()` leaves behind, from EVERY reachable state (any point of any history, any cancel
    outcome, a graceful shutdown pending or not): the consumer is stopped, no `_process_messages`
    generator is suspended on a processor result, no refetch is scheduled, no uncancelled fetch/offset
    request is outstanding and no reply is parked. -/
theorem C13_stop_leaves_nothing_fetching (cfg : Cfg) (script : List PEntry) (evs : List Ev) :
    let s := run cfg script evs
    let s' := stopCore cfg (opsN cfg cfg.depth) s
    s'.startD = .none ∧ s'.proc = none ∧ retryPending s'.retryCall = false ∧
      activeReq s'.requestD = none ∧ s'.parked = none := by
  intro s s'
  letI : EnvHyp := ⟨False⟩   -- the lemmas below assume nothing about the environment
  have hq := stopCore_quiet_any (cfg := cfg) (opsN_quiet cfg cfg.depth) (opsN_procNone cfg cfg.depth) s
  have hc := stopCore_calm_any (cfg := cfg) (opsN_calm cfg cfg.depth) (opsN_procNone cfg cfg.depth) s (run_sf cfg script evs).parkedBlock
  exact ⟨stopCore_startD s, hq.1, hq.2, hc.2.1, hc.2.2⟩

/-- … and no timer of the consumer is left armed: the auto-commit looper is gone and no commit retry is
    scheduled - from ANY state, reachable or not (the last two steps of `stop()` see to it). -/
theorem C13_stop_leaves_no_timer (cfg : Cfg) (inner : Ops) (s : St) :
    (stopCore cfg inner s).looper = none ∧ (∀ d dl a, (stopCore cfg inner s).commitCall ≠ .pending d dl a) := by
  unfold stopCore
  simp only []
  generalize stopCommitReq cfg inner _ = x
  obtain ⟨h1, h2⟩ := stopTimers_spec x
  obtain ⟨h3, h4⟩ := stopFinish_timers (stopTimers x)
  exact ⟨h3.trans h1, fun d dl a => by rw [h4]; exact h2 d dl a⟩

/-- `stop()` called when the consumer is not running raises `RestopError` and changes nothing. -/
theorem C13_stop_when_stopped (cfg : Cfg) (inner : Ops) (s : St) (h : s.startD = .none) :
    stop cfg inner s = emit .raisedRestop s := by
  simp [stop, h]

/-- A stopped consumer can be started again: `start()` on a stopped consumer is accepted and (no
    stale request being in the way) immediately issues the request its start offset calls for. -/
theorem C13_restartable (cfg : Cfg) (off : Int) (s : St) (h : s.startD = .none) (hr : s.requestD = .none) :
    (start cfg off s).startD ≠ .none ∧ (start cfg off s).requestD ≠ .none := by
  unfold start doFetch startErrback errbackRaises emit
  simp only [h, hr]
  refine ⟨?_, ?_⟩ <;> (repeat' split) <;> simp_all

/-- `stop()` forgets the request it cancelled even when the client swallowed the cancel (the late result is
    dropped, never delivered into a later run), so a restart - from ANY state `stop()` is called in - immediately
    issues the request its start offset calls for. -/
theorem C13_restart_after_stop (cfg : Cfg) (inner : Ops) (off : Int) (s : St) :
    (stopCore cfg inner s).requestD = .none ∧
      (start cfg off (stopCore cfg inner s)).startD ≠ .none ∧ (start cfg off (stopCore cfg inner s)).requestD ≠ .none := by
  have hr : (stopCore cfg inner s).requestD = .none := by
    unfold stopCore
    simp only []
    exact stopFinish_requestD _
  letI : EnvHyp := ⟨False⟩   -- `stopCore_startD` assumes nothing about the environment
  exact ⟨hr, C13_restartable cfg off _ (stopCore_startD s) hr⟩

/-! ## Finding F26 (known, pinned by the suite): `shutdown()` from inside the processor -/

/-- The witness: a consumer with a group; the processor of the second block calls `shutdown()` and
    returns a Deferred; when the shutdown's commit is acknowledged the consumer stops and CANCELS that
    Deferred instead of waiting for it.  (Same scenario as `corpus/consumer/f26-*.json`, replayed on the
    implementation by every run of the check.) -/
def f26Cfg : Cfg :=
  { group := true, autoN := 0, autoS := 0, bufInit := 100, bufMax := none, retryInit := 1 / 4, retryMax := 2,
    maxAttempts := 0, reset := none }
def f26Script : List PEntry := [{ acts := [], res := .ok }, { acts := [.shutdown], res := .defer }]
def f26Evs : List Ev :=
  [.env (some (.kafka, 0)) (some (.kafka, 0)), .start 0, .fetchOk 0 { msgs := [{ off := 0, pid := 1 }], tail := .done }, .retryFire,
   .fetchOk 1 { msgs := [{ off := 1, pid := 2 }], tail := .done }, .commitOk 2]

/-- The code violates "graceful shutdown waits for in-progress processing" when `shutdown()` is called
    from inside the processor. -/
theorem C13_shutdown_waits_counterexample : ¬ Afkak.Props.Open.C13.C13_shutdown_waits_inproc := by
  intro h
  have h1 := h f26Cfg f26Script f26Evs
  revert h1
  decide +kernel

/-- … and only then: on a trace in which `shutdown()` is never called from inside the processor the
    monitor that judges this situation accepts. -/
theorem C13_shutdown_waits_partial (group : Bool) (tr : List Item) (h : ∀ x ∈ tr, x ≠ .ob (.act .shutdown)) :
    C13.shutdownInprocOk group tr = true := by
  have key : ∀ l : List Item, (∀ x ∈ l, x ≠ .ob (.act .shutdown)) →
      (runR (C13.shStep group true) {} l).bad = false ∧ (runR (C13.shStep group true) {} l).askedInProc = false ∧
      (runR (C13.shStep group true) {} l).savedAskedInProc = false := by
    intro l
    induction l with
    | nil => intro _; exact ⟨rfl, rfl, rfl⟩
    | cons x l ih =>
      intro hl
      obtain ⟨h1, h2, h3⟩ := ih (fun y hy => hl y (List.mem_cons_of_mem _ hy))
      have hx := hl x (List.mem_cons_self ..)
      simp only [runR_cons]
      generalize runR (C13.shStep group true) {} l = m at *
      unfold C13.shStep
      rcases x with e | e | o
      · cases e <;> simp_all <;> (try split) <;> simp_all
      · simp_all
      · cases o <;> simp_all <;> (repeat' split) <;> simp_all
  have := (key tr.reverse (by simpa using h)).1
  simp [C13.shutdownInprocOk, accepts, HasBad.bad, this]

/-! ## The depth bound of the model, and what holds above it

`Cfg.depth` is how deep the model follows re-entrant calls; at depth 0 even the `stop()` that ends a graceful
`shutdown()` is not followed (the model reports `crash "re-entrancy depth"` and goes on), at depth 1 a
`shutdown()` called from inside the processor is not.  The open statements `C13_quiescent_after_stop`,
`C13_start_fires_once` and `C13_no_crash` quantify over EVERY configuration, depth included, and are therefore
false of the model as stated (an artefact of the bound, not behaviour of the code: the harness and the driver
run the model at depth 4, where model and code agree on the witness `start 0; shutdown`).  What holds needs
`2 ≤ cfg.depth`. -/

/-- depth 0: re-entrant calls are not followed by the model -/
def d0Cfg : Cfg :=
  { group := false, autoN := 0, autoS := 0, bufInit := 100, bufMax := none, retryInit := 1 / 4, retryMax := 2,
    maxAttempts := 0, reset := none, depth := 0 }

theorem C13_quiescent_after_stop_counterexample : ¬ Afkak.Props.Open.C13.C13_quiescent_after_stop := by
  intro h
  have h1 := h d0Cfg [] [.start 0, .shutdown]
  revert h1
  decide +kernel

theorem C13_start_fires_once_counterexample : ¬ Afkak.Props.Open.C13.C13_start_fires_once := by
  intro h
  have henv : Afkak.Props.Open.C13.EnvOk none [.start 0, .shutdown] := by
    refine ⟨fun _ _ h => (by cases h), fun e he => ?_⟩
    simp only [List.mem_cons, List.not_mem_nil, or_false] at he
    rcases he with rfl | rfl <;> trivial
  have h1 := h d0Cfg [] [.start 0, .shutdown] henv
  revert h1
  decide +kernel

theorem C13_no_crash_counterexample : ¬ Afkak.Props.Open.C13.C13_no_crash := by
  intro h
  have h1 := h d0Cfg [] [.start 0, .shutdown] (fun e he => by cases he)
  revert h1
  decide +kernel

/-- Quiescence after `stop()` on EVERY trace, with or without a consumer group, at every depth ≥ 2 (the harness
    runs depth 4; re-entrant calls never nest deeper than 2 in the model): whatever the events, cancel outcomes,
    commit outcomes and re-entrant calls, when `stop()` returns (and when a graceful `shutdown()` reports success)
    no timer is armed - refetch, commit retry, auto-commit looper -, no uncancelled fetch / offset / commit request is
    outstanding and no processor result is pending, and there is no fetch / offset / processor / timer activity until
    the next `start()`, and no commit activity either unless the application itself calls `commit()` on the stopped
    consumer.  The proof is the invariant `BG.QG` relating the monitor's state to the model's along the trace
    (`AfkakProofs/Consumer/B_QuietG1-7.lean`, `B5_QuietG8-9.lean`). -/
theorem C13_quiescent_after_stop_partial (cfg : Cfg) (script : List PEntry) (evs : List Ev) (hd : 2 ≤ cfg.depth) :
    C13.quiescentOk (trace cfg script evs) = true := by
  letI : EnvHyp := ⟨False⟩
  have hd' : cfg.depth = (cfg.depth - 2) + 2 := by omega
  exact accepts_trace _ _ cfg script evs (BG.run_q (cfg.depth - 2) hd' script evs).1.ok

/-! Non-vacuity: a configuration the partial theorem speaks about (consumer group, depth 4), and a trace of it on
    which `stop()` has something to cancel on the commit side (a manual commit in flight: request 1) and a refetch
    timer armed - the monitor has to see both cancellations to accept. -/
def qCfg : Cfg :=
  { group := true, autoN := 0, autoS := 0, bufInit := 100, bufMax := none, retryInit := 1 / 4, retryMax := 2,
    maxAttempts := 0, reset := none, depth := 4 }
def qEvs : List Ev := [.start 0, .fetchOk 0 { msgs := [{ off := 0, pid := 1 }], tail := .done }, .commit, .stop]

example :
    2 ≤ qCfg.depth ∧
      (trace qCfg [] qEvs).filterMap (fun | .ob (.cancelReq k) => some k | _ => none) = [1] ∧
      (trace qCfg [] qEvs).filterMap (fun | .ob (.cancelTimer t) => some t | _ => none) = [.retry] := by
  decide +kernel

end Afkak.Props.C13

/- OBLIGATIONS
C13_start_fires_at_most_once
C13_stop_leaves_nothing_fetching
C13_stop_leaves_no_timer
C13_stop_when_stopped
C13_restartable
C13_restart_after_stop
C13_shutdown_waits_counterexample
C13_shutdown_waits_partial
C13_quiescent_after_stop_counterexample
C13_start_fires_once_counterexample
C13_no_crash_counterexample
C13_quiescent_after_stop_partial
-/
/- OPEN_STATEMENTS
C13_start_fires_once
C13_quiescent_after_stop
C13_shutdown_sequence
C13_shutdown_waits_inproc
C13_no_crash
-/
