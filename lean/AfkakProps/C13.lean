import AfkakProofs.Consumer.Trace
/-!
# C13 — stop and shutdown leave nothing running and report once
-/
namespace Afkak.Props.C13
open Afkak.Consumer Afkak.Monitor Afkak.Proofs.Consumer

/-- `stop()` called when the consumer is not running raises `RestopError` and changes nothing. -/
theorem C13_stop_when_stopped (cfg : Cfg) (inner : Ops) (s : St) (h : s.startD = .none) :
    stop cfg inner s = emit .raisedRestop s := by
  simp [stop, h]

end Afkak.Props.C13

/- OBLIGATIONS
C13_stop_when_stopped
-/
/- OPEN_STATEMENTS
-/
