import Afkak.Monitor.C09
import Afkak.Producer
import AfkakProofs.Producer.Spec
import AfkakProofs.Producer.RelStep
import AfkakProofs.Producer.Geo
import AfkakProofs.Producer.Order
import AfkakProofs.Producer.Compose
import AfkakProofs.Producer.OneFlight
import AfkakProofs.Producer.ReportedTrace
import AfkakProofs.Producer.AfterStop
import AfkakProofs.Producer.AuditTraces
import AfkakProofs.Producer.BrokerLogModel
import AfkakProofs.Producer.Compose2
/-!
# C09 — Per-partition send order is preserved and retries are disciplined
Property theorems only.  Model: `Afkak/Producer.lean`; monitors: `Afkak/Monitor/C09.lean`.
-/
namespace Afkak.Props.C09
open Afkak.Consts Afkak.Producer Afkak.Monitor.ProducerTrace Afkak.Monitor.C09

/-- The back-off factor the source contains really makes delays GROW (`1 < factor`), and is positive;
    the geometric-delay statements depend on it.  Re-checked against `/repo` on every run. -/
theorem C09_factor_gt_one : 1 < producerRetryFactor ∧ 0 < producerInitRetryInterval := by decide +kernel

/-- Order — trace level, for EVERY event list: inside every payload of every produce request the sends
    are in submission order (send ids are handed out in call order, a payload's messages are its sends'
    messages in that order); a send is in one payload of the request only; and the payload for a
    topic/partition is either exactly the one sent before for it (a retry) or made only of sends LATER
    than every send of the previous payload for that topic/partition.  So per topic/partition the
    messages of first attempts go out in submission order, and a retry re-sends a payload unchanged. -/
theorem C09_order (cfg : Cfg) (evs : List Ev) : order cfg (traceOf cfg evs) = true :=
  order_model cfg evs

/-- One batch in flight — trace level, for EVERY event list: a produce request that is not a retry is made ONLY
    WHEN NO PRODUCE REQUEST IS UNANSWERED - none was made yet, or the client has answered the last one (in this
    very step at the latest): a second first-attempt request while the first is unanswered is rejected by this
    monitor, whatever the client's accounting; it carries only sends that were never in a request before, and
    (given the client accounted for every payload of every request so far, C07) it is made only when every send
    of every earlier request has fired, i.e. all earlier batches are resolved; a retry carries only sends of the
    request it retries (unconditionally: only what failed stays listed, F17/F30). -/
theorem C09_one_batch (cfg : Cfg) (evs : List Ev) : oneBatch cfg (traceOf cfg evs) = true :=
  oneBatch_model cfg evs

/-- One batch in flight — step level, for ANY state and any event: if a step makes a produce request, then before
    the step no batch was in flight (`idle`); or the batch in flight was waiting for partition look-ups (no request
    of it was out) and the event is a look-up answer; or it was waiting for the client's answer to request `r`
    and the event IS that answer, a valid one; or it was waiting for retry timer `tid` and the event is that
    timer.  In particular: while a request is unanswered NOTHING but its (valid) answer makes another. -/
theorem C09_one_request_in_flight_step (cfg : Cfg) (st : St) (e : Ev) (rid : Rid) (ps : List Payload)
    (h : Ob.produce rid ps ∈ (step cfg st e).2) :
    st.phase = .idle ∨
    (∃ ls, st.phase = .lookups ls ∧ ((∃ tid, e = .timer tid) ∨ ∃ r res, e = .metaDone r res)) ∨
    (∃ r b res, st.phase = .sending r b ∧ e = .produceDone r res ∧ validResult b res = true) ∨
    (∃ tid b tps, st.phase = .retryWait tid b tps ∧ e = .timer tid) :=
  produce_only_when_free cfg st e rid ps h

/-- Acknowledged ones are reported at once — trace level, for EVERY event list: in the step that takes the client's
    answer to the request in flight, every still-outstanding send riding on a payload the answer acknowledges
    (error 0) fires `ok` with that very response - whatever happens to the rest of the batch (retry, failure);
    when the answer ends the batch for good (no attempt left, not stopping) every outstanding send on a payload it
    reports failed fails with THAT payload's error; and a failure that is no Kafka error fails every outstanding
    send of the request with it at once. -/
theorem C09_reported (cfg : Cfg) (evs : List Ev) : reported cfg (traceOf cfg evs) = true :=
  reported_model cfg evs

/-- … state level: in a reachable state waiting on request `rid`, a valid answer `r`, a response of it with error 0,
    a send `s` riding on that response's payload and still outstanding: `fire s (ok resp)` is among the step's
    observations. -/
theorem C09_acked_reported_step (cfg : Cfg) (st : St) (h : Reach cfg st) (rid : Rid) (b : Batch) (r : ProdRes)
    (hp : st.phase = .sending rid b) (hv : validResult b r = true) (resp : Resp) (hr : resp ∈ respsOf r)
    (he : resp.error = 0) (s : Sid) (hs : s ∈ b.sidsOf resp.tp) (ho : s ∈ st.outstanding) :
    Ob.fire s (.ok resp) ∈ (step cfg st (.produceDone rid r)).2 :=
  acked_reported_step cfg st h rid b r hp hv resp hr he s hs ho

/-- Retry only what failed — trace level, for EVERY event list: a retry (the produce request sent by
    the timer that was set while the previous attempt's result was handled) carries exactly the payloads
    that result reported failed — its failed payloads, then its error-coded responses, in that order; for a total
    failure (nothing was sent) the payloads of THE REQUEST THAT FAILED, all of them and nothing else (in
    particular not a payload that an earlier attempt handed to its connection, F30) — each unchanged (the same
    sends in the same order), and never a payload acknowledged earlier in the batch. -/
theorem C09_retry_only_failed (cfg : Cfg) (evs : List Ev) : retryOnlyFailed cfg (traceOf cfg evs) = true :=
  retryOnlyFailed_model cfg evs

/-- Attempt bound — trace level, for EVERY event list: a batch is sent at most
    `max(1, max_req_attempts)` times (first attempt plus retries). -/
theorem C09_attempt_bound (cfg : Cfg) (evs : List Ev) : attemptBound cfg (traceOf cfg evs) = true :=
  attemptBound_model cfg evs

/-- Geometric delays — trace level, for EVERY event list: the k-th timer (metadata back-off or produce
    retry) set since the batch in flight was dispatched waits EXACTLY `init * factor^k`, and the count
    restarts when the batch resolves (the step ends with no batch in flight, or the completion hook
    dispatched the next batch).  The factor is the one the source contains (extractor) and is > 1, so
    delays grow.  (On implementation traces the same monitor runs with a 1e-9 float tolerance.) -/
theorem C09_geometric (cfg : Cfg) (evs : List Ev) : geometric cfg 0 (traceOf cfg evs) = true :=
  geometric_model cfg evs

/-- Retry only what failed (handler level): whatever result `r` the client gives for the attempt in
    flight (valid or not, any state `st`), `_handle_send_response` either resolves the batch or
    schedules ONE retry whose payload list is exactly what `r` reports failed - the failed payloads,
    then the error-coded responses; for a total failure the payloads of the attempt (all that is still listed)
    - and ONLY what is retried stays listed in the batch (`keep`; F17, F30): a payload `r` acknowledges, and a
    payload that was handed to its connection without acknowledgement, can never be sent again, not even after a
    later total failure.  (A result naming each payload at most once - the client contract C07 - never lists an
    acknowledged payload as failed.) -/
theorem C09_retry_only_failed_handler (cfg : Cfg) (st : St) (b : Batch) (r : ProdRes) (tid : Tid) (b' : Batch)
    (tps : List TP) (h : (handleSendResponse cfg st b r).1.phase = .retryWait tid b' tps) (hp : ∀ t b0 l, st.phase ≠ .retryWait t b0 l) :
    b' = b.keep tps ∧ tps = failedTps b.live r ∧ tps ≠ [] ∧ (∀ tp ∈ b'.live, tp ∈ tps) ∧
    (r.tps.Nodup → ∀ x ∈ respsOf r, x.error = 0 → x.tp ∉ tps ∧ x.tp ∉ b'.live) := by
  obtain ⟨_, h2⟩ := handleSendResponse_spec cfg st b r
  generalize (handleSendResponse cfg st b r).2.2 = res at h2
  cases h2 with
  | resolved a1 => rw [a1] at h; exact absurd h (hp _ _ _)
  | retry a1 a2 =>
    rw [a1] at h; injection h with _ e2 e3
    subst e2; subst e3
    have hk : ∀ tp ∈ (b.keep (failedTps b.live r)).live, tp ∈ failedTps b.live r := by
      intro tp htp
      simp only [Batch.keep, List.mem_filter, decide_eq_true_eq] at htp
      exact htp.2
    refine ⟨rfl, rfl, a2, hk, ?_⟩
    intro hn x hx he
    have := acked_not_failed b.live r hn x hx he
    exact ⟨this, fun hc => this (hk _ hc)⟩

/-- Attempt bound (handler level): a retry is scheduled only while `_req_attempts < max_req_attempts`
    and never once `stop()` has begun; the delay handed to the timer is the current `_retry_interval`,
    which is then multiplied by the factor. -/
theorem C09_retry_guard_handler (cfg : Cfg) (st : St) (b : Batch) (r : ProdRes)
    (h : (handleSendResponse cfg st b r).2.2 = false) :
    st.attempts < cfg.maxAttempts ∧ st.stopping = false ∧
    shapeOf (handleSendResponse cfg st b r).2.1 = [.setTimer st.nextTid st.interval] ∧
    (handleSendResponse cfg st b r).1.interval = st.interval * producerRetryFactor := by
  obtain ⟨_, h2⟩ := handleSendResponse_spec cfg st b r
  generalize hres : (handleSendResponse cfg st b r).2.2 = res at h2
  rw [hres] at h; subst h
  cases h2 with
  | retry a1 a2 a3 a4 a5 a6 a7 a8 => exact ⟨a4, a5, a8, a6⟩

/-! ## Producer × KafkaClient, composed at `send_produce_request(payloads, fail_on_error=False)` -/
open Afkak.Producer.Compose in
/-- With `fail_on_error=False` the client's `_handle_responses` raises nothing for a produce reply (no
    response carries a group-coordinator error code): every per-partition response is returned. -/
theorem C09_client_returns_every_response (c : Afkak.ClientCache.Cache) (resps : List (String × Int))
    (h : ∀ x ∈ resps, clientGroupResetErrnos.contains x.2 = false) :
    (Afkak.ClientCache.handleResponses c false none resps).2 = none :=
  handleResponses_silent c resps h

open Afkak.Producer.Compose in
/-- Retry only what failed, ACROSS the composed step.  The Producer model waits on a produce request
    (`sending rid b`); the client completes it with what its assembling kernel (`Afkak.ClientCache.assemble`,
    the tail of `_send_broker_aware_request`) makes of the outcomes of the broker requests - under C07's
    routing/answering conditions (`Hyp`: the requests partition the payload list, a broker that answers
    answers for exactly what it was asked).  Then the completion is an ENABLED event of the Producer model
    (valid: it names only payloads of the request, each once), it ACCOUNTS for every payload (the hypothesis
    of C01 "fires" and C09 "one batch" is discharged by the client kernel), every response reaches the
    Producer with its error code and offset, and if a retry follows it carries exactly the payloads of the
    failed broker requests, then the payloads answered with an error code - every payload answered with
    error 0 has left the unacknowledged set for good. -/
theorem C09_composed_retry_only_failed (nm : Topic → String) (cfg : Cfg) (st : St) (rid : Rid) (b : Batch)
    (results : List (List Nat × Afkak.ClientCache.BrokerResult ErrKind)) (h : Hyp nm b.current results)
    (hp : st.phase = .sending rid b) :
    step cfg st (.produceDone rid (clientResult nm b.current results)) =
      finish cfg (handleSendResponse cfg st b (clientResult nm b.current results)) ∧
    AccOK true cfg st (.produceDone rid (clientResult nm b.current results)) ∧
    (∀ x ∈ respsOf (clientResult nm b.current results),
      ∃ cr ∈ (Afkak.ClientCache.assemble (b.current.map (key nm)) results).1,
        cr.key = key nm x.tp ∧ x.error = cr.err ∧ x.offset = cr.tag) ∧
    (∀ tid b' tps, (handleSendResponse cfg st b (clientResult nm b.current results)).1.phase = .retryWait tid b' tps →
      tps = (fsOf nm b.current results).map (·.tp) ++ ((rsOf nm b.current results).filter (·.error ≠ 0)).map (·.tp) ∧
      ∀ x ∈ rsOf nm b.current results, x.error = 0 → x.tp ∉ b'.live) :=
  compose_step cfg st rid b h hp

/-! Non-vacuity: two payloads on two brokers; one broker answers (error 0), the other request fails. -/
section
open Afkak.Producer.Compose
def exKeys : List TP := [⟨0, 0⟩, ⟨0, 1⟩]
def exResults : List (List Nat × Afkak.ClientCache.BrokerResult ErrKind) :=
  [([0], .ok [⟨("t0", 0), 7, 0⟩]), ([1], .fail .unavailable)]
def exNm (t : Topic) : String := "t" ++ toString t
example : clientResult exNm exKeys exResults = .failed [⟨⟨0, 0⟩, 0, 7⟩] [⟨⟨0, 1⟩, .unavailable, true⟩] := by decide +kernel
example : Hyp exNm exKeys exResults := by
  refine ⟨by decide, by decide, by decide, by decide, by decide, ?_⟩
  intro idxs rs hm
  simp only [exResults, List.mem_cons, Prod.mk.injEq, List.mem_nil_iff, or_false, reduceCtorEq, and_false] at hm
  obtain ⟨rfl, hrs⟩ := hm
  injection hrs with hrs; subst hrs
  exact ⟨by decide, by decide⟩
end

/-! ## The first sentence of C09, end to end: the partition logs the brokers end up with

`Afkak/Monitor/C09Log.lean`: an ABSTRACT BROKER LOG as a function of a trace.  Every produce request is carried out by
the brokers payload by payload; a payload is appended to its partition's log when the client's answer to THAT request
carries the error-0 response for the topic/partition (`Entry.acked`), and - the acknowledgement was LOST: request
timed out, connection dropped, request cancelled or never answered, or the broker appended locally and answered with
an error code - whenever the ORACLE `applied rid tp` says so.  The theorems hold for EVERY oracle: the Producer cannot
observe which unacknowledged payloads were appended.  Requests are carried out in the order made (one request in
flight, `C09_one_batch`).  `Entry.sids` are the sends whose messages, in order, are the payload's messages
(`C01_payload_integrity`); send ids are handed out in call order. -/
section BrokerLog
open Afkak.Monitor.C09Log Afkak.ProducerCompose

/-- LOG ORDER, any event list, any oracle.  (1) every append is a non-empty payload whose sends are in submission
    order; (2) of two appends to the same partition the later one is the SAME payload again (a retry after an
    unacknowledged append) or consists only of sends made LATER than every send of the earlier one; hence (3) "the
    messages reach the broker in the order the sends were made": at the moment ANY copy of a send `y` is appended
    (`L = A ++ E :: B`, `y ∈ E`), every earlier send `x < y` that is in that partition's log at all is already
    there - in the same append (before `y`, by (1)) or in an earlier one (`A`). -/
theorem C09_log_order (cfg : Cfg) (applied : Rid → TP → Bool) (evs : List Ev) :
    (∀ E ∈ brokerLog cfg applied (traceOf cfg evs), E.sids ≠ [] ∧ increasing E.sids = true) ∧
    (brokerLog cfg applied (traceOf cfg evs)).Pairwise
      (fun E1 E2 => E1.tp = E2.tp → E1.sids = E2.sids ∨ ∀ x ∈ E1.sids, ∀ y ∈ E2.sids, x < y) ∧
    (∀ A E B, brokerLog cfg applied (traceOf cfg evs) = A ++ E :: B → ∀ x y, x < y → y ∈ E.sids →
      (∃ E' ∈ brokerLog cfg applied (traceOf cfg evs), E'.tp = E.tp ∧ x ∈ E'.sids) →
      x ∈ E.sids ∨ ∃ E0 ∈ A, E0.tp = E.tp ∧ x ∈ E0.sids) :=
  Afkak.Producer.BrokerLog.log_order_model cfg applied evs

/-- A REPORTED SUCCESS IS IN THE LOG, any event list, any oracle: every `fire s (ok r)` of the trace has an
    ACKNOWLEDGED entry of the log for `r`'s topic/partition that carries `s`.  With `C09_log_order`: for sends
    `s1 < s2` to one partition that both SUCCEED, both are in that partition's log and no copy of `s2` precedes the
    first copy of `s1`. -/
theorem C09_success_is_logged (cfg : Cfg) (applied : Rid → TP → Bool) (evs : List Ev) :
    ∀ x ∈ successes (traceOf cfg evs), ∃ E ∈ brokerLog cfg applied (traceOf cfg evs),
      E.acked = true ∧ E.tp = x.2.tp ∧ x.1 ∈ E.sids :=
  Afkak.Producer.BrokerLog.success_logged_model cfg applied evs

/-- AT LEAST ONCE, and exactly when a duplicate is possible - any event list, any oracle: if a send is in two appends
    `E1` (earlier) and `E2` (later) then `E1` was NOT acknowledged to the client (`acked = false`: the append was made
    although no error-0 response for it reached the client - a lost acknowledgement, which is why the payload was
    retried), and if they are for the same partition `E2` is that very payload again.  Equivalently: after an
    acknowledged append none of its sends is ever appended again ("acknowledged ones are never re-sent"). -/
theorem C09_duplicates_only_after_lost_ack (cfg : Cfg) (applied : Rid → TP → Bool) (evs : List Ev) :
    (brokerLog cfg applied (traceOf cfg evs)).Pairwise
      (fun E1 E2 => ∀ s, s ∈ E1.sids → s ∈ E2.sids → E1.acked = false ∧ (E1.tp = E2.tp → E1.sids = E2.sids)) :=
  Afkak.Producer.BrokerLog.duplicates_model cfg applied evs

/-- … and when NO acknowledgement is lost (the brokers append exactly what they acknowledge: the oracle is constantly
    false) every entry is an acknowledged one and no send is in two appends: exactly once. -/
theorem C09_no_lost_ack_no_duplicates (cfg : Cfg) (evs : List Ev) :
    (∀ E ∈ brokerLog cfg (fun _ _ => false) (traceOf cfg evs), E.acked = true) ∧
    (brokerLog cfg (fun _ _ => false) (traceOf cfg evs)).Pairwise (fun E1 E2 => ∀ s ∈ E1.sids, s ∉ E2.sids) :=
  ⟨Afkak.Producer.BrokerLog.all_acked cfg _, Afkak.Producer.BrokerLog.exactly_once_model cfg evs⟩

/-- COMPOSED with the client (`Afkak/ProducerCompose.lean`: the client's answers are computed by the client model's
    `send_produce_request` from the cache it routes with and what each broker request came to - an acknowledged
    entry is a payload whose broker request was answered with error 0 by the leader the cache named,
    `C01_composed_success_only_if_leader_acked`): on EVERY composed run, for every oracle, the log is ordered as in
    `C09_log_order` and every reported success is an acknowledged entry. -/
theorem C09_composed_log_order (cfg : Cfg) (nm : Topic → String) (ces : List CEv) (applied : Rid → TP → Bool) :
    runC cfg nm (St.init cfg) ces = run cfg (St.init cfg) (flatten cfg nm (St.init cfg) ces) ∧
    (∀ E ∈ brokerLog cfg applied (traceOf cfg (flatten cfg nm (St.init cfg) ces)),
      E.sids ≠ [] ∧ increasing E.sids = true) ∧
    (brokerLog cfg applied (traceOf cfg (flatten cfg nm (St.init cfg) ces))).Pairwise
      (fun E1 E2 => E1.tp = E2.tp → E1.sids = E2.sids ∨ ∀ x ∈ E1.sids, ∀ y ∈ E2.sids, x < y) ∧
    (∀ A E B, brokerLog cfg applied (traceOf cfg (flatten cfg nm (St.init cfg) ces)) = A ++ E :: B →
      ∀ x y, x < y → y ∈ E.sids →
      (∃ E' ∈ brokerLog cfg applied (traceOf cfg (flatten cfg nm (St.init cfg) ces)), E'.tp = E.tp ∧ x ∈ E'.sids) →
      x ∈ E.sids ∨ ∃ E0 ∈ A, E0.tp = E.tp ∧ x ∈ E0.sids) ∧
    (∀ x ∈ successes (traceOf cfg (flatten cfg nm (St.init cfg) ces)),
      ∃ E ∈ brokerLog cfg applied (traceOf cfg (flatten cfg nm (St.init cfg) ces)),
        E.acked = true ∧ E.tp = x.2.tp ∧ x.1 ∈ E.sids) :=
  ⟨Afkak.ProducerCompose.runC_eq_run cfg nm _ ces,
   (Afkak.Producer.BrokerLog.log_order_model cfg applied _).1,
   (Afkak.Producer.BrokerLog.log_order_model cfg applied _).2.1,
   (Afkak.Producer.BrokerLog.log_order_model cfg applied _).2.2,
   Afkak.Producer.BrokerLog.success_logged_model cfg applied _⟩

/-- … and duplicates on every composed run: only after a lost acknowledgement; none when none is lost. -/
theorem C09_composed_duplicates_only_after_lost_ack (cfg : Cfg) (nm : Topic → String) (ces : List CEv)
    (applied : Rid → TP → Bool) :
    (brokerLog cfg applied (traceOf cfg (flatten cfg nm (St.init cfg) ces))).Pairwise
      (fun E1 E2 => ∀ s, s ∈ E1.sids → s ∈ E2.sids → E1.acked = false ∧ (E1.tp = E2.tp → E1.sids = E2.sids)) ∧
    (brokerLog cfg (fun _ _ => false) (traceOf cfg (flatten cfg nm (St.init cfg) ces))).Pairwise
      (fun E1 E2 => ∀ s ∈ E1.sids, s ∉ E2.sids) :=
  ⟨Afkak.Producer.BrokerLog.duplicates_model cfg applied _, Afkak.Producer.BrokerLog.exactly_once_model cfg _⟩

/-! Non-vacuity: the first attempt's acknowledgement is lost (the request fails at the client, the broker had appended
the payload), the retry is acknowledged, a second send is acknowledged at once: the log has the first send twice -
the earlier copy unacknowledged - then the second send; without the lost acknowledgement each send is there once. -/
def logCfg : Cfg := Cfg.ofArgs 1 3 (1/4) false 1 1 none false
def logEvs : List Ev :=
  [.metaSet 0 0 (some [0]), .send 0 0 none [some 3],
   .produceDone 0 (.failed [] [⟨⟨0, 0⟩, .broker 7, true⟩]), .timer 0,
   .produceDone 1 (.responses [⟨⟨0, 0⟩, 0, 42⟩]),
   .send 1 0 none [some 5], .produceDone 2 (.responses [⟨⟨0, 0⟩, 0, 43⟩])]
example : (brokerLog logCfg (fun rid _ => rid == 0) (traceOf logCfg logEvs)).map (fun E => (E.sids, E.acked)) =
    [([0], false), ([0], true), ([1], true)] := by decide +kernel
example : (brokerLog logCfg (fun _ _ => false) (traceOf logCfg logEvs)).map (fun E => (E.sids, E.acked)) =
    [([0], true), ([1], true)] := by decide +kernel
example : (successes (traceOf logCfg logEvs)).map (·.1) = [0, 1] := by decide +kernel
end BrokerLog

end Afkak.Props.C09

/- OBLIGATIONS
C09_factor_gt_one
C09_retry_only_failed
C09_attempt_bound
C09_geometric
C09_retry_only_failed_handler
C09_retry_guard_handler
C09_order
C09_one_batch
C09_one_request_in_flight_step
C09_reported
C09_acked_reported_step
C09_client_returns_every_response
C09_composed_retry_only_failed
C09_log_order
C09_success_is_logged
C09_duplicates_only_after_lost_ack
C09_no_lost_ack_no_duplicates
C09_composed_log_order
C09_composed_duplicates_only_after_lost_ack
-/
/- OPEN_STATEMENTS
-/
