import Afkak.ClientNet
import Afkak.ClientTrace
import Afkak.Monitor.C08
/-! Statements of C08 that were/are open.  `C08_invalidated_topic_reloads_before_send` is PROVED (AfkakProps/C08.lean);
    `C08_recovers_within_retry_budget_v1` (sessions 3-4) is FALSE as stated (`C08_recovers_within_retry_budget_counterexample`);
    `C08_recovers_within_retry_budget` is its session-5 restatement with the missing hypotheses: open. -/
namespace Afkak.Props.C08.Open
open Afkak.ClientNet Afkak.ClientCache

/-- In every reachable state of the client model, once a topic's routing is invalid the next send of a
    key of that topic issues NO payload request in that step: it must first reload the metadata (the
    coroutine-level half of "invalidates the cached routing so that the next request re-resolves it";
    the kernel-level half is `C08_invalidate`).  The end-to-end sentence of C08 — producing and
    consuming resume against the new leaders within the retry budget after any finite sequence of
    leader moves — additionally needs the producer/consumer models composed with this one and a fair
    environment; it is exercised by simulation only and is not stated as a Lean proposition here. -/
def C08_invalidated_topic_reloads_before_send : Prop :=
  ∀ (cfg : Cfg) (evs : List (Env × Ev)) (key : TP) (o : Nat) (env : Env),
    let st := evs.foldl (fun s e => (step cfg s e.1 e.2).1) ({} : St)
    Afkak.Monitor.C08.topicInvalid st.cache key.1 = true → st.closing = false → o ∉ st.liveOps →
    ∀ ob ∈ (step cfg st env (.send o [key] none true true)).2,
      match ob with
      | .mk _ _ _ (.payloads _ _) => False
      | _ => True

/-- a cluster layout the faults have settled into: the brokers and, per topic, the partition metadata every
    broker now reports -/
structure Layout where
  brokers : List Broker
  topics : List TopicMeta

/-- the broker node the layout names as leader of a key -/
def Layout.leader (L : Layout) (key : TP) : Option Int :=
  (L.topics.filter (fun t => t.name == key.1)).head?.bind (fun t =>
    ((t.parts.filter (fun p => p.part == key.2)).head?).map (·.leader))

/-- what a broker of the settled cluster answers to request `q`: the layout to a metadata request; for a payload
    request, success for the partitions it leads and NotLeaderForPartition (6) for the others -/
def Layout.answer (L : Layout) (st : St) (q : Req) (what : ReqWhat) : Option Res :=
  match what with
  | .metadata _ => some (.ok (.metadata L.brokers L.topics))
  | .payloads _ keys =>
    (match ((st.bcs.filter (fun i => i.b == q.b)).head?).map (·.node) with
     | some node => some (.ok (.items (keys.map (fun key => (key, (if L.leader key == some node then 0 else 6), 0)))))
     | none => none)
  | _ => none

/-- every completion delivered in the run is the settled cluster's answer (`whatOf k`: what request `k` asked,
    as recorded in its `mk` observation), and nothing else disturbs the client: no close, no cancel, no drop -/
def ConsistentWith (L : Layout) (cfg : Cfg) (whatOf : Nat → Option ReqWhat) : St → List (Env × Ev) → Prop
  | _, [] => True
  | st, (env, e) :: rest =>
    (match e with
     | .fire k r => (match reqGet st k, whatOf k with
        | some q, some w => L.answer st q w = some r
        | _, _ => False)
     | .close _ | .cancel _ | .down _ | .bootLost _ | .bootFail _ => False
     | _ => True) ∧ ConsistentWith L cfg whatOf (step cfg st env e).1 rest

/-- (sessions 3-4 statement, kept for its counterexample) **C08, third sentence** (full strength, NOT proved, and false as stated:
    `C08_recovers_within_retry_budget_counterexample` in AfkakProps/C08.lean - the run may contain a clock step that lets
    the third send's request time out; a true version must add that no request of the run times out, that bootstrap
    connections answer with the layout too (`bootReply` is unconstrained by `ConsistentWith`), and that topic names /
    partition ids of the layout are unique (`Layout.leader` takes the FIRST entry, the client's dicts keep the LAST);
    exercised end to end by `harness/lib/e2e_recovery.py` with the
    real Producer and Consumers): after any finite sequence of leader moves, broker restarts and address changes
    (any reachable state of the client), once the cluster has settled into a layout `L` whose leaders are listed
    brokers, a caller that keeps re-sending a request for keys of `L` - in a run where every completion is the
    settled cluster's answer and every request is eventually answered (`pendingAtEnd = []`) - receives, at the
    latest for its THIRD send (stale route -> NotLeader invalidates -> reload -> right leader), the responses of all
    its keys.  The kernel-level step is `C08_recovers_step`; the coroutine-level half of the second sentence is
    `C08_invalidated_topic_reloads_before_send`. -/
def C08_recovers_within_retry_budget_v1 : Prop :=
  ∀ (cfg : Cfg) (past evs : List (Env × Ev)) (L : Layout) (keys : List TP) (whatOf : Nat → Option ReqWhat)
    (o1 o2 o3 : Nat),
    WellFormedRun cfg (past ++ evs) → NoFuel cfg {} (past ++ evs) →
    let st := past.foldl (fun s e => (step cfg s e.1 e.2).1) ({} : St)
    st.closing = false →
    (∀ key ∈ keys, ∃ n, L.leader key = some n ∧ n ≠ -1 ∧ n ∈ L.brokers.map (·.nodeId)) → keys ≠ [] →
    ConsistentWith L cfg whatOf st evs →
    (∀ it ∈ traceOf cfg st evs, ∀ k b e w, it = TItem.ob (.mk k b e w) → whatOf k = some w) →
    -- the caller sends three times, each after the previous attempt completed
    (evs.filterMap (fun e => match e.2 with | .send o ks none _ _ => if ks == keys then some o else none | _ => none)) = [o1, o2, o3] →
    ((evs.foldl (fun s e => (step cfg s e.1 e.2).1) st).reqs.filter (·.pending)) = [] →
    ∃ tags, TItem.ob (.result o3 (.responses tags)) ∈ traceOf cfg st evs ∧ tags.length = keys.length

/-- `ConsistentWith` plus: a BOOTSTRAP connection that answers, answers with the layout too -/
def ConsistentWith2 (L : Layout) (cfg : Cfg) (whatOf : Nat → Option ReqWhat) : St → List (Env × Ev) → Prop
  | _, [] => True
  | st, (env, e) :: rest =>
    (match e with
     | .fire k r => (match reqGet st k, whatOf k with
        | some q, some w => L.answer st q w = some r
        | _, _ => False)
     | .bootReply _ p => p = .metadata L.brokers L.topics
     | .close _ | .cancel _ | .down _ | .bootLost _ | .bootFail _ => False
     | _ => True) ∧ ConsistentWith2 L cfg whatOf (step cfg st env e).1 rest

/-- the layout names every broker, topic and partition once (`Layout.leader` reads the FIRST entry, the client's
    dictionaries keep the LAST) -/
def Layout.unique (L : Layout) : Prop :=
  (L.brokers.map (·.nodeId)).Nodup ∧ (L.topics.map (·.name)).Nodup ∧ ∀ t ∈ L.topics, (t.parts.map (·.part)).Nodup

/-- **C08, third sentence, client level** (OPEN; session 5 restatement of `…_v1`, which is false as stated).  After any
    finite sequence of leader moves, broker restarts and address changes (any reachable state of the client, not closing),
    once the cluster has settled into a layout `L` (unique names) whose leaders of `keys` are listed brokers, a caller that
    keeps re-sending a request for the distinct keys `keys` and expects responses (`expect = true`) - in a run in which
    every completion delivered (broker or bootstrap) is the settled cluster's answer, NO request is timed out by the
    client (`bcCancel` never observed: the environment answers before the request timeout; `…_v1` lacked this), nothing
    is closed, cancelled or dropped, and every request is eventually answered - receives, at the latest for its THIRD
    send (stale route -> NotLeader invalidates -> reload -> right leader), the responses of all its keys.
    NOT proved (it needs the three sends followed through every interleaving with the other operations of the run);
    no counterexample is known.  Exercised end to end by `harness/lib/e2e_recovery.py` (real Producer and Consumers over
    real clients over a simulated cluster; PYTHON monitors with Python-computed bounds, not Lean monitors).  Proved
    pieces: `C08_recovers_step` (kernel), `C08_invalidated_topic_reloads_before_send`, `C08_failed_send_invalidates_coroutine`. -/
def C08_recovers_within_retry_budget : Prop :=
  ∀ (cfg : Cfg) (past evs : List (Env × Ev)) (L : Layout) (keys : List TP) (whatOf : Nat → Option ReqWhat)
    (o1 o2 o3 : Nat),
    WellFormedRun cfg (past ++ evs) → NoFuel cfg {} (past ++ evs) →
    let st := past.foldl (fun s e => (step cfg s e.1 e.2).1) ({} : St)
    st.closing = false → L.unique → keys.Nodup →
    (∀ key ∈ keys, ∃ n, L.leader key = some n ∧ n ≠ -1 ∧ n ∈ L.brokers.map (·.nodeId)) → keys ≠ [] →
    ConsistentWith2 L cfg whatOf st evs →
    (∀ it ∈ traceOf cfg st evs, ∀ k b e w, it = TItem.ob (.mk k b e w) → whatOf k = some w) →
    (∀ it ∈ traceOf cfg st evs, ∀ k, it ≠ TItem.ob (.bcCancel k)) →
    -- the caller sends three times, each after the previous attempt completed
    (evs.filterMap (fun e => match e.2 with | .send o ks none _ true => if ks == keys then some o else none | _ => none)) = [o1, o2, o3] →
    ((evs.foldl (fun s e => (step cfg s e.1 e.2).1) st).reqs.filter (·.pending)) = [] →
    ∃ tags, TItem.ob (.result o3 (.responses tags)) ∈ traceOf cfg st evs ∧ tags.length = keys.length

end Afkak.Props.C08.Open
