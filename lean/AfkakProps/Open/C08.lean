import Afkak.ClientNet
import Afkak.Monitor.C08
/-! Open statements of C08 (full strength, not proved). -/
namespace Afkak.Props.C08.Open
open Afkak.ClientNet Afkak.ClientCache

/-- In every reachable state of the client model, once a topic's routing is invalid the next send of a
    key of that topic issues NO payload request in that step: it must first reload the metadata (the
    coroutine-level half of "invalidates the cached routing so that the next request re-resolves it";
    the kernel-level half is `C08_invalidate`).  The end-to-end sentence of C08 — producing and
    consuming resume against the new leaders within the retry budget after any finite sequence of
    leader moves — additionally needs the producer/consumer models composed with this one and a fair
    environment; it is exercised by simulation only and is not stated as a Lean proposition here. -/
def C08_invalidated_topic_reloads_before_send : Prop :=
  ∀ (cfg : Cfg) (evs : List (Env × Ev)) (key : TP) (o : Nat) (env : Env),
    let st := evs.foldl (fun s e => (step cfg s e.1 e.2).1) ({} : St)
    Afkak.Monitor.C08.topicInvalid st.cache key.1 = true → st.closing = false → o ∉ st.liveOps →
    ∀ ob ∈ (step cfg st env (.send o [key] none true true)).2,
      match ob with
      | .mk _ _ _ (.payloads _ _) => False
      | _ => True

end Afkak.Props.C08.Open
