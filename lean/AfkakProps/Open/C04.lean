import Afkak.Monitor.C04
import Afkak.Monitor.C04Total
import Afkak.Wire.Requests
/-!
# C04 — full-strength statements

Statements, not theorems.  Those named `…_stmt` are PROVED in `AfkakProps/C04.lean` (theorem of the
same name without the suffix); any other is listed in its `OPEN_STATEMENTS` block; none is weakened.  The implementation is checked against every one of them on each run through the
monitor (`Afkak.Monitor.C04`), which is the very predicate the statements are about.
-/
namespace Afkak.Props.C04
open Afkak Afkak.Wire Afkak.Codec Afkak.Monitor.C04

set_option synthInstance.maxSize 100000

/-- Produce v0/v1/v2: the frame parses to the header with the clamped version, acks, timeout, and
    the payloads nested by topic, every message with its magic, attributes, timestamp, key, value
    (null ≠ empty) and a checksum that verifies, in the caller's per-partition order. -/
def C04_produce_conforms_stmt : Prop :=
  ∀ (ext : Ext) (cid : Bytes) (corr : Int) (ps : List ProduceReq) (acks timeout ver : Int) (frame : Bytes),
    encodeProduceRequest ext cid corr ps acks timeout ver = .ok frame →
    Monitor.C04.produce ext.crc ext.nowMs cid corr ps acks timeout ver frame ≠ .fail

def C04_fetch_conforms_stmt : Prop :=
  ∀ (cid : Bytes) (corr : Int) (ps : List FetchReq) (wait minb ver : Int) (frame : Bytes),
    encodeFetchRequest cid corr ps wait minb ver = .ok frame →
    Monitor.C04.fetch cid corr ps wait minb ver frame ≠ .fail

def C04_list_offsets_conforms_stmt : Prop :=
  ∀ (cid : Bytes) (corr : Int) (ps : List OffsetReq) (frame : Bytes),
    encodeOffsetRequest cid corr ps = .ok frame → Monitor.C04.listOffsets cid corr ps frame ≠ .fail

def C04_offset_commit_conforms_stmt : Prop :=
  ∀ (cid : Bytes) (corr : Int) (g : Option Bytes) (gen : Int) (c : Option Bytes) (ps : List OffsetCommitReq) (frame : Bytes),
    encodeOffsetCommitRequest cid corr g gen c ps = .ok frame →
    Monitor.C04.offsetCommit cid corr g gen c ps frame ≠ .fail

def C04_offset_fetch_conforms_stmt : Prop :=
  ∀ (cid : Bytes) (corr : Int) (g : Option Bytes) (ps : List OffsetFetchReq) (frame : Bytes),
    encodeOffsetFetchRequest cid corr g ps = .ok frame → Monitor.C04.offsetFetch cid corr g ps frame ≠ .fail

/-- the subscription a member sends inside JoinGroup -/
def C04_subscription_conforms_stmt : Prop :=
  ∀ (ver : Int) (topics : List (Option Bytes)) (ud : Option Bytes) (data : Bytes),
    encodeJoinGroupProtocolMetadata ver topics ud = .ok data → Monitor.C04.subscription ver topics ud data ≠ .fail

/-- the assignment the leader sends inside SyncGroup -/
def C04_assignment_conforms_stmt : Prop :=
  ∀ (ver : Int) (asg : List (Option Bytes × List Int)) (ud : Option Bytes) (data : Bytes),
    encodeSyncGroupMemberAssignment ver asg ud = .ok data → Monitor.C04.assignment ver asg ud data ≠ .fail

/-- grouping by topic keeps every payload exactly once and in the caller's relative order:
    with non-null topics, whenever the encoders' guard passes (the grouped structure holds as many
    payloads as were given, `_group_payloads`) the grouped structure is the independent `regroup`
    (topics by first occurrence, payloads of a topic in the order given). -/
def C04_order_preserved_stmt : Prop :=
  ∀ {α : Type} (topic : α → Option Bytes) (partition : α → Int) (xs : List α) (l : List (Bytes × (Int × α))),
    keyed topic partition (fun x => some x) xs = some l →
    payloadCount (groupByTopicPartition topic partition xs) = xs.length →
    groupByTopicPartition topic partition xs = (regroup l).map (fun e => (some e.1, e.2))

/-- every message the encoder emits carries the checksum of exactly the bytes after the checksum
    field (so it verifies under the grammar's message codec) -/
def C04_crc_valid_stmt : Prop :=
  ∀ (ext : Ext) (m : Message) (bytes : Bytes), encodeMessage ext m = .ok bytes →
    ∃ sm, specMsg ext.nowMs m = some sm ∧ ((Spec.message ext.crc).valid sm = true → (Spec.message ext.crc).dec bytes = some sm)

/-- the guard of `_group_payloads` (as many payloads in the grouped structure as were given) holds
    exactly for the lists that name no (topic, partition) twice: nothing legal is refused, and no
    list that would lose a payload passes -/
def C04_guard_exact_stmt : Prop :=
  ∀ {α : Type} (topic : α → Option Bytes) (partition : α → Int) (xs : List α),
    payloadCount (groupByTopicPartition topic partition xs) = xs.length
      ↔ (xs.map (fun x => (topic x, partition x))).Nodup

/-- a payload list that names a (topic, partition) twice is refused (`ValueError`) by every
    broker-aware encoder: no request is written from which a payload is missing -/
def C04_duplicate_refused_stmt : Prop :=
  (∀ (ext : Ext) (cid : Bytes) (corr : Int) (ps : List ProduceReq) (acks timeout ver : Int),
      ¬ (ps.map (fun p => (p.topic, p.partition))).Nodup →
      encodeProduceRequest ext cid corr ps acks timeout ver = .error .valueError)
  ∧ (∀ (cid : Bytes) (corr : Int) (ps : List FetchReq) (wait minb ver : Int),
      ¬ (ps.map (fun p => (p.topic, p.partition))).Nodup →
      encodeFetchRequest cid corr ps wait minb ver = .error .valueError)
  ∧ (∀ (cid : Bytes) (corr : Int) (ps : List OffsetReq),
      ¬ (ps.map (fun p => (p.topic, p.partition))).Nodup →
      encodeOffsetRequest cid corr ps = .error .valueError)
  ∧ (∀ (cid : Bytes) (corr : Int) (g : Option Bytes) (ps : List OffsetFetchReq),
      ¬ (ps.map (fun p => (p.topic, p.partition))).Nodup →
      encodeOffsetFetchRequest cid corr g ps = .error .valueError)
  ∧ (∀ (cid : Bytes) (corr : Int) (g : Option Bytes) (gen : Int) (c : Bytes) (ps : List OffsetCommitReq),
      ¬ (ps.map (fun p => (p.topic, p.partition))).Nodup →
      encodeOffsetCommitRequest cid corr g gen (some c) ps = .error .valueError)


/-! ### no spurious refusal: a value the grammar can carry is written, and the monitor says `ok` -/

def C04_produce_total_stmt : Prop :=
  ∀ (ext : Ext) (cid : Bytes) (corr : Int) (ps : List ProduceReq) (acks timeout ver v : Int)
    (l : List (Bytes × (Int × List (Int × Spec.Msg)))),
    implementedVersion ver = some v →
    keyed ProduceReq.topic ProduceReq.partition (fun p => specEntries ext.nowMs p.messages) ps = some l →
    ¬ (v < 2 ∧ l.any (fun e => e.2.2.any (fun m => m.2.magic ≠ 0)) = true) →
    (ps.map (fun p => (p.topic, p.partition))).Nodup →
    (Spec.request (Spec.produceRequest ext.crc)).valid (hdr 0 v corr cid, acks, timeout, regroup l) = true →
    (∀ e ∈ regroup l, isAscii e.1 = true) →
    ∃ frame, encodeProduceRequest ext cid corr ps acks timeout ver = .ok frame
      ∧ Monitor.C04.produce ext.crc ext.nowMs cid corr ps acks timeout ver frame = .ok

def C04_fetch_total_stmt : Prop :=
  ∀ (cid : Bytes) (corr : Int) (ps : List FetchReq) (wait minb ver v : Int) (l : List (Bytes × (Int × (Int × Int)))),
    implementedVersion ver = some v →
    keyed FetchReq.topic FetchReq.partition (fun p => some (p.offset, p.maxBytes)) ps = some l →
    (ps.map (fun p => (p.topic, p.partition))).Nodup →
    (Spec.request Spec.fetchRequest).valid (hdr 1 v corr cid, -1, wait, minb, regroup l) = true →
    (∀ e ∈ regroup l, isAscii e.1 = true) →
    ∃ frame, encodeFetchRequest cid corr ps wait minb ver = .ok frame
      ∧ Monitor.C04.fetch cid corr ps wait minb ver frame = .ok

def C04_list_offsets_total_stmt : Prop :=
  ∀ (cid : Bytes) (corr : Int) (ps : List OffsetReq) (l : List (Bytes × (Int × (Int × Int)))),
    keyed OffsetReq.topic OffsetReq.partition (fun p => some (p.time, p.maxOffsets)) ps = some l →
    (ps.map (fun p => (p.topic, p.partition))).Nodup →
    (Spec.request Spec.listOffsetsRequest).valid (hdr 2 0 corr cid, -1, regroup l) = true →
    (∀ e ∈ regroup l, isAscii e.1 = true) →
    ∃ frame, encodeOffsetRequest cid corr ps = .ok frame ∧ Monitor.C04.listOffsets cid corr ps frame = .ok

def C04_offset_fetch_total_stmt : Prop :=
  ∀ (cid g : Bytes) (corr : Int) (ps : List OffsetFetchReq) (l : List (Bytes × (Int × Unit))),
    keyed OffsetFetchReq.topic OffsetFetchReq.partition (fun _ => some ()) ps = some l →
    (ps.map (fun p => (p.topic, p.partition))).Nodup →
    (Spec.request Spec.offsetFetchRequest).valid
      (hdr 9 1 corr cid, g, (regroup l).map (fun e => (e.1, e.2.map (·.1)))) = true →
    (∀ e ∈ regroup l, isAscii e.1 = true) →
    ∃ frame, encodeOffsetFetchRequest cid corr (some g) ps = .ok frame
      ∧ Monitor.C04.offsetFetch cid corr (some g) ps frame = .ok

def C04_offset_commit_total_stmt : Prop :=
  ∀ (cid g c : Bytes) (corr gen : Int) (ps : List OffsetCommitReq)
    (l : List (Bytes × (Int × (Int × Int × Option Bytes)))),
    keyed OffsetCommitReq.topic OffsetCommitReq.partition (fun p => some (p.offset, p.timestamp, p.metadata)) ps = some l →
    (ps.map (fun p => (p.topic, p.partition))).Nodup →
    (Spec.request Spec.offsetCommitRequest).valid (hdr 8 1 corr cid, g, gen, c, regroup l) = true →
    (∀ e ∈ regroup l, isAscii e.1 = true) →
    ∃ frame, encodeOffsetCommitRequest cid corr (some g) gen (some c) ps = .ok frame
      ∧ Monitor.C04.offsetCommit cid corr (some g) gen (some c) ps frame = .ok

def C04_metadata_total_stmt : Prop :=
  ∀ (cid : Bytes) (corr : Int) (topics : List (Option Bytes)) (ts : List Bytes),
    topics.mapM id = some ts →
    (Spec.request Spec.metadataRequest).valid (hdr 3 0 corr cid, ts) = true →
    (∀ t ∈ ts, isAscii t = true) →
    ∃ frame, encodeMetadataRequest cid corr topics = .ok frame ∧ Monitor.C04.metadata cid corr topics frame = .ok

def C04_group_requests_total_stmt : Prop :=
  (∀ (cid g : Bytes) (corr : Int),
    (Spec.request Spec.findCoordinatorRequest).valid (hdr 10 0 corr cid, g) = true →
    ∃ frame, encodeConsumerMetadataRequest cid corr (some g) = .ok frame
      ∧ Monitor.C04.findCoordinator cid corr (some g) frame = .ok)
  ∧ (∀ (cid g m : Bytes) (corr gen : Int),
    (Spec.request Spec.heartbeatRequest).valid (hdr 12 0 corr cid, g, gen, m) = true →
    ∃ frame, encodeHeartbeatRequest cid corr (some g) gen (some m) = .ok frame
      ∧ Monitor.C04.heartbeat cid corr (some g) gen (some m) frame = .ok)
  ∧ (∀ (cid g m : Bytes) (corr : Int),
    (Spec.request Spec.leaveGroupRequest).valid (hdr 13 0 corr cid, g, m) = true →
    ∃ frame, encodeLeaveGroupRequest cid corr (some g) (some m) = .ok frame
      ∧ Monitor.C04.leaveGroup cid corr (some g) (some m) frame = .ok)
  ∧ (∀ (cid : Bytes) (corr : Int),
    (Spec.request Spec.apiVersionsRequest).valid (hdr 18 0 corr cid, ()) = true →
    ∃ frame, encodeApiVersionsRequest cid corr 18 0 = .ok frame
      ∧ Monitor.C04.apiVersions cid corr 18 0 frame = .ok)

def C04_join_sync_total_stmt : Prop :=
  (∀ (cid : Bytes) (corr : Int) (p : JoinGroupReq) (g m t : Bytes) (ps : List (Bytes × Bytes)),
    p.group = some g → p.memberId = some m → p.protocolType = some t → pairs p.groupProtocols = some ps →
    (Spec.request Spec.joinGroupRequest).valid (hdr 11 0 corr cid, g, p.sessionTimeout, m, t, ps) = true →
    (∀ e ∈ ps, isAscii e.1 = true) →
    ∃ frame, encodeJoinGroupRequest cid corr p = .ok frame ∧ Monitor.C04.joinGroup cid corr p frame = .ok)
  ∧ (∀ (cid g m : Bytes) (corr gen : Int) (asg : List (Option Bytes × Option Bytes)) (ps : List (Bytes × Bytes)),
    pairs asg = some ps →
    (Spec.request Spec.syncGroupRequest).valid (hdr 14 0 corr cid, g, gen, m, ps) = true →
    ∃ frame, encodeSyncGroupRequest cid corr (some g) gen (some m) asg = .ok frame
      ∧ Monitor.C04.syncGroup cid corr (some g) gen (some m) asg frame = .ok)

def C04_consumer_protocol_total_stmt : Prop :=
  (∀ (ver : Int) (subs : List (Option Bytes)) (ud : Option Bytes) (ts : List Bytes),
    subs.mapM id = some ts → (whole Spec.subscription).valid (ver, ts, ud) = true →
    ∃ data, encodeJoinGroupProtocolMetadata ver subs ud = .ok data ∧ Monitor.C04.subscription ver subs ud data = .ok)
  ∧ (∀ (ver : Int) (asg : List (Option Bytes × List Int)) (ud : Option Bytes) (a : List (Bytes × List Int)),
    asg.mapM (fun (p : Option Bytes × List Int) => p.1.map (fun t => (t, p.2))) = some a →
    (whole Spec.assignment).valid (ver, a, ud) = true → (∀ e ∈ a, isAscii e.1 = true) →
    ∃ data, encodeSyncGroupMemberAssignment ver asg ud = .ok data ∧ Monitor.C04.assignment ver asg ud data = .ok)

/-- **What the harness evaluates when the real encoder refused**: an argument list for which the
    executable predicate `must…` holds is never refused by the model of the encoder, and the frame
    conforms.  (The predicates are exactly the hypotheses of the `C04_*_total` statements.) -/
def C04_must_encode_stmt : Prop :=
  (∀ (ext : Ext) (cid : Bytes) (corr : Int) (ps : List ProduceReq) (acks timeout ver : Int),
    mustProduce ext.crc ext.nowMs cid corr ps acks timeout ver = true →
    ∃ frame, encodeProduceRequest ext cid corr ps acks timeout ver = .ok frame
      ∧ Monitor.C04.produce ext.crc ext.nowMs cid corr ps acks timeout ver frame = .ok)
  ∧ (∀ (cid : Bytes) (corr : Int) (ps : List FetchReq) (wait minb ver : Int),
    mustFetch cid corr ps wait minb ver = true →
    ∃ frame, encodeFetchRequest cid corr ps wait minb ver = .ok frame
      ∧ Monitor.C04.fetch cid corr ps wait minb ver frame = .ok)
  ∧ (∀ (cid : Bytes) (corr : Int) (ps : List OffsetReq),
    mustListOffsets cid corr ps = true →
    ∃ frame, encodeOffsetRequest cid corr ps = .ok frame ∧ Monitor.C04.listOffsets cid corr ps frame = .ok)
  ∧ (∀ (cid : Bytes) (corr : Int) (g : Option Bytes) (ps : List OffsetFetchReq),
    mustOffsetFetch cid corr g ps = true →
    ∃ frame, encodeOffsetFetchRequest cid corr g ps = .ok frame ∧ Monitor.C04.offsetFetch cid corr g ps frame = .ok)
  ∧ (∀ (cid : Bytes) (corr : Int) (g : Option Bytes) (gen : Int) (c : Option Bytes) (ps : List OffsetCommitReq),
    mustOffsetCommit cid corr g gen c ps = true →
    ∃ frame, encodeOffsetCommitRequest cid corr g gen c ps = .ok frame
      ∧ Monitor.C04.offsetCommit cid corr g gen c ps frame = .ok)
  ∧ (∀ (cid : Bytes) (corr : Int) (topics : List (Option Bytes)),
    mustMetadata cid corr topics = true →
    ∃ frame, encodeMetadataRequest cid corr topics = .ok frame ∧ Monitor.C04.metadata cid corr topics frame = .ok)
  ∧ (∀ (cid : Bytes) (corr : Int) (g : Option Bytes),
    mustFindCoordinator cid corr g = true →
    ∃ frame, encodeConsumerMetadataRequest cid corr g = .ok frame ∧ Monitor.C04.findCoordinator cid corr g frame = .ok)
  ∧ (∀ (cid : Bytes) (corr : Int) (p : JoinGroupReq),
    mustJoinGroup cid corr p = true →
    ∃ frame, encodeJoinGroupRequest cid corr p = .ok frame ∧ Monitor.C04.joinGroup cid corr p frame = .ok)
  ∧ (∀ (cid : Bytes) (corr : Int) (g : Option Bytes) (gen : Int) (m : Option Bytes) (asg : List (Option Bytes × Option Bytes)),
    mustSyncGroup cid corr g gen m asg = true →
    ∃ frame, encodeSyncGroupRequest cid corr g gen m asg = .ok frame ∧ Monitor.C04.syncGroup cid corr g gen m asg frame = .ok)
  ∧ (∀ (cid : Bytes) (corr : Int) (g : Option Bytes) (gen : Int) (m : Option Bytes),
    mustHeartbeat cid corr g gen m = true →
    ∃ frame, encodeHeartbeatRequest cid corr g gen m = .ok frame ∧ Monitor.C04.heartbeat cid corr g gen m frame = .ok)
  ∧ (∀ (cid : Bytes) (corr : Int) (g m : Option Bytes),
    mustLeaveGroup cid corr g m = true →
    ∃ frame, encodeLeaveGroupRequest cid corr g m = .ok frame ∧ Monitor.C04.leaveGroup cid corr g m frame = .ok)
  ∧ (∀ (cid : Bytes) (corr key ver : Int),
    mustApiVersions cid corr key ver = true →
    ∃ frame, encodeApiVersionsRequest cid corr key ver = .ok frame ∧ Monitor.C04.apiVersions cid corr key ver frame = .ok)
  ∧ (∀ (ver : Int) (subs : List (Option Bytes)) (ud : Option Bytes),
    mustSubscription ver subs ud = true →
    ∃ data, encodeJoinGroupProtocolMetadata ver subs ud = .ok data ∧ Monitor.C04.subscription ver subs ud data = .ok)
  ∧ (∀ (ver : Int) (asg : List (Option Bytes × List Int)) (ud : Option Bytes),
    mustAssignment ver asg ud = true →
    ∃ data, encodeSyncGroupMemberAssignment ver asg ud = .ok data ∧ Monitor.C04.assignment ver asg ud data = .ok)

end Afkak.Props.C04
