import Afkak.Monitor.C04
import Afkak.Wire.Requests
/-!
# C04 — full-strength statements

Statements, not theorems.  Those named `…_stmt` are PROVED in `AfkakProps/C04.lean` (theorem of the
same name without the suffix); any other is listed in its `OPEN_STATEMENTS` block; none is weakened.  The implementation is checked against every one of them on each run through the
monitor (`Afkak.Monitor.C04`), which is the very predicate the statements are about.
-/
namespace Afkak.Props.C04
open Afkak Afkak.Wire Afkak.Codec Afkak.Monitor.C04

set_option synthInstance.maxSize 100000

/-- Produce v0/v1/v2: the frame parses to the header with the clamped version, acks, timeout, and
    the payloads nested by topic, every message with its magic, attributes, timestamp, key, value
    (null ≠ empty) and a checksum that verifies, in the caller's per-partition order. -/
def C04_produce_conforms_stmt : Prop :=
  ∀ (ext : Ext) (cid : Bytes) (corr : Int) (ps : List ProduceReq) (acks timeout ver : Int) (frame : Bytes),
    encodeProduceRequest ext cid corr ps acks timeout ver = .ok frame →
    Monitor.C04.produce ext.crc ext.nowMs cid corr ps acks timeout ver frame ≠ .fail

def C04_fetch_conforms_stmt : Prop :=
  ∀ (cid : Bytes) (corr : Int) (ps : List FetchReq) (wait minb ver : Int) (frame : Bytes),
    encodeFetchRequest cid corr ps wait minb ver = .ok frame →
    Monitor.C04.fetch cid corr ps wait minb ver frame ≠ .fail

def C04_list_offsets_conforms_stmt : Prop :=
  ∀ (cid : Bytes) (corr : Int) (ps : List OffsetReq) (frame : Bytes),
    encodeOffsetRequest cid corr ps = .ok frame → Monitor.C04.listOffsets cid corr ps frame ≠ .fail

def C04_offset_commit_conforms_stmt : Prop :=
  ∀ (cid : Bytes) (corr : Int) (g : Option Bytes) (gen : Int) (c : Option Bytes) (ps : List OffsetCommitReq) (frame : Bytes),
    encodeOffsetCommitRequest cid corr g gen c ps = .ok frame →
    Monitor.C04.offsetCommit cid corr g gen c ps frame ≠ .fail

def C04_offset_fetch_conforms_stmt : Prop :=
  ∀ (cid : Bytes) (corr : Int) (g : Option Bytes) (ps : List OffsetFetchReq) (frame : Bytes),
    encodeOffsetFetchRequest cid corr g ps = .ok frame → Monitor.C04.offsetFetch cid corr g ps frame ≠ .fail

/-- the subscription a member sends inside JoinGroup -/
def C04_subscription_conforms_stmt : Prop :=
  ∀ (ver : Int) (topics : List (Option Bytes)) (ud : Option Bytes) (data : Bytes),
    encodeJoinGroupProtocolMetadata ver topics ud = .ok data → Monitor.C04.subscription ver topics ud data ≠ .fail

/-- the assignment the leader sends inside SyncGroup -/
def C04_assignment_conforms_stmt : Prop :=
  ∀ (ver : Int) (asg : List (Option Bytes × List Int)) (ud : Option Bytes) (data : Bytes),
    encodeSyncGroupMemberAssignment ver asg ud = .ok data → Monitor.C04.assignment ver asg ud data ≠ .fail

/-- grouping by topic keeps every payload exactly once and in the caller's relative order:
    with non-null topics, whenever the encoders' guard passes (the grouped structure holds as many
    payloads as were given, `_group_payloads`) the grouped structure is the independent `regroup`
    (topics by first occurrence, payloads of a topic in the order given). -/
def C04_order_preserved_stmt : Prop :=
  ∀ {α : Type} (topic : α → Option Bytes) (partition : α → Int) (xs : List α) (l : List (Bytes × (Int × α))),
    keyed topic partition (fun x => some x) xs = some l →
    payloadCount (groupByTopicPartition topic partition xs) = xs.length →
    groupByTopicPartition topic partition xs = (regroup l).map (fun e => (some e.1, e.2))

/-- every message the encoder emits carries the checksum of exactly the bytes after the checksum
    field (so it verifies under the grammar's message codec) -/
def C04_crc_valid_stmt : Prop :=
  ∀ (ext : Ext) (m : Message) (bytes : Bytes), encodeMessage ext m = .ok bytes →
    ∃ sm, specMsg ext.nowMs m = some sm ∧ ((Spec.message ext.crc).valid sm = true → (Spec.message ext.crc).dec bytes = some sm)

end Afkak.Props.C04
