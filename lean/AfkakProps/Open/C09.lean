import Afkak.Monitor.C09
/-! Full-strength (trace-level) statements of C09 that are not (yet) proved: statements, not theorems.
Handler-level halves that ARE proved are in `AfkakProps/C09.lean`. -/
namespace Afkak.Props.C09
open Afkak.Producer Afkak.Monitor.ProducerTrace Afkak.Monitor.C09

def C09_order : Prop := ∀ cfg evs, order cfg (traceOf cfg evs) = true
def C09_one_batch : Prop := ∀ cfg evs, oneBatch cfg (traceOf cfg evs) = true
end Afkak.Props.C09
