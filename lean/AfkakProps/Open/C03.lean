import Afkak.Monitor.C14
/-! # C03 — full-strength statements that are NOT (yet) proved. -/
namespace Afkak.Props.Open.C03
open Afkak.Consumer Afkak.Monitor

/-- A `commit()` that reports success at once had nothing to commit. -/
def C03_commit_reports : Prop :=
  ∀ (cfg : Cfg) (script : List PEntry) (evs : List Ev), C03.commitReportsOk (trace cfg script evs) = true

end Afkak.Props.Open.C03
