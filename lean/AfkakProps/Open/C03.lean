import Afkak.Monitor.C14
/-! # C03 — full-strength statements stated apart from their proofs.

`C03_commit_reports` is PROVED (session 5): `Afkak.Props.C03.C03_commit_reports` in `AfkakProps/C03.lean`
(invariant `E.He`, `AfkakProofs/Consumer/E_1..E_3`, `A5_CR1.run_e`); the definition stays here because the theorem is
stated as `Open.C03.C03_commit_reports`. -/
namespace Afkak.Props.Open.C03
open Afkak.Consumer Afkak.Monitor

/-- A `commit()` that reports success at once had nothing to commit. -/
def C03_commit_reports : Prop :=
  ∀ (cfg : Cfg) (script : List PEntry) (evs : List Ev), C03.commitReportsOk (trace cfg script evs) = true

end Afkak.Props.Open.C03
