import Afkak.Monitor.C14
/-! # C03 — full-strength statements that are NOT (yet) proved. -/
namespace Afkak.Props.Open.C03
open Afkak.Consumer Afkak.Monitor

/-- After a processor failure nothing more is delivered (so nothing more can be committed) until the
    consumer is started again. -/
def C03_failure_stops_progress : Prop :=
  ∀ (cfg : Cfg) (script : List PEntry) (evs : List Ev),
    (∀ e ∈ script, ∀ t, e.res ≠ .err .cancelled t) → C03.failureStopsOk (trace cfg script evs) = true

/-- A `commit()` that reports success at once had nothing to commit. -/
def C03_commit_reports : Prop :=
  ∀ (cfg : Cfg) (script : List PEntry) (evs : List Ev), C03.commitReportsOk (trace cfg script evs) = true

/-- Crash safety: at every point of every run, the offset of every commit request issued so far is
    covered by successfully processed blocks - a restart from the stored offset skips nothing unprocessed. -/
def C03_crash_safe : Prop :=
  ∀ (cfg : Cfg) (script : List PEntry) (evs : List Ev) (n : Nat),
    C03.commitLeProcessedOk (trace cfg script (evs.take n)) = true ∧
    C03.failureStopsOk (trace cfg script (evs.take n)) = true

end Afkak.Props.Open.C03
