import Afkak.Monitor.C01
/-! Full-strength statements of C01 that are not (yet) proved: statements, not theorems.
The step-level halves that ARE proved are in `AfkakProps/C01.lean`. -/
namespace Afkak.Props.C01
open Afkak.Producer Afkak.Monitor.ProducerTrace Afkak.Monitor.C01

/-- when no batch is in flight every dispatched send has fired, given C07's accounting -/
def C01_fires_exactly_once : Prop := ∀ cfg evs, resolvedFired cfg (traceOf cfg evs) = true

/-- every payload is made of whole, known, distinct sends of its topic -/
def C01_payload_integrity : Prop := ∀ cfg evs, payloads cfg (traceOf cfg evs) = true

/-- with acks = 0 no send fails with NoResponseError -/
def C01_acks0_succeeds : Prop := ∀ cfg evs, acks0 cfg (traceOf cfg evs) = true

end Afkak.Props.C01
