import Afkak.Monitor.C01
/-! Full-strength statements of C01 that are not (yet) proved: statements, not theorems.
The step-level halves that ARE proved are in `AfkakProps/C01.lean`. -/
namespace Afkak.Props.C01
open Afkak.Producer Afkak.Monitor.ProducerTrace Afkak.Monitor.C01

/-- every payload is made of whole, known, distinct sends of its topic -/
def C01_payload_integrity : Prop := ∀ cfg evs, payloads cfg (traceOf cfg evs) = true

end Afkak.Props.C01
