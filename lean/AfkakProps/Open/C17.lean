import Afkak.Monitor.C17
/-!
# C17 — full-strength statements that are NOT proved (and why)
-/
namespace Afkak.Props.C17.Open
open Afkak.Group Afkak.Consts Afkak.Monitor.C17

/-- Full strength: after EVERY event list a started, non-stopping member is busy.  The code violates
    it (finding F12, non-Kafka half): see `C17_never_idle_counterexample`. -/
def C17_never_idle : Prop := ∀ (cfg : Cfg) (evs : List Ev), neverIdle (toMSteps (run cfg evs)) = true

/-- Full strength: EVERY non-Kafka error, including one escaping the join (coordinator look-up,
    metadata load, leader partition load), surfaces on the Deferred returned by `start()`.
    The code swallows the escaping ones: see `C17_fatal_surfaces_counterexample`. -/
def C17_fatal_surfaces : Prop :=
  ∀ (cfg : Cfg) (evs : List Ev), fatalSurfaces (toMSteps (run cfg evs)) = true ∧ escapeSurfaces (toMSteps (run cfg evs)) = true

/-- Once failures cease the member reaches stable membership within the pending delay plus the
    protocol's reply count (model time).  Not attempted yet. -/
def C17_rejoins_bounded : Prop :=
  ∀ (cfg : Cfg) (evs : List Ev), (final cfg evs).started = true → (final cfg evs).stopping = false →
    ∃ tail : List Ev, tail.length ≤ 8 ∧ (final cfg (evs ++ tail)).rejoinNeeded = false

end Afkak.Props.C17.Open
