import Afkak.Monitor.C17
/-!
# C17 — full-strength statements (not proved, and why — or proved since, where noted)
-/
namespace Afkak.Props.C17.Open
open Afkak.Group Afkak.Consts Afkak.Monitor.C17

/-- Full strength: after EVERY event list a started, non-stopping member is busy.  The code violates
    it (finding F12, non-Kafka half): see `C17_never_idle_counterexample`.  Proved for every history
    without the finding's situation: `C17_never_idle_partial` (hypothesis `f12Occurs cfg evs = false`). -/
def C17_never_idle : Prop := ∀ (cfg : Cfg) (evs : List Ev), neverIdle (toMSteps (run cfg evs)) = true

/-- Full strength: EVERY non-Kafka error, including one escaping the join (coordinator look-up,
    metadata load, leader partition load), surfaces on the Deferred returned by `start()`.
    The code swallows the escaping ones: see `C17_fatal_surfaces_counterexample`.  Proved for every
    history without the finding's situation: `C17_fatal_surfaces_partial` (`f12Occurs cfg evs = false`). -/
def C17_fatal_surfaces : Prop :=
  ∀ (cfg : Cfg) (evs : List Ev), fatalSurfaces (toMSteps (run cfg evs)) = true ∧ escapeSurfaces (toMSteps (run cfg evs)) = true

/-- failure-free events: time passing, a timer firing, successful replies, a consumer's shutdown
    completing successfully (the same predicate as `Afkak.Group.okEv`, restated here because this
    file imports only the model) -/
def okEv : Ev → Bool
  | .advance _ | .fire _ none | .coordDone .ok | .metaDone .ok | .joinDone (.ok ..) | .partsDone .ok
  | .syncDone (.ok _) | .consumerDown _ true => true
  | _ => false

/-- Full strength: once failures cease, EVERY started, not stopping member (with no `stop()` waiting
    for its consumers) reaches stable membership by a failure-free continuation of at most
    `6 + #consumers` events.  The code violates it (finding F12, non-Kafka half: the member is idle
    for ever): `C17_rejoins_bounded_counterexample`.  It stays open ONLY because of that finding:
    `C17_rejoins_bounded_no_escape` proves exactly this conclusion for every history without the finding's
    situation (`f12Occurs cfg evs = false`, a decidable predicate of the event list), and
    `C17_rejoins_bounded_partial` for every history that ends not idle — both INCLUDING a member in
    the middle of `on_join_prepare` (converse drain invariant `CInv`, proved). -/
def C17_rejoins_bounded : Prop :=
  ∀ (cfg : Cfg) (evs : List Ev), (final cfg evs).started = true → (final cfg evs).stopping = false →
    (final cfg evs).stopDraining = false →
    ∃ tail : List Ev, tail.all okEv = true ∧ tail.length ≤ 6 + (final cfg evs).cons.length ∧
      (finalFrom cfg (final cfg evs) tail).rejoinNeeded = false

/-- A join in flight always has something to wake it (monitor `joinProgress`, run on every
    implementation trace): one of the coroutine's client requests is outstanding or a consumer is
    draining.  PROVED: `C17_join_progress` in `AfkakProps/C17.lean` (the statement is kept here because
    the theorem is stated against it). -/
def C17_join_progress : Prop := ∀ (cfg : Cfg) (evs : List Ev), joinProgress (toMSteps (run cfg evs)) = true

end Afkak.Props.C17.Open
