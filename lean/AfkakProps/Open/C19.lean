import Afkak.Monitor.C19
/-! Full-strength (trace-level) statements of C19 that are not (yet) proved: statements, not theorems. -/
namespace Afkak.Props.C19
open Afkak.Producer Afkak.Monitor.ProducerTrace Afkak.Monitor.C19

def C19_dispatch_iff : Prop := ∀ cfg evs, dispatchIff cfg (traceOf cfg evs) = true
def C19_cancel : Prop := ∀ cfg evs, cancel cfg (traceOf cfg evs) = true
def C19_stop : Prop := ∀ cfg evs, stop cfg (traceOf cfg evs) = true
def C19_cancel_later_detaches : Prop := ∀ cfg evs, detach cfg (traceOf cfg evs) = true

/-- time of each step: the sum of the `advance`s before it -/
def timeline : Rat → List Ev → List Rat
  | _, [] => []
  | now, .advance dt :: es => (now + dt) :: timeline (now + dt) es
  | now, _ :: es => now :: timeline now es

/-- Wait bound: with a tick every `T` (the LoopingCall's schedule) and no batch in flight at a tick,
    a send queued at time `a` is dispatched by time `a + T`; if a batch is in flight at that tick, by
    the step that resolves it.  (Stated over the model's traces with the tick times as a hypothesis on
    the event list; not yet proved.) -/
def C19_wait_bound : Prop :=
  ∀ (cfg : Cfg) (T : Rat) (evs : List Ev), cfg.everyT = some T → 0 < T →
    ∀ i j, i < j → j < evs.length →
      (∃ sid topic key msgs, evs[i]? = some (.send sid topic key msgs) ∧ msgs ≠ [] ∧
        sid ∈ ((traceOf cfg evs)[j]?.map (·.post.queue)).getD []) →
      evs[j]? = some .tick → ((traceOf cfg evs)[j - 1]?.map (·.post.idle)).getD true = true →
      ((traceOf cfg evs)[j]?.map (·.post.queue)).getD [] = []

end Afkak.Props.C19
