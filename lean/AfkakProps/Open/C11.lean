import Afkak.ClientNet
import Afkak.Monitor.C11
/-! Open statements of C11 (full strength, not yet proved).

None at present: `C11_model_traces_satisfy_monitor` is proved (`AfkakProps/C11.lean`) in its truthful form -
with non-negative timeouts and for runs in which no step exhausts the interpreter's fuel (the statement
without the fuel hypothesis is false of the fuel-bounded interpreter: a callback chain longer than
`fuel` actions ends a step early with disconnects still owed). -/
namespace Afkak.Props.C11.Open
end Afkak.Props.C11.Open
