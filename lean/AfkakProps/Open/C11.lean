import Afkak.ClientNet
import Afkak.Monitor.C11
/-! Open statements of C11 (full strength, not yet proved). -/
namespace Afkak.Props.C11.Open
open Afkak.ClientNet Afkak.ClientCache

/-- Every trace of the client model satisfies the C11 monitor that is evaluated on the real client's
    traces (bound armed at issue, timers exactly for the unresolved requests after every step, nothing
    overdue, late replies inert, disconnect on timeout), for every event sequence with a non-negative
    timeout. -/
def C11_model_traces_satisfy_monitor : Prop :=
  ∀ (cfg : Cfg), 0 ≤ cfg.timeout → ∀ (evs : List (Env × Ev)), Afkak.Monitor.C11.ok cfg (traceOf cfg {} evs) = true

end Afkak.Props.C11.Open
