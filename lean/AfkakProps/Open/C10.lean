import Afkak.Monitor.C10
/-!
# C10 — statements at full strength that are NOT (yet) theorems

`C10_reentrant`: with callbacks that call back into the broker client while it is writing its queue,
closing or delivering packets (`Afkak/BrokerClientR.lean`).  The theorems of `AfkakProps/C10.lean` are
about the flat model (callbacks that do not re-enter).  Evaluated on every model trace and every
implementation trace of every run.
-/
namespace Afkak.Props.C10.Open
open Afkak.Monitor.C10

/-- Whatever the callbacks do: once a `close()` has gone ahead no connection attempt, timer or write
    follows; no request is written twice on one connection; a request whose Deferred has fired is
    never written afterwards; `down` is reported at most once and only after `close()`. -/
def C10_reentrant : Prop :=
  ∀ (cfg : Afkak.BrokerClient.Cfg) (host port : Nat) (evs : List Afkak.BrokerClientR.EvR),
    ∃ N, ∀ fuel, N ≤ fuel →
      r10 (Afkak.BrokerClientR.traceRWith cfg fuel (Afkak.BrokerClientR.StR.init host port) evs) = true

end Afkak.Props.C10.Open
