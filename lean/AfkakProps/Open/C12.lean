import Afkak.Monitor.C12
/-!
# C12 — full-strength statements that are NOT obligations

* `C12_burst_any_position`: burst detection for a burst placed *anywhere* in the message, including
  one that straddles the stored CRC field and the first checksummed bytes.  C12 itself speaks of
  alterations "of the checksummed bytes" only, which is what `C12_burst` proves.  The extension is
  FALSE for a CRC stored in front of the data it covers; `C12_burst_any_position_counterexample`
  in `AfkakProps/C12.lean` proves the negation on a 27-byte message.
-/
namespace Afkak.Props.C12.Open
open Afkak.Crc32 Afkak.WireCost Afkak.C12 Afkak.Monitor.C12

def C12_burst_any_position : Prop :=
  ∀ (inner : List UInt8 → SetOut) (gz : Gz) (off : Int) (msg e : List UInt8) (k : Nat),
    crcOk msg = true → e.length = msg.length → nonzero e = true → burstWithin e k 32 = true →
    ∃ c, decodeMessage inner gz (some (xorBytes msg e)) off = .out [] (some .checksum) c 0

end Afkak.Props.C12.Open
