import Afkak.Monitor.C12
/-!
# C12 — full-strength statements that are NOT obligations

* `C12_burst_any_position`: burst detection for a burst placed *anywhere* in the message, including
  one that straddles the stored CRC field and the first checksummed bytes.  C12 itself speaks of
  alterations "of the checksummed bytes" only, which is what `C12_burst` proves.  The extension is
  FALSE for a CRC stored in front of the data it covers; `C12_burst_any_position_counterexample`
  in `AfkakProps/C12.lean` proves the negation on a 27-byte message.
* `C12_linear_fetch_total`: one bound for a fetch response *and* the iteration of all its message
  sets together.  Proved separately: the response decoder (`C12_linear_fetch`) and each message set
  (`C12_linear_msgset`); the sum over the sets of one response is not proved as a single theorem.
-/
namespace Afkak.Props.C12.Open
open Afkak.Crc32 Afkak.WireCost Afkak.C12 Afkak.Monitor.C12

def C12_burst_any_position : Prop :=
  ∀ (inner : List UInt8 → SetOut) (gz : Gz) (off : Int) (msg e : List UInt8) (k : Nat),
    crcOk msg = true → e.length = msg.length → nonzero e = true → burstWithin e k 32 = true →
    ∃ c, decodeMessage inner gz (some (xorBytes msg e)) off = .out [] (some .checksum) c 0

/-- the message sets of a decoded fetch response, in order -/
def fetchSets : Val → List (Option (List UInt8))
  | .list parts => parts.filterMap (fun p => match p with
      | .list [_, _, _, _, .mset d] => some d
      | _ => none)
  | _ => []

def C12_linear_fetch_total : Prop :=
  ∀ (gz : Gz) (depth : Nat) (v : Int) (bs : List UInt8),
    match run (decodeFetch v) bs with
    | .err _ k => k ≤ 2 * bs.length + 1
    | .ok val _ k =>
      let outs := (fetchSets val).map (decodeSetOpt gz depth)
      k + (outs.map (·.cost)).sum ≤ 5 * bs.length + 2 * (outs.map (·.gz)).sum + 1

end Afkak.Props.C12.Open
