import Afkak.Monitor.C12
import Afkak.Consumer
/-!
# C12 — full-strength statements that are NOT obligations

* `C12_burst_any_position`: burst detection for a burst placed *anywhere* in the message, including
  one that straddles the stored CRC field and the first checksummed bytes.  C12 itself speaks of
  alterations "of the checksummed bytes" only, which is what `C12_burst` proves.  The extension is
  FALSE for a CRC stored in front of the data it covers; `C12_burst_any_position_counterexample`
  in `AfkakProps/C12.lean` proves the negation on a 27-byte message.
  PROVED detected (every message length ≥ 6, full span of 32 bits in CRC bit order, every window
  position): bursts confined to the checksummed region (`C12_burst`), alterations confined to the
  stored CRC word (`C12_crc_field_error`), i.e. every burst anywhere that does not have set bits on
  BOTH sides of the byte 3 / byte 4 boundary (`C12_burst_any_position_partial`); on bytes: every
  alteration confined to ≤ 4 consecutive bytes not containing both byte 3 and byte 4
  (`C12_window_bytes`); and all of these inside a message set (`C12_burst_nonstraddling_in_set`,
  `C12_window_in_set`).  NOT proved (and false in general): bursts with set bits on both sides of
  that boundary.
* `C12_refetch_after_delivery`: the other half of the monitor `refetchOk`, on the consumer model — when
  the cut set still held complete messages, they are delivered, the next fetch starts right after
  the last of them and the buffer is unchanged.  As written it quantifies over an ARBITRARY
  re-entrant API `inner : Ops` (any four functions on states) and is therefore FALSE
  (`C12_refetch_after_delivery_counterexample`: an `inner.stop` that rewinds the position).  For the
  API the model actually runs with, `opsN cfg n` at every depth, the very same statement is PROVED
  (`C12_refetch_after_delivery_model`), for every `inner` that leaves position and buffer alone
  (`C12_refetch_after_delivery_partial`), and on the model's transition function `step` — where no
  `inner` can be chosen — for every state that enables the event (`C12_refetch_after_delivery_step`).
  Kept here, unmodified, because a statement is never edited to make it provable.
  (`C12_refetch_model` / `C12_refetch_model_step` prove the too-small half.)
-/
namespace Afkak.Props.C12.Open
open Afkak.Crc32 Afkak.WireCost Afkak.C12 Afkak.Monitor.C12

def C12_burst_any_position : Prop :=
  ∀ (inner : List UInt8 → SetOut) (gz : Gz) (off : Int) (msg e : List UInt8) (k : Nat),
    crcOk msg = true → e.length = msg.length → nonzero e = true → burstWithin e k 32 = true →
    ∃ c, decodeMessage inner gz (some (xorBytes msg e)) off = .out [] (some .checksum) c 0

open Afkak.Consumer in
def C12_refetch_after_delivery : Prop :=
  ∀ (cfg : Cfg) (inner : Ops) (k : Nat) (s : St) (m : Afkak.Consumer.Msg) (ms : List Afkak.Consumer.Msg),
    s.startD = .pending → s.msgBlock = false → s.stopping = false → s.shuttingDown = false →
    ((m :: ms).map (·.off)).Pairwise (· < ·) → s.fetchOffset ≤ m.off →
    let s' := handleFetchResponse cfg inner k { msgs := m :: ms, tail := .done } s
    refetchOk ((m :: ms).map (·.off)) (ms.length + 1) s.fetchOffset s'.fetchOffset s.bufferSize cfg.bufMax 1
      (some s'.bufferSize) = true

end Afkak.Props.C12.Open
