import Afkak.Monitor.C14
/-! # C14 — full-strength (trace-level) statements.  `C14_delays` and `C14_never_skips_trace` are proved
(`AfkakProps/C14.lean`); `C14_attempt_limit` is NOT (yet) proved; `C14_reset_policy_trace` is refuted for configurations the
constructor refuses (`C14_reset_policy_trace_counterexample`), the part that holds is `C14_reset_policy_trace_partial`. -/
namespace Afkak.Props.Open.C14
open Afkak.Consumer Afkak.Monitor

/-- On every trace the back-off delays after consecutive failures are `min(init·factor^k, max)`, reset
    by a success, growing up to the maximum. -/
def C14_delays : Prop :=
  ∀ (cfg : Cfg) (script : List PEntry) (evs : List Ev), 0 ≤ cfg.retryInit → 0 ≤ cfg.retryMax →
    C14.delaysOk cfg.retryInit cfg.retryMax (trace cfg script evs) = true

/-- Attempt limit `L > 0`: no retry after `L` consecutive failed attempts; `L = 0`: always a retry. -/
def C14_attempt_limit : Prop :=
  ∀ (cfg : Cfg) (script : List PEntry) (evs : List Ev),
    C14.attemptsOk cfg.maxAttempts cfg.reset (trace cfg script evs) = true

/-- Out-of-range anywhere ⇒ the configured policy, as seen in the next request. -/
def C14_reset_policy_trace : Prop :=
  ∀ (cfg : Cfg) (script : List PEntry) (evs : List Ev), C14.resetOk cfg.reset (trace cfg script evs) = true

/-- A too-small answer never changes the offset of the next fetch request. -/
def C14_never_skips_trace : Prop :=
  ∀ (cfg : Cfg) (script : List PEntry) (evs : List Ev), C14.neverSkipsOk (trace cfg script evs) = true

end Afkak.Props.Open.C14
