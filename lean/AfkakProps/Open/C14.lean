import Afkak.Monitor.C14
/-! # C14 — full-strength (trace-level) statements.  `C14_delays`, `C14_never_skips_trace` and `C14_attempt_limit` are proved
(`AfkakProps/C14.lean`); `C14_reset_policy_trace` (for configurations the constructor
accepts and OffsetResponses carrying Kafka offsets) is proved too; without those two restrictions the statement is refuted
(`C14_reset_policy_trace_unrestricted_counterexample`). -/
namespace Afkak.Props.Open.C14
open Afkak.Consumer Afkak.Monitor

/-- On every trace the back-off delays after consecutive failures are `min(init·factor^k, max)`, reset
    by a success, growing up to the maximum. -/
def C14_delays : Prop :=
  ∀ (cfg : Cfg) (script : List PEntry) (evs : List Ev), 0 ≤ cfg.retryInit → 0 ≤ cfg.retryMax →
    C14.delaysOk cfg.retryInit cfg.retryMax (trace cfg script evs) = true

/-- Attempt limit `L > 0`: no retry after `L` consecutive failed attempts; `L = 0`: always a retry. -/
def C14_attempt_limit : Prop :=
  ∀ (cfg : Cfg) (script : List PEntry) (evs : List Ev),
    C14.attemptsOk cfg.maxAttempts cfg.reset (trace cfg script evs) = true

/-- The reset-policy statement speaks of configurations the constructor accepts (`auto_offset_reset` is None,
    OFFSET_EARLIEST or OFFSET_LATEST: anything else raises ValueError in `Consumer.__init__`) … -/
def resetCfgOk (cfg : Cfg) : Bool :=
  match cfg.reset with
  | none => true
  | some v => v == Afkak.Consts.offsetEarliest || v == Afkak.Consts.offsetLatest

/-- … and of OffsetResponses that carry a Kafka offset (≥ 0; a broker never answers an offset look-up with a sentinel). -/
def saneOffsetEvent : Ev → Bool
  | .offsetOk _ off => decide (0 ≤ off)
  | _ => true

/-- Out-of-range anywhere ⇒ the configured policy, as seen in the next request: for every configuration the constructor
    accepts and every event list whose OffsetResponses carry Kafka offsets. -/
def C14_reset_policy_trace : Prop :=
  ∀ (cfg : Cfg) (script : List PEntry) (evs : List Ev), resetCfgOk cfg = true → evs.all saneOffsetEvent = true →
    C14.resetOk cfg.reset (trace cfg script evs) = true

/-- The same without the two restrictions (configurations `Consumer.__init__` refuses with ValueError included): refuted,
    `C14_reset_policy_trace_unrestricted_counterexample`.  Not a statement about the code: such a consumer cannot be built. -/
def C14_reset_policy_trace_unrestricted : Prop :=
  ∀ (cfg : Cfg) (script : List PEntry) (evs : List Ev), C14.resetOk cfg.reset (trace cfg script evs) = true

/-- A too-small answer never changes the offset of the next fetch request. -/
def C14_never_skips_trace : Prop :=
  ∀ (cfg : Cfg) (script : List PEntry) (evs : List Ev), C14.neverSkipsOk (trace cfg script evs) = true

end Afkak.Props.Open.C14
