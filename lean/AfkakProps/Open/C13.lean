import Afkak.Monitor.C14
/-! # C13 — full-strength statements that are NOT (yet) proved, or that the code violates. -/
namespace Afkak.Props.Open.C13
open Afkak.Consumer Afkak.Monitor

/-- cancel outcomes the real client produces: never an out-of-range error -/
def EnvOk (cfg0 : Option (ErrKind × Nat)) (evs : List Ev) : Prop :=
  (∀ k t, cfg0 = some (k, t) → k ≠ .outOfRange) ∧
  ∀ e ∈ evs, match e with
    | .env rq _ => ∀ k t, rq = some (k, t) → k ≠ .outOfRange
    | _ => True

/-- The start Deferred fires exactly once per run: with the last processed offset on stop/shutdown,
    with a failure that really occurred otherwise; `stop()` returns the same offset.
    As stated (every `cfg`, so also `cfg.depth < 2` where the model does not follow the re-entrant `stop()` of a
    graceful shutdown) it is FALSE of the model: `C13_start_fires_once_counterexample`.  Open for `2 ≤ cfg.depth`. -/
def C13_start_fires_once : Prop :=
  ∀ (cfg : Cfg) (script : List PEntry) (evs : List Ev), EnvOk none evs →
    C13.startOnceOk (trace cfg script evs) = true

/-- After `stop()` returns: no timer, no uncancelled request, no pending processor result; and no
    fetch / commit / processor / timer activity until the next `start()`.
    As stated (every `cfg`, so also `cfg.depth < 2`) FALSE of the model: `C13_quiescent_after_stop_counterexample`.
    Proved for `2 ≤ cfg.depth` without a consumer group: `C13_quiescent_after_stop_partial`; open for `2 ≤ cfg.depth`
    with a consumer group (commit requests, commit retry timer, auto-commit looper, commit waiters). -/
def C13_quiescent_after_stop : Prop :=
  ∀ (cfg : Cfg) (script : List PEntry) (evs : List Ev), C13.quiescentOk (trace cfg script evs) = true

/-- Graceful shutdown waits for the processor, commits when a group is configured, then stops; on
    success the last committed offset is the last processed one. -/
def C13_shutdown_sequence : Prop :=
  ∀ (cfg : Cfg) (script : List PEntry) (evs : List Ev), C13.shutdownOk cfg.group (trace cfg script evs) = true

/-- … including a `shutdown()` called from inside the processor.  VIOLATED by the code (finding F26,
    pinned by `test_consumer_shutdown_processor_immediate_shutdown`): see `C13_shutdown_waits_counterexample`. -/
def C13_shutdown_waits_inproc : Prop :=
  ∀ (cfg : Cfg) (script : List PEntry) (evs : List Ev), C13.shutdownInprocOk cfg.group (trace cfg script evs) = true

/-- No API call ends in an exception the API does not document.
    As stated (every `cfg`, so also `cfg.depth = 0`) FALSE of the model: `C13_no_crash_counterexample` (the "crash" is
    the model's own `re-entrancy depth` marker).  Open for `1 ≤ cfg.depth`. -/
def C13_no_crash : Prop :=
  ∀ (cfg : Cfg) (script : List PEntry) (evs : List Ev),
    (∀ e ∈ script, e.acts = []) → C13.noCrashOk (trace cfg script evs) = true

end Afkak.Props.Open.C13
