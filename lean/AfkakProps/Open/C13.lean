import Afkak.Monitor.C14
import Afkak.Monitor.C13Live
import Afkak.Monitor.C13Commit
/-! # C13 — full-strength statements that are NOT (yet) proved, or that the code violates. -/
namespace Afkak.Props.Open.C13
open Afkak.Consumer Afkak.Monitor

/-- cancel outcomes the real client produces: never an out-of-range error -/
def EnvOk (cfg0 : Option (ErrKind × Nat)) (evs : List Ev) : Prop :=
  (∀ k t, cfg0 = some (k, t) → k ≠ .outOfRange) ∧
  ∀ e ∈ evs, match e with
    | .env rq _ => ∀ k t, rq = some (k, t) → k ≠ .outOfRange
    | _ => True

/-! `cfg.depth` is how deep the MODEL follows re-entrant calls (the code has no such bound); re-entrant calls never
nest deeper than 2 in the model (processor → `shutdown()` → `stop()`), the harness runs depth 4.  The statements are
about every depth at which the model follows all of them: `2 ≤ cfg.depth`.  (Below that the model itself reports
`crash "re-entrancy depth"`: see the examples at the foot of `AfkakProps/C13.lean`.) -/

/-- The start Deferred fires exactly once per run: with the last processed offset on stop/shutdown,
    with a failure that really occurred otherwise; `stop()` returns the same offset. -/
def C13_start_fires_once : Prop :=
  ∀ (cfg : Cfg) (script : List PEntry) (evs : List Ev), 2 ≤ cfg.depth → EnvOk none evs →
    C13.startOnceOk (trace cfg script evs) = true

/-- After `stop()` returns: no timer, no uncancelled request, no pending processor result; and no
    fetch / commit / processor / timer activity until the next `start()`.  PROVED: `AfkakProps/C13.lean`. -/
def C13_quiescent_after_stop : Prop :=
  ∀ (cfg : Cfg) (script : List PEntry) (evs : List Ev), 2 ≤ cfg.depth → C13.quiescentOk (trace cfg script evs) = true

/-- Graceful shutdown waits for the processor, commits when a group is configured, then stops; on
    success the last committed offset is the last processed one. -/
def C13_shutdown_sequence : Prop :=
  ∀ (cfg : Cfg) (script : List PEntry) (evs : List Ev), 2 ≤ cfg.depth → C13.shutdownOk cfg.group (trace cfg script evs) = true

/-- … including a `shutdown()` called from inside the processor.  VIOLATED by the code (finding F26,
    pinned by `test_consumer_shutdown_processor_immediate_shutdown`): see `C13_shutdown_waits_counterexample`. -/
def C13_shutdown_waits_inproc : Prop :=
  ∀ (cfg : Cfg) (script : List PEntry) (evs : List Ev), C13.shutdownInprocOk cfg.group (trace cfg script evs) = true

/-- No API call ends in an exception the API does not document - whatever the processor does (re-entrant `stop()`,
    `commit()`, `shutdown()` included), at every depth at which the model follows those calls. -/
def C13_no_crash : Prop :=
  ∀ (cfg : Cfg) (script : List PEntry) (evs : List Ev), 2 ≤ cfg.depth → C13.noCrashOk (trace cfg script evs) = true

/-- A graceful shutdown is never held up by a commit that keeps failing: the retries of a commit are bounded by the
    attempt limit, and - with no limit - by the shutdown's own limit once a shutdown has been asked for. -/
def C13_commit_bounded : Prop :=
  ∀ (cfg : Cfg) (script : List PEntry) (evs : List Ev), 2 ≤ cfg.depth →
    C13.commitBoundedOk cfg.maxAttempts (trace cfg script evs) = true

/-- `shutdown()`'s Deferred fires for every commit outcome, part 2: a pending graceful shutdown is never stuck - after
    every event it waits for something the environment still owes an answer for: the processor's result, a commit
    request, or the commit retry timer.  (With `C13_commit_bounded`: every accepted `shutdown()` is followed by
    `shutdownFired` once those answers arrive.) -/
def C13_shutdown_never_stuck : Prop :=
  ∀ (cfg : Cfg) (script : List PEntry) (evs : List Ev), 2 ≤ cfg.depth →
    (run cfg script evs).shutdownD = true →
      (run cfg script evs).crashed = true ∨ (run cfg script evs).proc.isSome = true ∨
        (run cfg script evs).commitReq.isSome = true ∨ (∃ d dl a, (run cfg script evs).commitCall = .pending d dl a)

/-- "A stopped consumer can be started again": a run that has not ended (start Deferred not fired, no graceful
    shutdown asked) is never idle at the end of an event - a fetch / offset request is outstanding, or the refetch
    timer is armed, or a processor result is pending; in a first run as in any later one.  Not proved yet (it holds
    on every model trace the harness has generated; the monitor runs on the implementation's traces). -/
def C13_restart_alive : Prop :=
  ∀ (cfg : Cfg) (script : List PEntry) (evs : List Ev), 2 ≤ cfg.depth → C13.aliveOk (trace cfg script evs) = true

/-- A graceful shutdown that fails, fails with the cancellation `stop()` causes or with the failure of a commit
    request that completed after the shutdown was asked for - never with one remembered from before (then it would
    have given up without committing what was processed).  Not proved yet. -/
def C13_shutdown_failure_own : Prop :=
  ∀ (cfg : Cfg) (script : List PEntry) (evs : List Ev), 2 ≤ cfg.depth → C13.shutdownFailOk (trace cfg script evs) = true

end Afkak.Props.Open.C13
