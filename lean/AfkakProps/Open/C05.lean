import Afkak.Monitor.C05
import Afkak.Wire.Xerial
/-!
# C05 — full-strength statements

Statements, not theorems.  Those named `…_stmt` are PROVED in `AfkakProps/C05.lean` (the theorem of
the same name without the suffix); the others are listed in its `OPEN_STATEMENTS` block.
The implementation is checked against each of them on every run through `Afkak.Monitor.C05`.
-/
namespace Afkak.Props.C05
open Afkak Afkak.Wire Afkak.Codec Afkak.Monitor.C05

set_option synthInstance.maxSize 100000

/-- the end state of a generator-style decoder that yielded everything and was exhausted normally -/
def finished {α : Type} (g : G α) (items : List α) : Prop := g.1 = items ∧ ∃ cur, g.2 = .ok cur

def C05_produce_v0_roundtrip_stmt : Prop :=
  ∀ v e, expectedProduceV0 v = some (e, true) →
    ∃ g, decodeProduceResponse (Spec.produceResponseV0.enc v) 0 = .ok g ∧ finished g e

def C05_produce_v2_roundtrip_stmt : Prop :=
  ∀ v e, expectedProduceV2 v = some (e, true) →
    ∃ g, decodeProduceResponse (Spec.produceResponseV2.enc v) 2 = .ok g ∧ finished g e

/-- message sets of plain (uncompressed) messages, both formats, null / empty keys and values,
    any offsets and timestamps: decoding yields exactly the entries, then ends normally -/
def C05_msgset_roundtrip_stmt : Prop :=
  ∀ (ext : Ext) (depth : Nat) (entries : List (Int × Spec.Msg)),
    (Spec.messageSet ext.crc).valid entries = true → entries.all (fun e => e.2.attributes % 4 = 0) = true →
    decodeMessageSet ext (depth + 1) ((Spec.messageSet ext.crc).enc entries) =
      (entries.map (fun e => ⟨e.1, toMessage e.2⟩), none)

/-- **Nested sets, any depth, any decompressor output**: whenever the protocol says what a message set
    contains (`expectedSet … = some g`: every wrapper's payload decompresses to bytes that parse as a
    message set, to the nesting depth given), the decoder (given one more level of recursion budget
    than the nesting) yields exactly that. -/
def C05_gzip_roundtrip_stmt : Prop :=
  ∀ (ext : Ext) (depth : Nat) (entries : List (Int × Spec.Msg)) (g : Gen),
    expectedSet ext.crc (fun b => (ext.gunzip (some b)).toOption) depth entries = some g →
    decodeMessageSet ext (depth + 1) ((Spec.messageSet ext.crc).enc entries) = g

/-- Fetch v0 with ANY record sets (plain, compressed, nested): the monitor's expectation is met.
    (The decoder's recursion budget is one more than the nesting depth the expectation looks at; an
    earlier draft of this statement used the same number on both sides, which is false for sets nested
    exactly that deep — the model then reports its `fuel` error.) -/
def C05_fetch_v0_roundtrip_stmt : Prop :=
  ∀ (ext : Ext) (depth : Nat) v e,
    expectedFetchV0 ext.crc (fun b => (ext.gunzip (some b)).toOption) depth v = some (e, true) →
    finished (decodeFetchResponse ext (depth + 1) ((Spec.fetchResponseV0 ext.crc).enc v) 0) e

def C05_fetch_v2_roundtrip_stmt : Prop :=
  ∀ (ext : Ext) (depth : Nat) v e,
    expectedFetchV2 ext.crc (fun b => (ext.gunzip (some b)).toOption) depth v = some (e, true) →
    finished (decodeFetchResponse ext (depth + 1) ((Spec.fetchResponseV2 ext.crc).enc v) 2) e

def C05_list_offsets_roundtrip_stmt : Prop :=
  ∀ v e, expectedListOffsets v = some (e, true) → finished (decodeOffsetResponse (Spec.listOffsetsResponse.enc v)) e

def C05_metadata_roundtrip_stmt : Prop :=
  ∀ v e, expectedMetadata v = some e → decodeMetadataResponse (Spec.metadataResponse.enc v) = .ok e

def C05_offset_commit_roundtrip_stmt : Prop :=
  ∀ v e, expectedOffsetCommit v = some (e, true) → finished (decodeOffsetCommitResponse (Spec.offsetCommitResponse.enc v)) e

def C05_offset_fetch_roundtrip_stmt : Prop :=
  ∀ v e, expectedOffsetFetch v = some (e, true) → finished (decodeOffsetFetchResponse (Spec.offsetFetchResponse.enc v)) e

def C05_join_group_roundtrip_stmt : Prop :=
  ∀ v e, expectedJoinGroup v = some e → decodeJoinGroupResponse (Spec.joinGroupResponse.enc v) = .ok e

def C05_subscription_roundtrip_stmt : Prop :=
  ∀ v e, expectedSubscription v = some e → decodeJoinGroupProtocolMetadata (Spec.subscription.enc v) = .ok e

def C05_assignment_roundtrip_stmt : Prop :=
  ∀ v e, expectedAssignment v = some e → decodeSyncGroupMemberAssignment (Spec.assignment.enc v) = .ok e

def C05_api_versions_roundtrip_stmt : Prop :=
  ∀ v e, expectedApiVersions v = some e → decodeApiVersionsResponse (Spec.apiVersionsResponse.enc v) = .ok e

/-- PROVED (`C05_snappy_xerial_roundtrip`).  The model `Afkak/Wire/Xerial.lean` of
    `afkak.codec.snappy_decode` / `snappy_encode` is compared with the real functions on every run through
    a stub `snappy` module (python-snappy is not installed).  The xerial framing round-trips: for any
    compressor / decompressor pair with `decompress (compress x) = x` and chunks whose compressed form
    fits the int32 length prefix, `snappy_decode(snappy_encode(.., xerial_compatible=True))` returns the
    concatenation of the chunks (with enough fuel for the `while` loop). -/
def C05_snappy_xerial_roundtrip_stmt : Prop :=
  ∀ (compress : Bytes → Bytes) (decompress : Bytes → R Bytes) (chunks : List Bytes),
    (∀ x, decompress (compress x) = .ok x) →
    (∀ c ∈ chunks, (compress c).length < 2 ^ 31) →
    ∃ fuel, snappyDecode decompress fuel (xerialEncode compress chunks) = .ok chunks.flatten

end Afkak.Props.C05
