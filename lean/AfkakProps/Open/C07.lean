import Afkak.ClientNet
import Afkak.ClientTrace
import Afkak.Monitor.C07
/-! Open statements of C07 (full strength, not yet proved). -/
namespace Afkak.Props.C07.Open
open Afkak.ClientNet Afkak.ClientCache

/-- Every trace of the client model - with the attribution of each request to its operation that the model
    knows from the request's owner (`traceOfA`, Afkak/ClientTrace.lean) - satisfies the core rules of the C07
    monitor that is evaluated on the real client's traces: routing, one request per broker, order, accounting,
    coordinator requests on the coordinator, connected brokers first, no broker tried twice; for well-formed
    runs (fresh operation ids, no `badOp`, no fuel exhaustion).  The rules about the fall-back to the bootstrap
    hosts are idle on these traces (no `battr`/`uop` items): see `C07_unaware_unavailable_only_after_all`.
    Evaluated (not proved) on the model trace of every scenario the harness generates (`mon-c07-model`). -/
def C07_model_traces_satisfy_monitor : Prop :=
  ∀ (cfg : Cfg) (evs : List (Env × Ev)), WellFormedRun cfg evs → NoFuel cfg {} evs →
    Afkak.Monitor.C07.ok cfg (traceOfA cfg {} evs) = true

/-- A metadata load fails with `unavailable` only after every bootstrap host has been tried - unless the
    client was closed or the operation cancelled (then the failure is not the exhaustion of all servers).
    Stated on the model's coroutine, all well-formed event sequences. -/
def C07_unaware_unavailable_only_after_all : Prop :=
  ∀ (cfg : Cfg) (evs : List (Env × Ev)) (o : Nat), WellFormedRun cfg evs → NoFuel cfg {} evs →
    (∀ e ∈ evs, (∀ o', e.2 ≠ .close o') ∧ e.2 ≠ .cancel o) →
    TItem.ob (.result o (.fail .unavailable)) ∈ traceOf cfg {} evs →
    ∀ hp ∈ cfg.bootHosts, ∃ j, TItem.ob (.bootConnect j hp.1 hp.2) ∈ traceOf cfg {} evs

end Afkak.Props.C07.Open
