import Afkak.ClientNet
import Afkak.Monitor.C07
/-! Open statements of C07 (full strength, not yet proved). -/
namespace Afkak.Props.C07.Open
open Afkak.ClientNet Afkak.ClientCache

/-- Every trace of the client model satisfies the C07 monitor (the predicate that is evaluated on the
    real client's traces): routing, one request per broker, order, accounting and the fallback order
    of broker-agnostic requests hold along every event sequence, not only for the pure kernels. -/
def C07_model_traces_satisfy_monitor : Prop :=
  ∀ (cfg : Cfg) (evs : List (Env × Ev)), Afkak.Monitor.C07.ok cfg (traceOf cfg {} evs) = true

/-- A broker-agnostic request fails with `unavailable` only after every known broker and every
    bootstrap host has been tried (stated on the model's coroutine, all event sequences). -/
def C07_unaware_unavailable_only_after_all : Prop :=
  ∀ (cfg : Cfg) (evs : List (Env × Ev)) (o : Nat),
    TItem.ob (.result o (.fail .unavailable)) ∈ (traceOf cfg {} evs).map id →
    ∀ hp ∈ cfg.bootHosts, ∃ j, TItem.ob (.bootConnect j hp.1 hp.2) ∈ (traceOf cfg {} evs).map id

end Afkak.Props.C07.Open
