import Afkak.ClientNet
import Afkak.ClientTrace
import Afkak.Monitor.C07
/-! Open statements of C07 (full strength, not yet proved). -/
namespace Afkak.Props.C07.Open
open Afkak.ClientNet Afkak.ClientCache

/-- Every trace of the client model - with the attribution of each request to its operation that the model
    knows from the request's owner (`traceOfA`, Afkak/ClientTrace.lean) - satisfies the core rules of the C07
    monitor that is evaluated on the real client's traces: routing, one request per broker, order, accounting,
    coordinator requests on the coordinator, connected brokers first, no broker tried twice; for well-formed
    runs (fresh operation ids, no `badOp`, no fuel exhaustion).  The rules about the fall-back to the bootstrap
    hosts are idle on these traces (no `battr`/`uop` items): see `C07_unaware_unavailable_only_after_all`.
    Evaluated (not proved) on the model trace of every scenario the harness generates (`mon-c07-model`).
    Proved pieces (session 4, AfkakProps/C07.lean): the requests and results of the coroutine are what the kernels
    compute (`C07_coroutine_requests_and_results`: the content of rules c1/c2/c4/c5/c6), the address rule
    (`C07_clients_follow_brokers`), "unavailable only after every bootstrap host" (`…_partial`).  What is missing for
    the statement itself: rule c3 compares the leader a look-up read from the cache IN THE MIDDLE of a step with the
    dumps at step ends - it needs a stack invariant "no action that runs after a look-up in the same step rewrites the
    routing entry the look-up read" (true because the chains `reply -> merge -> look-up -> issue` are linear and a
    `sendCheck` that runs after a synchronous `acks=0` completion has nothing to invalidate, but not a syntactic class
    of actions) - and the broker-agnostic rules need the monitor's view of connected brokers (`conn`/`bcClose` items)
    tied to `BcInst.conn`/`inClients` across steps. -/
def C07_model_traces_satisfy_monitor : Prop :=
  ∀ (cfg : Cfg) (evs : List (Env × Ev)), WellFormedRun cfg evs → NoFuel cfg {} evs →
    Afkak.Monitor.C07.ok cfg (traceOfA cfg {} evs) = true

/-- (FALSE as stated: `C07_unaware_unavailable_only_after_all_counterexample` - the model lets a broker client fail a
    request with any failure kind and only Kafka errors continue the broker loop; true with the environment assumption
    `benignFires`: `C07_unaware_unavailable_only_after_all_partial`, which also drops the well-formedness, fuel and
    no-cancel hypotheses.)
    A metadata load fails with `unavailable` only after every bootstrap host has been tried - unless the
    client was closed or the operation cancelled (then the failure is not the exhaustion of all servers).
    Stated on the model's coroutine, all well-formed event sequences. -/
def C07_unaware_unavailable_only_after_all : Prop :=
  ∀ (cfg : Cfg) (evs : List (Env × Ev)) (o : Nat), WellFormedRun cfg evs → NoFuel cfg {} evs →
    (∀ e ∈ evs, (∀ o', e.2 ≠ .close o') ∧ e.2 ≠ .cancel o) →
    TItem.ob (.result o (.fail .unavailable)) ∈ traceOf cfg {} evs →
    ∀ hp ∈ cfg.bootHosts, ∃ j, TItem.ob (.bootConnect j hp.1 hp.2) ∈ traceOf cfg {} evs

end Afkak.Props.C07.Open
