import Afkak.ClientNet
import Afkak.ClientTrace
import Afkak.Monitor.C07
/-! Statements of C07 about the coroutine model that were/are open.
    Session 5: both statements of sessions 3-4 are FALSE as they were stated (`…_v1`, counterexamples proved in
    AfkakProps/C07.lean); they are RESTATED here with the environment hypotheses that make them true, so that what is
    listed as open is a real proof obligation.  `C07_unaware_unavailable_only_after_all` (restated, and stronger in
    its conclusion: positional) is PROVED; `C07_model_traces_satisfy_monitor` (restated) is open. -/
namespace Afkak.ClientNet
open Afkak.ClientCache

/-- every `connected()` report of the run is about a broker client that exists when it is made (what the harness
    does: it polls the broker clients the real client has created) -/
def connKnown (cfg : Cfg) : St → List (Env × Ev) → Bool
  | _, [] => true
  | st, (env, e) :: rest =>
    (match e with | .conn b _ => decide (b < st.bcs.length) | _ => true) && connKnown cfg (step cfg st env e).1 rest

/-- a completion a `_KafkaBrokerClient` can deliver for a request: a reply, a cancellation, or a Kafka error other
    than `KafkaUnavailableError` (it fails requests with `ClientError`/`CancelledError`/`RequestTimedOutError`; any
    other failure would have to be raised by `proto.sendString`) -/
def benignRes : Res → Bool
  | .ok _ => true
  | .err k => k == .cancelled || (k != .unavailable && k.isKafkaError)

end Afkak.ClientNet

namespace Afkak.Props.C07.Open
open Afkak.ClientNet Afkak.ClientCache

/-- (session 3-4 statement; FALSE: `C07_model_traces_satisfy_monitor_counterexample` - `WellFormedRun` admits a
    `connected()` report for a broker client that does not exist yet.) -/
def C07_model_traces_satisfy_monitor_v1 : Prop :=
  ∀ (cfg : Cfg) (evs : List (Env × Ev)), WellFormedRun cfg evs → NoFuel cfg {} evs →
    Afkak.Monitor.C07.ok cfg (traceOfA cfg {} evs) = true

/-- OPEN.  Every trace of the client model - with the attribution of each request to its operation that the model
    knows from the request's owner (`traceOfA`, Afkak/ClientTrace.lean) - satisfies the core rules of the C07
    monitor that is evaluated on the real client's traces: routing, one request per broker, order, accounting,
    coordinator requests on the coordinator, connected brokers first, no broker tried twice; for well-formed
    runs (fresh operation ids, no `badOp`, no fuel exhaustion) in which every `connected()` report is about an
    existing broker client (`connKnown`; without it the statement is false: `…_v1`).  The rules about the fall-back to
    the bootstrap hosts are idle on these traces (no `battr`/`uop` items): see `C07_unaware_unavailable_only_after_all`.
    Evaluated (not proved) on the model trace of every scenario the harness generates (`mon-c07-model`), and on 4000
    random event sequences of the model alone (tools/c07_model_monitor_fuzz.lean: 204 completed sends, 1092
    FailedPayloadsErrors, 5268 broker-agnostic attempts, 331 coordinator requests): no rejection.
    Proved pieces (AfkakProps/C07.lean): the SHAPE of the requests and results of the coroutine
    (`C07_coroutine_requests_and_results`), the address rule (`C07_clients_follow_brokers`), "unavailable only after
    every bootstrap host" (`C07_unaware_unavailable_only_after_all`).  What is missing: a simulation relation between the
    model state and the monitor state (which request belongs to which slot of which send, with which recorded
    outcome - the monitor recomputes results from the replies it saw); rule c3 compares the leader a look-up read from
    the cache IN THE MIDDLE of a step with the dumps at step ends - it needs a stack invariant "no action that runs
    after a look-up in the same step rewrites the routing entry the look-up read"; and the broker-agnostic rules need
    the monitor's view of connected brokers (`conn`/`bcClose` items) tied to `BcInst.conn`/`inClients` across steps. -/
def C07_model_traces_satisfy_monitor : Prop :=
  ∀ (cfg : Cfg) (evs : List (Env × Ev)), WellFormedRun cfg evs → NoFuel cfg {} evs → connKnown cfg {} evs = true →
    Afkak.Monitor.C07.ok cfg (traceOfA cfg {} evs) = true

/-- (session 3-4 statement; FALSE: `C07_unaware_unavailable_only_after_all_counterexample` - the model lets a broker
    client fail a request with any failure kind and only Kafka errors continue the broker loop.) -/
def C07_unaware_unavailable_only_after_all_v1 : Prop :=
  ∀ (cfg : Cfg) (evs : List (Env × Ev)) (o : Nat), WellFormedRun cfg evs → NoFuel cfg {} evs →
    (∀ e ∈ evs, (∀ o', e.2 ≠ .close o') ∧ e.2 ≠ .cancel o) →
    TItem.ob (.result o (.fail .unavailable)) ∈ traceOf cfg {} evs →
    ∀ hp ∈ cfg.bootHosts, ∃ j, TItem.ob (.bootConnect j hp.1 hp.2) ∈ traceOf cfg {} evs

/-- PROVED (AfkakProps/C07.lean).  Restated with the environment hypothesis that makes it true (`benignRes`: what a
    `_KafkaBrokerClient` delivers) and WITHOUT the well-formedness, fuel and no-cancel hypotheses of `…_v1`, and with a
    POSITIONAL conclusion: an operation fails with `unavailable` only AFTER a bootstrap connection attempt to every
    configured bootstrap host - the attempts are in the part of the trace that precedes the result (unless the client
    is closed: then the failure is not the exhaustion of all servers).  Not in the statement: that the attempts are
    those of the broker-agnostic request of operation `o` itself (the model's trace carries no `battr`/`uop`
    attribution), and the first half of the sentence - every KNOWN broker was tried before, connected ones first
    (kernel level: `C07_connected_first`; on real traces: the monitor's `uattr`/`battr` rules). -/
def C07_unaware_unavailable_only_after_all : Prop :=
  ∀ (cfg : Cfg) (evs : List (Env × Ev)) (o : Nat),
    (∀ e ∈ evs, ∀ o', e.2 ≠ .close o') → (∀ e ∈ evs, ∀ k r, e.2 = .fire k r → benignRes r = true) →
    TItem.ob (.result o (.fail .unavailable)) ∈ traceOf cfg {} evs →
    ∃ pre post, traceOf cfg {} evs = pre ++ TItem.ob (.result o (.fail .unavailable)) :: post ∧
      ∀ hp ∈ cfg.bootHosts, ∃ j, TItem.ob (.bootConnect j hp.1 hp.2) ∈ pre

end Afkak.Props.C07.Open
