import Afkak.ClientNet
import Afkak.ClientTrace
import Afkak.Monitor.C20
import Afkak.ClientCompose
/-! Open statements of C20 (full strength, not yet proved). -/
namespace Afkak.Props.C20.Open
open Afkak.ClientNet Afkak.ClientCache

/-- Every trace of the client model satisfies the core rules of the C20 monitor that is evaluated on the real
    client's traces: at `close()` every pending operation completes in the same step, later operations fail at
    once, nothing connects or hands a request over afterwards, every broker client ever created was told to
    close, the close Deferred fires exactly once and not before the last broker client (including ones closed by
    an earlier refresh) has gone, metadata stays cleared - for well-formed runs (fresh operation ids: a second
    `close()` is another operation; the environment answered every question: no `badOp`; no fuel exhaustion).
    Evaluated (not proved) on the model trace of every scenario the harness generates (`mon-c20-model`).
    PROVED so far, on the model (AfkakProps/C20.lean): the `connFails` rules (`C20_model_traces_satisfy_monitor_partial`);
    on the model STATE what the other rules rest on: every broker client ever created is told to close
    (`C20_close_closes_every_broker_client`), no request is pending after close and late completions are discarded
    (`C20_no_request_pending_after_close`, `C20_completions_after_close_discarded`), the metadata is and stays cleared
    (`C20_metadata_stays_cleared` = the three `dump` rules), loads / sends / coordinator lookups started after close fail
    inside the call (`C20_load_after_close_fails_at_once`, `C20_send_after_close_fails_at_once`, `…_partial` for
    cload/srtc).  NOT proved: every pending OPERATION's Deferred fires in the close step; the close Deferred fires exactly
    once and not before the last `down` (the Agg/closeWait machinery). -/
def C20_model_traces_satisfy_monitor : Prop :=
  ∀ (cfg : Cfg) (evs : List (Env × Ev)), WellFormedRun cfg evs → NoFuel cfg {} evs →
    Afkak.Monitor.C20.ok (traceOf cfg {} evs) = true

/-- `close()` aborts every bootstrap in progress: in the state after the `close` step no broker-unaware
    request is waiting for a bootstrap connection (the hypothesis `NoBootConn` of
    `C20_no_connect_no_write_after_close`).
    PROVED for every close step that does not exhaust the interpreter's fuel
    (`C20_close_leaves_no_bootstrap_pending_partial`, and `C20_no_connect_no_write_after_close_reachable` is the
    hypothesis-free restatement built on it).  As written - no fuel proviso - the statement is false of the
    fuel-bounded interpreter (a state with more than `fuel` = 100000 broker clients to close cuts the stack before
    `cancelBoots` runs; a witness of that size cannot be evaluated), so it stays listed here. -/
def C20_close_leaves_no_bootstrap_pending : Prop :=
  ∀ (cfg : Cfg) (evs : List (Env × Ev)) (env : Env) (o : Nat),
    let st := evs.foldl (fun s e => (step cfg s e.1 e.2).1) ({} : St)
    st.closing = false →
    ∀ x ∈ (step cfg st env (.close o)).1.unawares, ∀ j rest, x.st ≠ .bootConn j rest ∧ x.st ≠ .bootReq j rest

/-- The Deferred returned by `close()` fires only after every connection has gone — INCLUDING the ephemeral
    bootstrap connections.  The code violates this (known finding
    `c20-close-deferred-fired-before-a-bootstrap-connection-had-gone`): only broker-client close Deferreds
    are aggregated.  Counterexample and the part that holds: `AfkakProps/C20.lean`. -/
def C20_close_awaits_bootstrap_connections : Prop :=
  ∀ (cfg : Cfg) (evs : List (Env × Ev)), (Afkak.Monitor.C20.run (traceOf cfg {} evs)).bootFails = []

/-- In the COMPOSED model (client model × one broker-client model per broker client, `Afkak/ClientCompose.lean`):
    when the step of the client's `close()` ends, EVERY broker-client component is closed (those still in
    `self.clients` by this close, those popped by an earlier metadata refresh at the time) - for every reachable
    composed state in which the client is open, the step not exhausting the fuel.
    PROVED (session 5) for every composed run in which no step showed the client layer's `badOp "fuel"`
    (`C20_composed_close_closes_every_broker_client_partial`, also without the `closing = false` hypothesis).  As
    written - no fuel proviso on the HISTORY - the statement is false of the fuel-bounded interpreter (a refresh whose
    callback chain is cut after the popped instances left `self.clients` and before their `closeBc` ran leaves them
    unclosed for ever; a witness needs more than `fuel` = 100000 actions in one step and cannot be evaluated), so it
    stays listed here.  Also evaluated on every real full-stack run the composed model is driven with (`x-closed`
    after each close, harness/lib/client_compose.py). -/
def C20_composed_close_closes_every_broker_client : Prop :=
  ∀ (cfg : Afkak.ClientCompose.Cfg) (evs : List Afkak.ClientCompose.Ev) (env : Env) (o : Nat),
    let s := Afkak.ClientCompose.run cfg {} evs
    s.cl.closing = false → Ob.badOp "fuel" ∉ (step cfg.cl s.cl env (.close o)).2 →
    ∀ x ∈ (Afkak.ClientCompose.step cfg s (.api env (.close o))).1.bcs, x.closed = true

end Afkak.Props.C20.Open
