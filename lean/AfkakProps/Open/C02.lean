import Afkak.Monitor.C14
/-!
# C02 — full-strength statements and the environment contract `FaithfulLog`.  Statements, not theorems.
Each is the acceptance, on every model trace, of the monitor that is run on the implementation's traces.
`C02_no_gap_no_dup` and `C02_prompt` are proved (`AfkakProps/C02.lean`).  The open statements of the liveness half,
`C02_never_stuck` (false of model and code: counterexample proved) and `C02_progress_full`, are the definitions
`Afkak.Proofs.Consumer.L.C02_never_stuck` (`AfkakProofs/Consumer/A5_Progress1.lean`) and `L.C02_progress_full`
(`A5_ProgressZ.lean`): they need the vocabulary defined there (`Running`, `Enabled`, `ReadyNoFresh`, `contOf`).
-/
namespace Afkak.Props.Open.C02
open Afkak.Consumer Afkak.Monitor

/-- consecutive log entries: each message is the log entry following the one before it -/
def chainOk (log : List Msg) : List Msg → Bool
  | [] => true
  | [_] => true
  | a :: b :: t => (C02.succIn log a.off == some b) && chainOk log (b :: t)

/-- One successful fetch reply `r` to a request at offset `off` is a faithful view of the partition log: the
    request was at a Kafka offset (a broker answers a negative offset with OffsetOutOfRange, never with
    messages), the reply carries log entries, consecutive ones, and the first one at or after `off` is the
    first log entry at or after `off` (a compressed wrapper may deliver some entries below `off` too). -/
def replyFaithful (log : List Msg) (off : Int) (r : Reply) : Bool :=
  decide (0 ≤ off) && r.msgs.all (fun m => log.contains m) && chainOk log r.msgs &&
    (match (r.msgs.filter (fun m => decide (off ≤ m.off))).head? with
     | none => true
     | some m => C02.firstFrom log off == some m)

/-- The environment is a faithful view of a partition log: every successful fetch reply for a request at
    `off` is `replyFaithful`; and the configuration is one `Consumer.__init__` accepts (`auto_offset_reset` is
    `None`, `OFFSET_EARLIEST` or `OFFSET_LATEST`: any other value raises ValueError there).
    (Decidable for every concrete event list: the quantifiers are bounded by the event list and the trace.) -/
def FaithfulLog (log : List Msg) (cfg : Cfg) (script : List PEntry) (evs : List Ev) : Prop :=
  (∀ v, cfg.reset = some v → v = Afkak.Consts.offsetEarliest ∨ v = Afkak.Consts.offsetLatest) ∧
  ∀ n k r, evs[n]? = some (.fetchOk k r) →
    ∀ off mb, .ob (.fetch k off mb) ∈ (run cfg script (evs.take n)).out → replyFaithful log off r = true

/-- `FaithfulLog` as a computation (what a check of a recorded scenario evaluates); `faithfulB_sound` in
    `AfkakProofs/Consumer/A_Gap6.lean`: it implies `FaithfulLog`. -/
def faithfulB (log : List Msg) (cfg : Cfg) (script : List PEntry) (evs : List Ev) : Bool :=
  (match cfg.reset with
   | none => true
   | some v => v == Afkak.Consts.offsetEarliest || v == Afkak.Consts.offsetLatest) &&
  (List.range evs.length).all fun n =>
    match evs[n]? with
    | some (.fetchOk k r) =>
      (run cfg script (evs.take n)).out.all fun
        | .ob (.fetch k' off _) => k' != k || replyFaithful log off r
        | _ => true
    | _ => true

/-- No gap, no duplicate: against a faithful log the delivered stream is the log from the resolved start,
    as far as it got. -/
def C02_no_gap_no_dup : Prop :=
  ∀ (log : List Msg) (cfg : Cfg) (script : List PEntry) (evs : List Ev), FaithfulLog log cfg script evs →
    C02.noGapOk log (trace cfg script evs) = true

/-- Every fetched message is handed to the processor promptly (progress, locally). -/
def C02_prompt : Prop :=
  ∀ (cfg : Cfg) (script : List PEntry) (evs : List Ev), C02.promptOk (trace cfg script evs) = true

end Afkak.Props.Open.C02
