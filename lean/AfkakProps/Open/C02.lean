import Afkak.Monitor.C14
/-!
# C02 — full-strength statements that are NOT (yet) proved.  Statements, not theorems.
Each is the acceptance, on every model trace, of the monitor that is run on the implementation's traces.
-/
namespace Afkak.Props.Open.C02
open Afkak.Consumer Afkak.Monitor

/-- every message offset the environment puts into a fetch reply is a Kafka offset (≥ 0) -/
def NonNegOffsets (evs : List Ev) : Prop :=
  ∀ e ∈ evs, match e with
    | .fetchOk _ r => ∀ m ∈ r.msgs, 0 ≤ m.off
    | _ => True

/-- Offsets handed to the processor are strictly increasing; the only descents are the ones a
    `start()` or a firing reset policy permit. -/
def C02_increasing : Prop :=
  ∀ (cfg : Cfg) (script : List PEntry) (evs : List Ev), NonNegOffsets evs →
    C02.increasingOk cfg.reset.isSome (trace cfg script evs) = true

/-- Every delivered message is one a fetch reply carried, with the offset and payload it carried. -/
def C02_payload : Prop :=
  ∀ (cfg : Cfg) (script : List PEntry) (evs : List Ev), C02.payloadOk (trace cfg script evs) = true

/-- The environment is a faithful view of a partition log: every successful fetch reply for a request at
    `off` carries consecutive log entries, the first at or after `off` being the first log entry ≥ `off`. -/
def FaithfulLog (log : List Msg) (cfg : Cfg) (script : List PEntry) (evs : List Ev) : Prop :=
  ∀ n k r, evs[n]? = some (.fetchOk k r) →
    ∀ off mb, .ob (.fetch k off mb) ∈ (run cfg script (evs.take n)).out →
      (∀ m ∈ r.msgs, m ∈ log) ∧ r.msgs.Pairwise (fun a b => C02.succIn log a.off = some b) ∧
      (∀ m ∈ (r.msgs.filter (fun m => decide (off ≤ m.off))).head?, C02.firstFrom log off = some m)

/-- No gap, no duplicate: against a faithful log the delivered stream is the log from the resolved start,
    as far as it got. -/
def C02_no_gap_no_dup : Prop :=
  ∀ (log : List Msg) (cfg : Cfg) (script : List PEntry) (evs : List Ev), FaithfulLog log cfg script evs →
    C02.noGapOk log (trace cfg script evs) = true

/-- Every fetched message is handed to the processor promptly (progress, locally). -/
def C02_prompt : Prop :=
  ∀ (cfg : Cfg) (script : List PEntry) (evs : List Ev), C02.promptOk (trace cfg script evs) = true

end Afkak.Props.Open.C02
