import Afkak.Monitor.C14
/-!
# C02 — full-strength statements that are NOT (yet) proved.  Statements, not theorems.
Each is the acceptance, on every model trace, of the monitor that is run on the implementation's traces.
-/
namespace Afkak.Props.Open.C02
open Afkak.Consumer Afkak.Monitor

/-- The environment is a faithful view of a partition log: every successful fetch reply for a request at
    `off` carries consecutive log entries, the first at or after `off` being the first log entry ≥ `off`. -/
def FaithfulLog (log : List Msg) (cfg : Cfg) (script : List PEntry) (evs : List Ev) : Prop :=
  ∀ n k r, evs[n]? = some (.fetchOk k r) →
    ∀ off mb, .ob (.fetch k off mb) ∈ (run cfg script (evs.take n)).out →
      (∀ m ∈ r.msgs, m ∈ log) ∧ r.msgs.Pairwise (fun a b => C02.succIn log a.off = some b) ∧
      (∀ m ∈ (r.msgs.filter (fun m => decide (off ≤ m.off))).head?, C02.firstFrom log off = some m)

/-- No gap, no duplicate: against a faithful log the delivered stream is the log from the resolved start,
    as far as it got. -/
def C02_no_gap_no_dup : Prop :=
  ∀ (log : List Msg) (cfg : Cfg) (script : List PEntry) (evs : List Ev), FaithfulLog log cfg script evs →
    C02.noGapOk log (trace cfg script evs) = true

/-- Every fetched message is handed to the processor promptly (progress, locally). -/
def C02_prompt : Prop :=
  ∀ (cfg : Cfg) (script : List PEntry) (evs : List Ev), C02.promptOk (trace cfg script evs) = true

end Afkak.Props.Open.C02
