import Afkak.Monitor.C16
import Afkak.Monitor.C16Leave
/-!
# C16 — full-strength statements that are NOT proved (and why)

The state invariants and all trace monitors are discharged in `AfkakProps/C16.lean`, except the two
statements below, which are false of the code (counterexamples proved there).
-/
namespace Afkak.Props.C16.Open
open Afkak.Group Afkak.Consts Afkak.Monitor.C16

/-- The STRICT reading of "after stop no group request other than the leave": after `stop()` has been
    CALLED on a started, not stopping member.  FALSE of the code (`C16_strict_after_stop_counterexample`,
    known finding `group-requests-during-stop-drain`): `ConsumerGroup.stop` drains the consumers before
    `Coordinator.stop` sets `_stopping`, and during the drain heartbeats continue and a pending rejoin may
    look the coordinator up.  Proved instead: nothing but the leave once `Coordinator.stop` has begun
    (`C16_after_stop_only_leave`), no JoinGroup once `stop()` was called (`C16_no_join_after_stop_called`), and
    THIS statement for every history in which no timer firing sends a request during the drain
    (`C16_after_stop_called_only_leave_partial`, hypothesis `timerRequestDuringStopDrain cfg evs = false`). -/
def C16_after_stop_called_only_leave : Prop := ∀ (cfg : Cfg) (evs : List Ev), strictAfterStop (toMSteps (run cfg evs)) = true

/-- "Every consumer of the previous generation has been shut down — committing its progress unless
    the coordinator rejects the commit" (monitor `gracefulDrain`): a consumer is hard-stopped only by an
    eviction or fatal error, or by the documented fallback when a shutdown fails.  FALSE of the code
    (`C16_graceful_drain_counterexample`, known finding `stop-kills-consumers-draining-for-rejoin`): a
    user `stop()` while a rejoin's `on_join_prepare` is draining finds `self.consumers` empty, goes
    straight to `Coordinator.stop`, and cancelling the join kills the draining consumers mid-shutdown.
    Proved for every history without that situation: `C16_graceful_drain_partial`
    (hypothesis `stopKillsPrepareDrain cfg evs = false`). -/
def C16_graceful_drain : Prop := ∀ (cfg : Cfg) (evs : List Ev), gracefulDrain (toMSteps (run cfg evs)) = true

/-- The LeaveGroup request ends the member's generation: it is observed only in a step after which NO
    partition consumer is running or draining (monitor `leaveAfterDrain`).  FALSE of the code
    (`C16_leave_after_drain_counterexample`): the nested `self.stop(error)` of a fatal error arriving
    while a user `stop()` still drains the consumers is not refused (`_stopping` is set only by
    `Coordinator.stop`), finds `self.consumers` empty and leaves the group at once (known finding
    `fatal-error-stop-leaves-while-stop-drains`; a second USER `stop()` did the same — fixed, it is
    refused now: `userStop`); and a `stop()` while a rejoin's `on_join_prepare` drains does the same
    (known finding `stop-kills-consumers-draining-for-rejoin`).  Proved instead
    (`C16_leave_after_drain_partial`): once `Coordinator.stop` has begun, outside those two situations
    every consumer has stopped; and THIS statement for every history in which the leave never goes out in
    one of the two situations (`C16_leave_after_drain_trace_partial`, hypothesis `leaveDuringDrain cfg evs = false`). -/
def C16_leave_after_drain : Prop :=
  ∀ (cfg : Cfg) (evs : List Ev), Afkak.Monitor.C16Leave.leaveAfterDrain (toMSteps (run cfg evs)) = true

end Afkak.Props.C16.Open
