import Afkak.Monitor.C16
/-!
# C16 — full-strength statements that are NOT proved (and why)
-/
namespace Afkak.Props.C16.Open
open Afkak.Group Afkak.Consts Afkak.Monitor.C16

/-- Full strength: a JoinGroup request is issued only when no consumer is running OR DRAINING
    (since fix 05f4891 `on_join_prepare` no longer proceeds while `stop()` drains its consumers).
    The "running" half is `C16_join_no_running`. -/
def C16_join_after_drain : Prop := ∀ (cfg : Cfg) (evs : List Ev), joinAfterDrain (toMSteps (run cfg evs)) = true

/-- At most one join/sync request outstanding, as counted on the observed trace (requests, replies
    and cancellations).  Proved at state level (`C16_one_join_coroutine`: the coroutine slot is
    single and `_rejoin_d` guards it); the trace-level counting statement is not yet discharged. -/
def C16_one_join : Prop := ∀ (cfg : Cfg) (evs : List Ev), oneJoin (toMSteps (run cfg evs)) = true

/-- Heartbeats are sent only while a stable member, as judged from the observed trace alone.
    Not yet discharged (the state-level facts are: a heartbeat is sent only when not stopping, no
    rejoin wanted and none in flight — the guards of `_heartbeat`, checked by correspondence). -/
def C16_heartbeat_only_stable : Prop := ∀ (cfg : Cfg) (evs : List Ev), heartbeatOnlyStable (toMSteps (run cfg evs)) = true

/-- The fencing monitor on traces (assignment tracked from the sync replies).  Proved as a state
    invariant (`C16_fenced`); the trace form needs the ghost "assignment of the last processed sync
    reply = `St.asg`", not yet discharged. -/
def C16_fenced_trace : Prop := ∀ (cfg : Cfg) (evs : List Ev), fenced (toMSteps (run cfg evs)) = true

end Afkak.Props.C16.Open
