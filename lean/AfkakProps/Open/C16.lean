import Afkak.Monitor.C16
/-!
# C16 — full-strength statements that are NOT proved (and why)

None: every C16 statement — the state invariants and all nine trace monitors — is discharged in
`AfkakProps/C16.lean` (`C16_fenced_trace`, `C16_join_after_drain`, `C16_one_join` and
`C16_heartbeat_only_stable` moved there from this file).
-/
namespace Afkak.Props.C16.Open
end Afkak.Props.C16.Open
