import Afkak.Monitor.C16
/-!
# C16 — full-strength statements that are NOT proved (and why)

The state invariants and all trace monitors are discharged in `AfkakProps/C16.lean`, except the two
statements below, which are false of the code (counterexamples proved there).
-/
namespace Afkak.Props.C16.Open
open Afkak.Group Afkak.Consts Afkak.Monitor.C16

/-- The STRICT reading of "after stop no group request other than the leave": after `stop()` has been
    CALLED on a started, not stopping member.  FALSE of the code (`C16_strict_after_stop_counterexample`,
    known finding `group-requests-during-stop-drain`): `ConsumerGroup.stop` drains the consumers before
    `Coordinator.stop` sets `_stopping`, and during the drain heartbeats continue and a pending rejoin may
    look the coordinator up.  Proved instead: nothing but the leave once `Coordinator.stop` has begun
    (`C16_after_stop_only_leave`) and no JoinGroup once `stop()` was called (`C16_no_join_after_stop_called`). -/
def C16_after_stop_called_only_leave : Prop := ∀ (cfg : Cfg) (evs : List Ev), strictAfterStop (toMSteps (run cfg evs)) = true

/-- "Every consumer of the previous generation has been shut down — committing its progress unless
    the coordinator rejects the commit" (monitor `gracefulDrain`): a consumer is hard-stopped only by an
    eviction or fatal error, or by the documented fallback when a shutdown fails.  FALSE of the code
    (`C16_graceful_drain_counterexample`, known finding `stop-kills-consumers-draining-for-rejoin`): a
    user `stop()` while a rejoin's `on_join_prepare` is draining finds `self.consumers` empty, goes
    straight to `Coordinator.stop`, and cancelling the join kills the draining consumers mid-shutdown. -/
def C16_graceful_drain : Prop := ∀ (cfg : Cfg) (evs : List Ev), gracefulDrain (toMSteps (run cfg evs)) = true

end Afkak.Props.C16.Open
