import Afkak.Monitor.C06
/-!
# C06 — statements at full strength that are NOT theorems of the model

`C06_bootstrap_no_crosstalk`: on a bootstrap connection "a frame whose id is unknown changes the outcome
of no other request".  `KafkaBootstrapProtocol.stringReceived` drops the connection on such a frame (by
design, pinned by `test_protocol.test_unknown_correlation_id`), so requests still pending on that
connection fail.  The model mirrors the code; `AfkakProps/C06.lean` proves the negation on a concrete
witness (`C06_bootstrap_no_crosstalk_counterexample`), the part that holds
(`C06_bootstrap_no_crosstalk_partial`) and the single-request use of `KafkaClient`
(`C06_bootstrap_single`).  Recorded in `known_findings.json` (tag `bootstrap-unknown-id-drops-conn`).
-/
namespace Afkak.Props.C06.Open
open Afkak.Monitor.C06

/-- The strict bootstrap monitor accepts every trace of the bootstrap-protocol model. -/
def C06_bootstrap_no_crosstalk : Prop :=
  ∀ evs : List Afkak.Bootstrap.Ev, bootAccepts true (Afkak.Bootstrap.trace Afkak.Bootstrap.St.init evs) = true

/-- Re-entrant callbacks (`Afkak/BrokerClientR.lean`): whatever the callbacks attached to request
    Deferreds do when they fire (`close`, `disconnect`, cancel another request, make a new one), every
    Deferred fires only after it was handed out and at most once (and is never fired a second time),
    `ok b` only with a packet carrying its id, and every Deferred unfired when a `close()` goes ahead
    has fired when that call is over.  NOT proved (the theorems of `AfkakProps/C06.lean` are about the
    flat model, i.e. callbacks that do not re-enter; `C06_reentrant_model_conservative` proves that
    the two models coincide there); evaluated on every model trace and every implementation trace of
    every run. -/
def C06_reentrant : Prop :=
  ∀ (cfg : Afkak.BrokerClient.Cfg) (host port : Nat) (evs : List Afkak.BrokerClientR.EvR),
    ∃ N, ∀ fuel, N ≤ fuel →
      r06 (Afkak.BrokerClientR.traceRWith cfg fuel (Afkak.BrokerClientR.StR.init host port) evs) = true

end Afkak.Props.C06.Open
