import Afkak.Monitor.C06
/-!
# C06 — statements at full strength that are NOT theorems of the model

`C06_bootstrap_no_crosstalk`: on a bootstrap connection "a frame whose id is unknown changes the outcome
of no other request".  `KafkaBootstrapProtocol.stringReceived` drops the connection on such a frame (by
design, pinned by `test_protocol.test_unknown_correlation_id`), so requests still pending on that
connection fail.  The model mirrors the code; `AfkakProps/C06.lean` proves the negation on a concrete
witness (`C06_bootstrap_no_crosstalk_counterexample`), the part that holds
(`C06_bootstrap_no_crosstalk_partial`) and the single-request use of `KafkaClient`
(`C06_bootstrap_single`).  Recorded in `known_findings.json` (tag `bootstrap-unknown-id-drops-conn`).
-/
namespace Afkak.Props.C06.Open
open Afkak.Monitor.C06

/-- The strict bootstrap monitor accepts every trace of the bootstrap-protocol model. -/
def C06_bootstrap_no_crosstalk : Prop :=
  ∀ evs : List Afkak.Bootstrap.Ev, bootAccepts true (Afkak.Bootstrap.trace Afkak.Bootstrap.St.init evs) = true

end Afkak.Props.C06.Open
