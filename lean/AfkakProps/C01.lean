import Afkak.Monitor.C01
import AfkakProofs.Producer.Once
import AfkakProofs.Producer.Truth
import AfkakProofs.Producer.RelStep
import AfkakProofs.Producer.ExactlyOnce
import AfkakProofs.Producer.Acks0
import AfkakProofs.Producer.Order
import AfkakProofs.Producer.Progress
import AfkakProofs.Producer.ReportedTrace
import AfkakProofs.Producer.AfterStop
import AfkakProofs.Producer.WireCompose
import AfkakProofs.Producer.WireBytes
import AfkakProofs.Producer.WireBytesEmitted
import AfkakProofs.Producer.WireBytesRequest
import AfkakProofs.Producer.WireBytesGzipRequest
import AfkakProofs.Producer.Compose2
import AfkakProofs.Producer.Compose3
import AfkakProofs.Producer.Compose4
import AfkakProofs.Producer.Args
import AfkakProofs.Producer.NeverDropped
import AfkakProofs.Producer.EncodeFail
/-!
# C01 — Producer acknowledgements are truthful and fire exactly once
Property theorems only.  Model: `Afkak/Producer.lean` (the Producer against the client interface);
monitors: `Afkak/Monitor/C01.lean` (the same predicates are evaluated on traces of the real Producer).
-/
namespace Afkak.Props.C01
open Afkak.Producer Afkak.Monitor.ProducerTrace Afkak.Monitor.C01

/-- For EVERY event list (sends, cancels, ticks, timers, client completions of any result kind,
    metadata changes, stop with any cancel outcome) no send's Deferred fires twice. -/
theorem C01_fires_at_most_once (cfg : Cfg) (evs : List Ev) :
    atMostOnce cfg (traceOf cfg evs) = true :=
  atMostOnce_model cfg evs

/-- Success only if acknowledged — trace level, for EVERY event list: whenever a send's Deferred fires
    `ok r`, the step's event is the client's answer (or its answer to the cancel in `stop`) to the LAST
    produce request observed, that request was still unanswered, `r` is one of the answer's responses
    with error 0, and the request's payload for `r`'s topic/partition contains the send; `ok None` only
    with acks = 0, in the step that takes the client's answer to the request in flight (still unanswered), for a
    send that was in a request, and only if the request was HANDED TO A CONNECTION as far as that answer tells: it
    is the empty answer, or it ends the batch for good (`_req_attempts ≥ max_req_attempts` before the step) and
    does not list the send's payload among the failed ones (for a total failure: the send is in no payload of
    that request); an exception object is never delivered as a success value.  This is the monitor evaluated on
    traces of the real Producer. -/
theorem C01_success_only_if_acked (cfg : Cfg) (evs : List Ev) : successAcked cfg (traceOf cfg evs) = true :=
  successAcked_model cfg evs

/-- Success only if acknowledged — step level, for ANY state (reachable or not) and any event:
    if a step fires `ok resp` for send `s`, then the producer was waiting on a produce request
    (`sending rid b`), the event is the client's result `r` for it (or the answer to its cancellation in
    `stop`), `r` names only payloads of that request, `resp` is one of `r`'s responses, its error code is
    0, and `s` rides on the payload of `resp`'s topic/partition (`b.sidsOf`: the sends whose messages,
    in order, ARE that payload). -/
theorem C01_success_only_if_acked_step (cfg : Cfg) (st : St) (e : Ev) (s : Sid) (resp : Resp)
    (h : Ob.fire s (.ok resp) ∈ (step cfg st e).2) :
    ∃ rid b r, st.phase = .sending rid b ∧ (e = .produceDone rid r ∨ ∃ w m, e = .stop w (some r) m) ∧
      validResult b r = true ∧ resp ∈ respsOf r ∧ resp.error = 0 ∧ resp.tp ∈ b.current ∧ s ∈ b.sidsOf resp.tp := by
  rcases step_fires_ok cfg st e s _ h with ⟨k, hk⟩ | ⟨rid, b, r, h1, h2, h3, h4⟩
  · cases hk
  · rcases h4 with ⟨resp', e1, e2, e3, e4⟩ | ⟨e1, _⟩
    · injection e1 with e1; subst e1
      refine ⟨rid, b, r, h1, h2, h3, e2, e3, ?_, e4⟩
      simp only [validResult, Bool.and_eq_true, List.all_eq_true, decide_eq_true_eq] at h3
      apply h3.1
      cases r with
      | responses rs => simp only [respsOf] at e2; simp only [ProdRes.tps, List.mem_map]; exact ⟨_, e2, rfl⟩
      | none => simp [respsOf] at e2
      | failed rs fs =>
        simp only [respsOf] at e2
        simp only [ProdRes.tps, List.mem_append, List.mem_map]; exact Or.inr ⟨_, e2, rfl⟩
      | err k => simp [respsOf] at e2
    · cases e1

/-- With acknowledgements disabled: `ok None` is fired only when `req_acks = 0`, while the client's
    answer to the produce request in flight is handled (its empty answer, or the failure that exhausts
    a batchmate's retries), to sends of that batch; and never an exception object as a success value
    (the model has no such transition: F6 is fixed). -/
theorem C01_acks0 (cfg : Cfg) (st : St) (e : Ev) (s : Sid) (o : Outcome)
    (h : Ob.fire s o ∈ (step cfg st e).2) :
    (o = .okNone → cfg.acks = 0 ∧ ∃ rid b r, st.phase = .sending rid b ∧
      (e = .produceDone rid r ∨ ∃ w m, e = .stop w (some r) m) ∧ s ∈ b.allSids) ∧
    (∀ k, o ≠ .okExc k) := by
  rcases step_fires_ok cfg st e s o h with ⟨k, hk⟩ | ⟨rid, b, r, h1, h2, _, h4⟩
  · subst hk; exact ⟨fun hc => Outcome.noConfusion hc, fun k hc => Outcome.noConfusion hc⟩
  · rcases h4 with ⟨resp', e1, _⟩ | ⟨e1, e2, e4⟩
    · subst e1; exact ⟨fun hc => Outcome.noConfusion hc, fun k hc => Outcome.noConfusion hc⟩
    · subst e1; exact ⟨fun _ => ⟨e2, rid, b, r, h1, h2, e4⟩, fun k hc => Outcome.noConfusion hc⟩

/-- … and `None` is a success value only for what was handed over (handler level, any state whose `_outstanding`
    has no duplicates - `C19_outstanding_nodup`): if `_handle_send_response` fires `ok None` for send `s`, the
    result is the empty answer, or no attempt is left and `s` rides on NO payload the result reports failed
    (`failedTps`: failed payloads and error-coded responses; for a total failure everything still listed). -/
theorem C01_none_only_if_handed_over (cfg : Cfg) (st : St) (b : Batch) (r : ProdRes) (hnd : st.outstanding.Nodup)
    (s : Sid) (h : Ob.fire s .okNone ∈ (handleSendResponse cfg st b r).2.1) :
    (r = .none ∨ r = .responses []) ∨
    (cfg.maxAttempts ≤ st.attempts ∧ ∀ tp ∈ failedTps b.live r, s ∉ b.sidsOf tp) :=
  handleSendResponse_okNone cfg st b r hnd s h

/-- The empty answer - trace level, for EVERY event list: in the step that takes the client's empty answer
    (`None` / no responses) to the request in flight, every send of that request that is still outstanding fires
    IN THAT STEP: with acks = 0 it succeeds with `None`, otherwise it fails with NoResponseError. -/
theorem C01_empty_answer (cfg : Cfg) (evs : List Ev) : emptyAnswer cfg (traceOf cfg evs) = true :=
  emptyAnswer_model cfg evs

/-- Otherwise it fails: every other firing of a send's Deferred, by every handler in every state —
    look-up failure, exhausted retries, total failure, no response, user cancel, stop — is `err`. -/
theorem C01_otherwise_fails (cfg : Cfg) (st : St) (e : Ev) (s : Sid) (o : Outcome)
    (h : Ob.fire s o ∈ (step cfg st e).2)
    (hne : ∀ rid b, st.phase = .sending rid b → ∀ r, e ≠ .produceDone rid r ∧ ∀ w m, e ≠ .stop w (some r) m) :
    ∃ k, o = .err k := by
  rcases step_fires_ok cfg st e s o h with hk | ⟨rid, b, r, h1, h2, _⟩
  · exact hk
  · rcases h2 with h2 | ⟨w, m, h2⟩
    · exact absurd h2 (hne rid b h1 r).1
    · exact absurd h2 ((hne rid b h1 r).2 w m)

/-- Never dropped silently: a Deferred leaves `_outstanding` only by firing, in the same step. -/
theorem C01_never_dropped (cfg : Cfg) (st : St) (e : Ev) (s : Sid) (hs : s ∈ st.outstanding)
    (hgone : s ∉ (step cfg st e).1.outstanding) : s ∈ firedSids (step cfg st e).2 := by
  have fd := step_fd cfg st e
  apply fd.gone s _ hgone
  cases e <;> simp only [outPlus] <;> try exact hs
  split
  · exact List.mem_append_left _ hs
  · exact hs

/-- … trace level, for EVERY event list (audit round 2, C01-6: no other monitor ties leaving `_outstanding` to
    firing): every send that was outstanding before a step is still outstanding after it or FIRED in it.  The monitor
    `neverDropped` (Afkak/Monitor/C01Dropped.lean) is evaluated on every flat trace of the real Producer. -/
theorem C01_never_dropped_trace (cfg : Cfg) (evs : List Ev) : neverDropped cfg (traceOf cfg evs) = true :=
  neverDropped_model cfg evs

/-- THE MESSAGE SETS CANNOT BE BUILT (finding F32, fixed 3a8b78c; audit round 2 C01-1) - handler level, ANY state
    and look-up results: `sendRequestsE k` is `_send_requests` with `create_message_set` raising `k` (codec=CODEC_SNAPPY
    without the snappy library, which the constructor accepts; any encoder that raises).  The batch resolves
    (`_complete_batch_send` runs); NOTHING is transmitted; and if `_send_requests` would have made the produce request
    `ps` had nothing raised (`sendRequests`, the same code), then the look-up failures are reported exactly as before,
    every send of `ps` still outstanding after them FIRES `err k`, and (reachable states: `_outstanding` has no
    duplicates) no send of `ps` is outstanding afterwards - "in every other outcome it fails with an exception".
    Before the fix the exception was eaten and those sends never fired.  Not wired into `step` (the model has no
    "encoder raises" input): on the code the encode-failure stage of the harness evaluates the monitors on scenarios
    with such a codec. -/
theorem C01_encode_failure_fires_all (k : ErrKind) (st : St) (ls : List Lookup) :
    (sendRequestsE k st ls).2.2 = true ∧
    (∀ rid ps, Ob.produce rid ps ∉ (sendRequestsE k st ls).2.1) ∧
    (∀ rid ps, Ob.produce rid ps ∈ (sendRequests st ls).2.1 →
      ps = (procResults ls st.outstanding []).2.1 ∧
      (∀ o, o ∈ (procResults ls st.outstanding []).2.2 → o ∈ (sendRequestsE k st ls).2.1) ∧
      (∀ s ∈ payloadSids ps, s ∈ (procResults ls st.outstanding []).1 →
        Ob.fire s (.err k) ∈ (sendRequestsE k st ls).2.1) ∧
      (st.outstanding.Nodup → ∀ s ∈ payloadSids ps, s ∉ (sendRequestsE k st ls).1.outstanding)) :=
  sendRequestsE_spec k st ls

/-! Non-vacuity: two sends, both with a partition: the request would carry both; with the encoder raising both fire. -/
example : (sendRequestsE (.other 5) { outstanding := [0, 1] }
    [⟨⟨0, 0, none, [some 3]⟩, .done (.part 0)⟩, ⟨⟨1, 0, none, [some 2]⟩, .done (.part 1)⟩]).2.1 =
    [.fire 0 (.err (.other 5)), .fire 1 (.err (.other 5))] := by decide +kernel
example : (sendRequests { outstanding := [0, 1] }
    [⟨⟨0, 0, none, [some 3]⟩, .done (.part 0)⟩, ⟨⟨1, 0, none, [some 2]⟩, .done (.part 1)⟩]).2.1.any
      (fun o => match o with | .produce _ ps => payloadSids ps == [0, 1] | _ => false) = true := by decide +kernel

/-- Fires — trace level, for EVERY event list: whenever no batch is in flight (`_batch_send_d is None`)
    everything still in `_outstanding` is still queued, i.e. every send that was dispatched has fired -
    EXCEPT the sends of a batch for which the client broke its contract: some result it gave for THAT batch did
    not account for every payload of its request (C07; and, with acks = 0, did not even have the shape of an
    answer to a request without acknowledgements).  The exemption is per batch (`Track.ex1`/`ex0`: the sends of
    that batch only): an unaccounted answer never excuses a send of an earlier or later batch.  This is the
    monitor evaluated on traces of the real Producer. -/
theorem C01_fires_exactly_once (cfg : Cfg) (evs : List Ev) : resolvedFired cfg (traceOf cfg evs) = true :=
  resolvedFired_model cfg evs

/-- Fires exactly once — as a statement about runs, the environment's part spelled out.
    HYPOTHESIS (`Accounted`, the client contract C07): every result the client gives for a produce request
    (also as the answer to its cancellation by `stop`) accounts for every payload of that request - each
    payload has a response or is listed as failed; the empty answer and total failures account for all.
    CONCLUSION: whenever no batch is in flight, every accepted send (every id below `nextSid`, including
    those refused for having no messages or because `stop()` had begun) has fired EXACTLY once in the run - or is
    still queued, WHICH IS POSSIBLE ONLY WHILE `stop()` HAS NOT BEGUN (once it has, nothing is queued any more:
    `C19_stopped_nothing_pending`; a send made after it is refused at once, F29).  (No fairness is needed for
    this form: "the batch resolved" is the premise `phase = idle`; that a batch in flight resolves needs the
    client to answer and timers to fire, which are events here: `C01_batch_resolves_within`.) -/
theorem C01_fires_exactly_once_run (cfg : Cfg) (evs : List Ev) (hacc : Accounted cfg (St.init cfg) evs)
    (hidle : (run cfg (St.init cfg) evs).1.phase = .idle) :
    ∀ s, s < (run cfg (St.init cfg) evs).1.nextSid →
      ((run cfg (St.init cfg) evs).1.stopping = false ∧ s ∈ queued (run cfg (St.init cfg) evs).1) ∨
      (firedSids (run cfg (St.init cfg) evs).2).count s = 1 :=
  run_fires_exactly_once_strict cfg evs hacc hidle

/-- "Eventually" - the liveness half, with its fairness hypothesis spelled out, and with ANYTHING ELSE going on in
    between.  Take any run `evs` from a reachable state - new sends, cancels, ticks, stray timers, metadata
    changes, stale or invalid client results, in any interleaving; only `stop()` is excluded - along which the
    batch in flight stays unresolved (`unresolvedRun`: at every step a request is out or a retry is pending, and no
    answer of the client resolves the batch).  Then the number of ANSWERS among the events (`answerCount`: the
    client's valid result for THE request in flight, THE retry timer firing) is at most
    `2·(max_req_attempts − _req_attempts) + 1` (`budget`).  FAIRNESS is thus exactly: the environment keeps
    answering what the batch waits for; after at most `budget` answers the next one resolves the batch - and
    when it has resolved, `C01_fires_exactly_once_run` says every send of it has fired exactly once. -/
theorem C01_batch_resolves_within (cfg : Cfg) (pre evs : List Ev)
    (h : unresolvedRun cfg (run cfg (St.init cfg) pre).1 evs) :
    answerCount cfg (run cfg (St.init cfg) pre).1 evs ≤ budget cfg (run cfg (St.init cfg) pre).1 :=
  run_answers_bound cfg pre evs h

/-- … and never more than once, whatever the client does: the fired ids of a whole run are distinct. -/
theorem C01_run_fires_nodup (cfg : Cfg) (evs : List Ev) : (firedSids (run cfg (St.init cfg) evs).2).Nodup :=
  run_fires_nodup cfg evs

/-- acks = 0 succeeds — for EVERY event list and any state: with acknowledgements disabled, in a step that
    handles the client's empty answer (`None` / no responses: the request was handed to the connection),
    also as the answer to the cancel in `stop`, no send fails with `NoResponseError` - the batch's sends
    succeed with `None`, and whatever else fires in the step (look-up failures of the next batch, cancels)
    fails with its own error. -/
theorem C01_acks0_succeeds (cfg : Cfg) (evs : List Ev) : acks0 cfg (traceOf cfg evs) = true :=
  acks0_model cfg evs

/-- Payload integrity — trace level, for EVERY event list: every produce request has at least one payload,
    at most one per topic/partition; every payload is made of WHOLE sends, at least one; no send is in two
    payloads of a request; every send in a payload is a send that was really made (`send_messages` was called with
    that id) FOR THAT PAYLOAD'S TOPIC; and the payload's MESSAGES (`Payload.msgs`: key and value of each message
    the request puts on the wire, in order) are EXACTLY the messages of those sends, send after send - each value
    of a `send_messages` call under that call's key, in the call's order (`p.msgs == p.sids.flatMap wireOf`):
    same keys, same values, same order, nothing added, nothing lost. -/
theorem C01_payload_integrity (cfg : Cfg) (evs : List Ev) : payloads cfg (traceOf cfg evs) = true :=
  payloads_model cfg evs

/-- … down to the wire (composition with the wire package's model of `create_message_set`, `Afkak/Wire/Message.lean`):
    the Producer passes the `SendRequest`s `rs` of a payload, in order, to `create_message_set`; the message list
    it builds is, message for message, the payload's `msgs` (`rs.flatMap (·.wire)`) - key, value and order - as
    format-`magic` messages; with no compression that list IS the message set of the produce payload (with gzip:
    the one wrapper's value is the compressed encoding of exactly that list, `createMessageSet_gzip`).  `body` maps
    a value's size to its bytes (the Producer model abstracts a value to its size). -/
theorem C01_payload_is_message_set (ext : Afkak.Wire.Ext) (body : Nat → List UInt8) (magic : Int) (rs : List Req)
    (p : Payload) (hp : p.msgs = rs.flatMap (·.wire)) :
    Afkak.Wire.createMessageSet ext (rs.map (WireCompose.sendArg body)) Afkak.Consts.codecNone magic =
      .ok (p.msgs.map (WireCompose.wireMsg ext body magic)) :=
  WireCompose.createMessageSet_none ext body magic rs p hp


/-- … and with gzip (`codec=CODEC_GZIP`): the message set of the payload is ONE wrapper message, built by
    `create_gzip_message` from exactly that message list - the payload's `msgs`, key, value and order, as format-`magic`
    messages (its value is the compressed encoding of that list; compression itself is an external, `ext.gzip`). -/
theorem C01_payload_is_message_set_gzip (ext : Afkak.Wire.Ext) (body : Nat → List UInt8) (magic : Int) (rs : List Req)
    (p : Payload) (hp : p.msgs = rs.flatMap (·.wire)) :
    Afkak.Wire.createMessageSet ext (rs.map (WireCompose.sendArg body)) Afkak.Consts.codecGzip magic =
      (match Afkak.Wire.createGzipMessage ext (p.msgs.map (WireCompose.wireMsg ext body magic)) magic with
       | .error e => .error e
       | .ok m => .ok [m]) :=
  WireCompose.createMessageSet_gzip ext body magic rs p hp

/-- … DOWN TO THE BYTES A BROKER READS (composition with the wire package's theorems about `_encode_message_set`,
    `AfkakProofs/Wire/{ProduceReq,TotalProduce}.lean`, and the Kafka grammar `Afkak/Wire/Spec.lean`, which is written
    from the protocol guide, not from afkak).  For the sends `rs` of a payload `p` (`hp`: what `C01_payload_integrity`
    delivers), message format `magic ∈ {0, 1}`, no compression, ANY externals (`ext.crc` any checksum function,
    `ext.nowMs` the clock) and any `body` (value size ↦ value bytes): if the grammar can carry the messages at all
    (`hvalid`, a decidable check: every key, value and encoded message shorter than 2^31 bytes, the clock within
    int64), then `create_message_set` returns a message set `ms`, `_encode_message_set(ms, magic=magic)` WRITES bytes,
    and those bytes PARSE under the grammar's message-set decoder to exactly one entry per message of the payload, in
    order (`WireBytes.brokerEntry`: offset 0, the format asked for, attributes 0, the clock's timestamp for format 1,
    the message's key and its value bytes - null ≠ empty - under a checksum that verifies): the `(key, value)` pairs
    the broker reads are exactly the caller's, `p.msgs.map (kv body)`, same order, nothing added, nothing lost. -/
theorem C01_payload_bytes_decode (ext : Afkak.Wire.Ext) (body : Nat → List UInt8) (magic : Int)
    (hm : magic = 0 ∨ magic = 1) (rs : List Req) (p : Payload) (hp : p.msgs = rs.flatMap (·.wire))
    (hvalid : (Afkak.Wire.Spec.messageSet ext.crc).valid (p.msgs.map (WireBytes.brokerEntry ext.nowMs body magic)) = true) :
    ∃ ms bytes entries,
      Afkak.Wire.createMessageSet ext (rs.map (WireCompose.sendArg body)) Afkak.Consts.codecNone magic = .ok ms
      ∧ Afkak.Wire.encodeMessageSet ext ms none magic = .ok bytes
      ∧ (Afkak.Wire.Spec.messageSet ext.crc).dec bytes = some entries
      ∧ entries = p.msgs.map (WireBytes.brokerEntry ext.nowMs body magic)
      ∧ entries.map (fun e => (e.2.key, e.2.value)) = p.msgs.map (WireBytes.kv body) :=
  WireBytes.payload_bytes_decode ext body magic hm rs p hp hvalid

/-- … and with gzip (composition with the wire package's `createMessageSet_gzip`, the lemma behind
    `C04_compressed_payload`).  WHENEVER `create_message_set(reqs, CODEC_GZIP, magic)` returns (`h`) for the sends of
    a payload `p`: if the decompressor undoes the compressor (`hinv`; both are externals of the model) and the grammar
    can carry the payload's messages (`hvalid`, as above), the wrapper's value `gz` DECOMPRESSES to bytes that PARSE
    under the grammar's message-set decoder to exactly one entry per message of the payload, in order, with the
    message's key and value; and, if the grammar can carry the wrapper (`(…).valid [wrapperEntry …]`: `gz` shorter
    than 2^31 bytes), `_encode_message_set` writes the returned set as bytes that parse under the grammar to that ONE
    wrapper entry (offset 0, format `magic`, the gzip codec in the attributes, null key, value `gz`, checksum
    verified).  So a broker that reads the payload's bytes and decompresses the wrapper's value recovers exactly the
    caller's messages, keys and order. -/
theorem C01_payload_bytes_decode_gzip (ext : Afkak.Wire.Ext) (body : Nat → List UInt8) (magic : Int)
    (hm : magic = 0 ∨ magic = 1) (rs : List Req) (p : Payload) (hp : p.msgs = rs.flatMap (·.wire))
    (ms : List Afkak.Wire.Message)
    (h : Afkak.Wire.createMessageSet ext (rs.map (WireCompose.sendArg body)) Afkak.Consts.codecGzip magic = .ok ms)
    (hinv : ∀ b z, ext.gzip b = .ok z → ext.gunzip (some z) = .ok b)
    (hvalid : (Afkak.Wire.Spec.messageSet ext.crc).valid (p.msgs.map (WireBytes.brokerEntry ext.nowMs body magic)) = true) :
    ∃ gz inner entries,
      ext.gunzip (some gz) = .ok inner
      ∧ (Afkak.Wire.Spec.messageSet ext.crc).dec inner = some entries
      ∧ entries = p.msgs.map (WireBytes.brokerEntry ext.nowMs body magic)
      ∧ entries.map (fun e => (e.2.key, e.2.value)) = p.msgs.map (WireBytes.kv body)
      ∧ ((Afkak.Wire.Spec.messageSet ext.crc).valid [WireBytes.wrapperEntry ext.nowMs magic gz] = true →
          ∃ bytes, Afkak.Wire.encodeMessageSet ext ms none magic = .ok bytes
            ∧ (Afkak.Wire.Spec.messageSet ext.crc).dec bytes = some [WireBytes.wrapperEntry ext.nowMs magic gz]) :=
  WireBytes.payload_bytes_decode_gzip ext body magic hm rs p hp ms h hinv hvalid

/-- … and the WHOLE PRODUCE REQUEST (composition with the lemmas behind `C04_produce_conforms` and
    `C04_produce_total`: `produce_bytes`, `produce_total`).  For the payload list of an `Ob.produce` (`payloads`),
    topic names `tn`, no compression, any message format (`WireCompose.wireMsg`: format 1 when `magic = 1`, else 0), a
    request version the encoder implements (`hv`: `ver ≥ 0`; `v` is `ver` clamped to 2), one payload per (topic name,
    partition) (`hnd`: what the Producer builds - `C01_payload_integrity` - when distinct topics have distinct
    names), ASCII topic names (`hascii`) and a request the grammar can carry (`hvalid`, a decidable check: the
    grammar's field widths): `encode_produce_request` WRITES a frame, and the frame PARSES under the grammar's request
    decoder to the header (api key 0, version `v`, the correlation and client id), `acks`, `timeout` and the payloads
    nested by topic (`regroup`: topics by first occurrence, a topic's partitions in the order given), each partition
    with exactly one entry per message of its payload, in order, key and value kept, checksum verified.  The nesting
    loses and invents nothing: `q` is under topic `t` in what the broker reads IFF `(t, q)` is the
    `(topic name, (partition, entries))` of one of the payloads.  (Whether format 1 may travel in a version < 2
    request is the wire package's `C04_format_matches_version`; the grammar's parser reads each message's own format.) -/
theorem C01_request_bytes_decode (ext : Afkak.Wire.Ext) (body : Nat → List UInt8) (magic : Int)
    (tn : Topic → List UInt8) (payloads : List Payload) (cid : List UInt8) (corr acks timeout ver v : Int)
    (hv : Afkak.Monitor.C04.implementedVersion ver = some v)
    (hnd : (payloads.map (fun p => (tn p.tp.topic, p.tp.part))).Nodup)
    (hascii : ∀ p ∈ payloads, Afkak.Wire.isAscii (tn p.tp.topic) = true)
    (hvalid : (Afkak.Wire.Spec.request (Afkak.Wire.Spec.produceRequest ext.crc)).valid
      (Afkak.Monitor.C04.hdr 0 v corr cid, acks, timeout,
        Afkak.Monitor.C04.regroup (payloads.map (WireBytes.brokerPart ext.nowMs body magic tn))) = true) :
    ∃ frame nested,
      Afkak.Wire.encodeProduceRequest ext cid corr (payloads.map (WireBytes.wireReq ext body magic tn)) acks timeout ver
        = .ok frame
      ∧ (Afkak.Wire.Spec.request (Afkak.Wire.Spec.produceRequest ext.crc)).dec frame
          = some (Afkak.Monitor.C04.hdr 0 v corr cid, acks, timeout, nested)
      ∧ nested = Afkak.Monitor.C04.regroup (payloads.map (WireBytes.brokerPart ext.nowMs body magic tn))
      ∧ (∀ t q, (∃ e ∈ nested, e.1 = t ∧ q ∈ e.2) ↔
          ∃ p ∈ payloads, t = tn p.tp.topic ∧ q = (p.tp.part, p.msgs.map (WireBytes.brokerEntry ext.nowMs body magic))) :=
  WireBytes.request_bytes_decode ext body magic tn payloads cid corr acks timeout ver v hv hnd hascii hvalid

/-- … WITHOUT ANY SIZE CONDITION (`AfkakProofs/Producer/WireBytesEmitted.lean`: whatever `_encode_message_set` writes
    is inside the grammar - a message set it returns bytes for is grammar-valid, the converse of the wire package's
    `msgset_total`).  For EVERY payload `p` made of the sends `rs`, all externals, every `body`, format
    `magic ∈ {0, 1}`, no compression: `create_message_set` returns a message set `ms`, and WHENEVER
    `_encode_message_set(ms, magic=magic)` returns bytes (otherwise it raises `struct.error`: a size or the clock does
    not fit its field - and nothing is sent), those bytes parse under the grammar's message-set decoder to exactly one
    entry per message of the payload, in order, with the message's key and value bytes.  The encoder never writes
    bytes that a broker would read as other messages, fewer, more, or in another order. -/
theorem C01_payload_bytes_decode_emitted (ext : Afkak.Wire.Ext) (body : Nat → List UInt8) (magic : Int)
    (hm : magic = 0 ∨ magic = 1) (rs : List Req) (p : Payload) (hp : p.msgs = rs.flatMap (·.wire)) :
    ∃ ms, Afkak.Wire.createMessageSet ext (rs.map (WireCompose.sendArg body)) Afkak.Consts.codecNone magic = .ok ms
      ∧ ∀ bytes, Afkak.Wire.encodeMessageSet ext ms none magic = .ok bytes →
        ∃ entries, (Afkak.Wire.Spec.messageSet ext.crc).dec bytes = some entries
          ∧ entries = p.msgs.map (WireBytes.brokerEntry ext.nowMs body magic)
          ∧ entries.map (fun e => (e.2.key, e.2.value)) = p.msgs.map (WireBytes.kv body) :=
  WireBytes.payload_bytes_decode_emitted ext body magic hm rs p hp

/-- … and with gzip, without any size condition: WHENEVER `create_message_set(reqs, CODEC_GZIP, magic)` returns `ms`
    for the sends of a payload `p` (so the inner `_encode_message_set` and the compressor returned) and the
    decompressor undoes the compressor (`hinv`; both are externals of the model): `ms` is one wrapper whose value
    `gz` decompresses to bytes that parse under the grammar to exactly one entry per message of the payload, in
    order, key and value kept; and WHENEVER `_encode_message_set(ms, magic=magic)` returns bytes, they parse under
    the grammar to that one wrapper entry (offset 0, format `magic`, gzip codec, null key, value `gz`). -/
theorem C01_payload_bytes_decode_gzip_emitted (ext : Afkak.Wire.Ext) (body : Nat → List UInt8) (magic : Int)
    (hm : magic = 0 ∨ magic = 1) (rs : List Req) (p : Payload) (hp : p.msgs = rs.flatMap (·.wire))
    (ms : List Afkak.Wire.Message)
    (h : Afkak.Wire.createMessageSet ext (rs.map (WireCompose.sendArg body)) Afkak.Consts.codecGzip magic = .ok ms)
    (hinv : ∀ b z, ext.gzip b = .ok z → ext.gunzip (some z) = .ok b) :
    ∃ gz inner entries,
      ext.gunzip (some gz) = .ok inner
      ∧ (Afkak.Wire.Spec.messageSet ext.crc).dec inner = some entries
      ∧ entries = p.msgs.map (WireBytes.brokerEntry ext.nowMs body magic)
      ∧ entries.map (fun e => (e.2.key, e.2.value)) = p.msgs.map (WireBytes.kv body)
      ∧ (∀ bytes, Afkak.Wire.encodeMessageSet ext ms none magic = .ok bytes →
            (Afkak.Wire.Spec.messageSet ext.crc).dec bytes = some [WireBytes.wrapperEntry ext.nowMs magic gz]) :=
  WireBytes.payload_bytes_decode_gzip_emitted ext body magic hm rs p hp ms h hinv

/-- … and the WHOLE PRODUCE REQUEST without any size condition (`AfkakProofs/Producer/WireBytesRequest.lean`: a
    produce request `encode_produce_request` returns a frame for is grammar-valid - `produce_valid_of_encode`, the
    converse of the wire package's `produce_total`).  For the payload list of an `Ob.produce`, topic names `tn`, no
    compression, any message format, any request version the encoder implements (`hv`: `ver ≥ 0`): WHENEVER
    `encode_produce_request` RETURNS a frame (it raises - and nothing is sent - when a (topic, partition) is named
    twice, a topic name is not ASCII, or a size, the clock, acks, timeout, the correlation id does not fit its field),
    that frame PARSES under the grammar's request decoder to the header (api key 0, version `v`, the correlation and
    client id), `acks`, `timeout` and the payloads nested by topic, each partition with exactly one entry per message
    of its payload, in order, key and value bytes kept, checksum verified; `q` is under topic `t` in what the broker
    reads IFF `(t, q)` is the `(topic name, (partition, entries))` of one of the payloads. -/
theorem C01_request_bytes_decode_emitted (ext : Afkak.Wire.Ext) (body : Nat → List UInt8) (magic : Int)
    (tn : Topic → List UInt8) (payloads : List Payload) (cid : List UInt8) (corr acks timeout ver v : Int)
    (hv : Afkak.Monitor.C04.implementedVersion ver = some v) (frame : List UInt8)
    (h : Afkak.Wire.encodeProduceRequest ext cid corr (payloads.map (WireBytes.wireReq ext body magic tn)) acks timeout ver
      = .ok frame) :
    ∃ nested,
      (Afkak.Wire.Spec.request (Afkak.Wire.Spec.produceRequest ext.crc)).dec frame
          = some (Afkak.Monitor.C04.hdr 0 v corr cid, acks, timeout, nested)
      ∧ nested = Afkak.Monitor.C04.regroup (payloads.map (WireBytes.brokerPart ext.nowMs body magic tn))
      ∧ (∀ t q, (∃ e ∈ nested, e.1 = t ∧ q ∈ e.2) ↔
          ∃ p ∈ payloads, t = tn p.tp.topic ∧ q = (p.tp.part, p.msgs.map (WireBytes.brokerEntry ext.nowMs body magic))) :=
  WireBytes.request_bytes_decode_emitted ext body magic tn payloads cid corr acks timeout ver v hv frame h

/-- … and the whole produce request WITH GZIP (`AfkakProofs/Producer/WireBytesGzipRequest.lean`).  For the payload
    list of an `Ob.produce`, each payload `p` made of the sends `sends p` (`hp`: `C01_payload_integrity`) and given
    the message set `ms p` that `create_message_set(sends, CODEC_GZIP, magic)` RETURNED for it (`hms`), a
    decompressor that undoes the compressor (`hinv`; both are externals of the model), any request version the
    encoder implements: WHENEVER `encode_produce_request` returns a frame, the frame parses under the grammar's
    request decoder to the header, `acks`, `timeout` and the payloads nested by topic, each partition holding exactly
    ONE wrapper entry (offset 0, format `magic`, gzip codec in the attributes, null key, checksum verified) whose value
    (`gzOf ms p`) DECOMPRESSES to bytes that parse under the grammar's message-set decoder to exactly one entry per
    message of the payload, in order, key and value bytes kept.  No size condition. -/
theorem C01_request_bytes_decode_gzip_emitted (ext : Afkak.Wire.Ext) (body : Nat → List UInt8) (magic : Int)
    (hm : magic = 0 ∨ magic = 1) (tn : Topic → List UInt8) (payloads : List Payload) (sends : Payload → List Req)
    (hp : ∀ p ∈ payloads, p.msgs = (sends p).flatMap (·.wire)) (ms : Payload → List Afkak.Wire.Message)
    (hms : ∀ p ∈ payloads,
      Afkak.Wire.createMessageSet ext ((sends p).map (WireCompose.sendArg body)) Afkak.Consts.codecGzip magic = .ok (ms p))
    (hinv : ∀ b z, ext.gzip b = .ok z → ext.gunzip (some z) = .ok b)
    (cid : List UInt8) (corr acks timeout ver v : Int) (hv : Afkak.Monitor.C04.implementedVersion ver = some v)
    (frame : List UInt8)
    (h : Afkak.Wire.encodeProduceRequest ext cid corr (payloads.map (WireBytes.wireReqWith tn ms)) acks timeout ver
      = .ok frame) :
    ∃ nested,
      (Afkak.Wire.Spec.request (Afkak.Wire.Spec.produceRequest ext.crc)).dec frame
          = some (Afkak.Monitor.C04.hdr 0 v corr cid, acks, timeout, nested)
      ∧ nested = Afkak.Monitor.C04.regroup (payloads.map
          (fun p => (tn p.tp.topic, (p.tp.part, [WireBytes.wrapperEntry ext.nowMs magic (WireBytes.gzOf ms p)]))))
      ∧ (∀ t q, (∃ e ∈ nested, e.1 = t ∧ q ∈ e.2) ↔
          ∃ p ∈ payloads, t = tn p.tp.topic
            ∧ q = (p.tp.part, [WireBytes.wrapperEntry ext.nowMs magic (WireBytes.gzOf ms p)]))
      ∧ (∀ p ∈ payloads, ∃ inner, ext.gunzip (some (WireBytes.gzOf ms p)) = .ok inner
          ∧ (Afkak.Wire.Spec.messageSet ext.crc).dec inner = some (p.msgs.map (WireBytes.brokerEntry ext.nowMs body magic))) :=
  WireBytes.request_bytes_decode_gzip_emitted ext body magic hm tn payloads sends hp ms hms hinv cid corr acks timeout
    ver v hv frame h

/-! Non-vacuity of the theorems above: a concrete payload (two sends, a null message, an empty value, a null
key), concrete externals and a two-payload request meet every hypothesis (`AfkakProofs/Producer/WireBytes.lean`,
"non-vacuity", checked by `decide`); here the theorems are applied to them. -/
example := C01_payload_bytes_decode WireBytes.exExt WireBytes.exBody 1 (Or.inr rfl) WireBytes.exRs WireBytes.exP
  (by decide) (by decide +kernel)
example := C01_payload_bytes_decode_gzip WireBytes.exExt WireBytes.exBody 1 (Or.inr rfl) WireBytes.exRs WireBytes.exP
  (by decide) _ rfl (by intro b z h; cases h; rfl) (by decide +kernel)
example := C01_request_bytes_decode WireBytes.exExt WireBytes.exBody 1 WireBytes.exTn [WireBytes.exP, WireBytes.exP2]
  [99] 5 (-1) 1000 8 2 (by decide) (by decide) (by decide) (by decide +kernel)
/-- the encoder does return bytes on that payload (the `∀ bytes` of the `_emitted` theorems is not empty) -/
example : ∃ bytes, Afkak.Wire.encodeMessageSet WireBytes.exExt
    (WireBytes.exP.msgs.map (WireCompose.wireMsg WireBytes.exExt WireBytes.exBody 1)) none 1 = .ok bytes := ⟨_, rfl⟩
example : ∃ ms bytes, Afkak.Wire.createMessageSet WireBytes.exExt (WireBytes.exRs.map (WireCompose.sendArg WireBytes.exBody))
    Afkak.Consts.codecGzip 1 = .ok ms ∧ Afkak.Wire.encodeMessageSet WireBytes.exExt ms none 1 = .ok bytes := ⟨_, _, rfl, rfl⟩
example : ∃ frame, Afkak.Wire.encodeProduceRequest WireBytes.exExt [99] 5
    ([WireBytes.exP, WireBytes.exP2].map (WireBytes.wireReq WireBytes.exExt WireBytes.exBody 1 WireBytes.exTn)) (-1) 1000 8
    = .ok frame := ⟨_, rfl⟩
/-- … and for the gzip request: the hypotheses `hp`, `hms` hold of `WireBytes.exSends`, `WireBytes.exMs` and the encoder
    returns a frame (the three `example`s at the foot of `AfkakProofs/Producer/WireBytesGzipRequest.lean`) -/
example := C01_request_bytes_decode_gzip_emitted WireBytes.exExt WireBytes.exBody 1 (Or.inr rfl) WireBytes.exTn
  [WireBytes.exP, WireBytes.exP2] WireBytes.exSends (by decide) WireBytes.exMs
  (by intro p hp; simp only [List.mem_cons, List.not_mem_nil, or_false] at hp; rcases hp with rfl | rfl <;> rfl)
  (by intro b z h; cases h; rfl) [99] 5 (-1) 1000 8 2 (by decide)

/-! Non-vacuity: a run in which Deferreds do fire (an acknowledged send, a cancelled one). -/
def exCfg : Cfg := Cfg.ofArgs 1 3 (1/4) false 1 1 none false
def exEvs : List Ev :=
  [.metaSet 0 0 (some [0, 1]), .send 0 0 none [some 3], .send 1 0 none [some 2, none],
   .produceDone 0 (.responses [⟨⟨0, 0⟩, 0, 42⟩]), .cancel 1]
example : firedSids (allObs (traceOf exCfg exEvs)) = [0, 1] := by decide +kernel

/-! Non-vacuity of the liveness bound: max_req_attempts = 3; the request is answered with an error code twice
(a retry each time), the retry timers fire: a chain of 4 unresolved answers (budget: 2·(3−1)+1 = 5). -/
def exPre : List Ev := [.metaSet 0 0 (some [0]), .send 0 0 none [some 3]]
def exChain : List Ev :=
  [.produceDone 0 (.responses [⟨⟨0, 0⟩, 7, -1⟩]), .timer 0, .produceDone 1 (.responses [⟨⟨0, 0⟩, 7, -1⟩]), .timer 1]
example : budget exCfg (run exCfg (St.init exCfg) exPre).1 = 5 := by decide +kernel
example : unresolvedChain exCfg (run exCfg (St.init exCfg) exPre).1 exChain :=
  unresolvedChainB_sound _ _ _ (by decide +kernel)
/-- the same answers with a new send, a tick, a stray timer and a stale result in between: 4 answers, budget 5 -/
def exRun : List Ev :=
  [.send 1 0 none [some 1], .produceDone 0 (.responses [⟨⟨0, 0⟩, 7, -1⟩]), .tick, .timer 0, .timer 9,
   .produceDone 0 (.responses []), .produceDone 1 (.responses [⟨⟨0, 0⟩, 7, -1⟩]), .cancel 1, .timer 1]
example : unresolvedRun exCfg (run exCfg (St.init exCfg) exPre).1 exRun :=
  unresolvedRunB_sound _ _ _ (by decide +kernel)
example : answerCount exCfg (run exCfg (St.init exCfg) exPre).1 exRun = 4 := by decide +kernel


/-! ## Producer × KafkaClient: the first sentence of C01, end to end

The product machine of `Afkak/ProducerCompose.lean`: the client's answer to a produce request is not a free input
any more but what the client model's `send_produce_request` (`sendProduce`: the routing kernel `route` of
`_send_broker_aware_request`, one request per leader, and its assembling tail) makes of the metadata cache it
routes with and of what each broker request came to. -/
section Composed
open Afkak.ProducerCompose

/-- The product machine IS the Producer machine on the computed events: a composed run from any state is the
    Producer's run on `flatten` (each composed event replaced by the Producer event it amounts to).  Hence every
    theorem about `run` - all of C01, C09, C19 - holds of every composed run. -/
theorem C01_composed_is_producer_run (cfg : Cfg) (nm : Topic → String) (st : St) (ces : List CEv) :
    runC cfg nm st ces = run cfg st (flatten cfg nm st ces) :=
  runC_eq_run cfg nm st ces

/-- SUCCESS ONLY IF THE LEADER ACKNOWLEDGED - composed, step level, ANY state (reachable or not) and any composed
    event that meets `evOK` (the environment hypotheses as one decidable predicate: distinct topics have distinct
    names; a broker answers only for partitions it was asked about).  If the step fires `ok resp` for send `s`:
    the Producer was waiting on produce request `rid` (`sending rid b`); the event is the client's completion of
    that request (or its answer to the cancel in `stop`) with cache `c` and broker outcomes `outs`; `resp`'s error
    code is 0; `s` rides on the request's payload for `resp`'s topic/partition (`b.sidsOf`: the sends whose
    messages, in order, ARE that payload - `C01_payload_integrity`); and (`LeaderAcked`) the client routed the
    request's payloads with `c` into one request per leader, the request to some node `n` was ANSWERED (`ok rs`),
    `rs` contains the answer for that topic/partition with that error code (0) and that offset, that request
    carried that partition's payload, and `n` is the node id of the broker `c.topics_to_brokers` names as the
    partition's leader. -/
theorem C01_composed_success_only_if_leader_acked (cfg : Cfg) (nm : Topic → String) (st : St) (ce : CEv) (s : Sid)
    (resp : Resp) (hok : evOK nm st ce = true) (h : Ob.fire s (.ok resp) ∈ (stepC cfg nm st ce).2) :
    ∃ rid b c outs, st.phase = .sending rid b ∧
      (ce = .clientDone rid c outs ∨ ∃ w m, ce = .stopC w c (some outs) m) ∧
      resp.error = 0 ∧ resp.tp ∈ b.current ∧ s ∈ b.sidsOf resp.tp ∧ LeaderAcked nm c b.current outs resp :=
  stepC_leaderAcked cfg nm st ce s resp hok h

/-- … along runs: for EVERY composed event list that meets the environment hypotheses (`runOK`), at every
    position, a success fired by that step is the leader's error-0 answer (as above, in the state the run has
    reached). -/
theorem C01_composed_success_only_if_leader_acked_run (cfg : Cfg) (nm : Topic → String) (pre : List CEv) (ce : CEv)
    (post : List CEv) (hok : runOK cfg nm (St.init cfg) (pre ++ ce :: post) = true) (s : Sid) (resp : Resp)
    (h : Ob.fire s (.ok resp) ∈ (stepC cfg nm (runC cfg nm (St.init cfg) pre).1 ce).2) :
    ∃ rid b c outs, (runC cfg nm (St.init cfg) pre).1.phase = .sending rid b ∧
      (ce = .clientDone rid c outs ∨ ∃ w m, ce = .stopC w c (some outs) m) ∧
      resp.error = 0 ∧ resp.tp ∈ b.current ∧ s ∈ b.sidsOf resp.tp ∧ LeaderAcked nm c b.current outs resp :=
  stepC_leaderAcked cfg nm _ ce s resp (runOK_at cfg nm _ pre ce post hok) h

/-- … and the Producer-level monitors hold of every composed run (no hypothesis): a success is an error-0
    response of the answer to the LAST produce request observed, whose payload for that topic/partition carries
    the send (`successAcked`); that payload's messages are exactly the sends' messages - same keys, values, order
    (`payloads`); no Deferred fires twice (`atMostOnce`).  Together with the theorem above: the Deferred of a send
    succeeds only if a produce request containing exactly its messages was answered without error by the broker
    the client's metadata named as leader of the chosen partition. -/
theorem C01_composed_truthful (cfg : Cfg) (nm : Topic → String) (ces : List CEv) :
    successAcked cfg (traceOf cfg (flatten cfg nm (St.init cfg) ces)) = true ∧
    payloads cfg (traceOf cfg (flatten cfg nm (St.init cfg) ces)) = true ∧
    atMostOnce cfg (traceOf cfg (flatten cfg nm (St.init cfg) ces)) = true :=
  ⟨successAcked_model cfg _, payloads_model cfg _, atMostOnce_model cfg _⟩


/-- "IN EVERY OTHER OUTCOME - LOST CONNECTION, TIMEOUT - … NEVER REPORTS SUCCESS", composed, step level, ANY state in
    which the request in flight has one payload per topic/partition (`hnd`; what the Producer builds,
    `C01_payload_integrity`): if the step fires `ok resp`, then NO broker request of the client's call that FAILED
    (`fail k`: lost connection, timeout, cancel) carried the payload of `resp`'s topic/partition - a send whose
    payload went out in a request that failed does not succeed in that step, whatever the other brokers answered. -/
theorem C01_composed_failed_request_no_success (cfg : Cfg) (nm : Topic → String) (st : St) (ce : CEv) (s : Sid)
    (resp : Resp) (hok : evOK nm st ce = true) (hnd : ∀ rid b, st.phase = .sending rid b → b.current.Nodup)
    (h : Ob.fire s (.ok resp) ∈ (stepC cfg nm st ce).2) :
    ∀ rid b c outs, st.phase = .sending rid b →
      (ce = .clientDone rid c outs ∨ ∃ w m, ce = .stopC w c (some outs) m) →
      ∀ gs, Afkak.ClientCache.route c (b.current.map (key nm)) none = .ok gs →
      ∀ n idxs k, ((n, idxs), Afkak.ClientCache.BrokerResult.fail k) ∈ brokerRequests gs outs →
        ∀ i ∈ idxs, b.current[i]? ≠ some resp.tp :=
  stepC_failed_no_success cfg nm st ce s resp hok hnd h

/-- FIRES EXACTLY ONCE, end to end.  The Producer-level theorem (`C01_fires_exactly_once_run`) assumes `Accounted`:
    every result of the client accounts for every payload of its request.  Over the product machine that hypothesis
    is DISCHARGED for the answers the client model computes: it follows from what the BROKERS do (`callAccounts`, a
    decidable predicate on each composed call: one outcome per broker request, each broker that answers answers for
    exactly the partitions it was asked, one payload per topic/partition, distinct topic names); raw events keep the
    Producer-level condition (`AccountedC`).  Then, whenever no batch is in flight at the end of a composed run, every
    accepted send has fired EXACTLY once - or is still queued, which is possible only while `stop()` has not begun. -/
theorem C01_composed_fires_exactly_once_run (cfg : Cfg) (nm : Topic → String) (ces : List CEv)
    (hacc : AccountedC cfg nm (St.init cfg) ces) (hidle : (runC cfg nm (St.init cfg) ces).1.phase = .idle) :
    ∀ s, s < (runC cfg nm (St.init cfg) ces).1.nextSid →
      ((runC cfg nm (St.init cfg) ces).1.stopping = false ∧ s ∈ queued (runC cfg nm (St.init cfg) ces).1) ∨
      (firedSids (runC cfg nm (St.init cfg) ces).2).count s = 1 := by
  rw [runC_eq_run] at hidle ⊢
  exact run_fires_exactly_once_strict cfg _ (accountedC_accounted cfg nm _ ces hacc) hidle

/-! Non-vacuity: two partitions of one topic led by two brokers, one batch of two sends; the request to broker 1
fails (timeout), broker 2 acknowledges: the send on broker 2's partition succeeds, the other is retried. -/
def cNm : Topic → String := fun t => if t = 0 then "t0" else "t1"
def cB1 : Afkak.ClientCache.Broker := ⟨1, "kafka1", 9092⟩
def cB2 : Afkak.ClientCache.Broker := ⟨2, "kafka2", 9092⟩
def cCache : Afkak.ClientCache.Cache := { t2b := [(("t0", 0), some cB1), (("t0", 1), some cB2)] }
def cCfg : Cfg := Cfg.ofArgs 1 3 (1/4) true 2 0 none false
def cPre : List CEv := [.ev (.metaSet 0 0 (some [0, 1])), .ev (.send 0 0 none [some 3]), .ev (.send 1 0 none [some 2])]
def cDone : CEv := .clientDone 0 cCache [.fail .tcancelled, .ok [⟨("t0", 1), 42, 0⟩]]
example : runOK cCfg cNm (St.init cCfg) (cPre ++ [cDone]) = true := by decide +kernel
example : (stepC cCfg cNm (runC cCfg cNm (St.init cCfg) cPre).1 cDone).2 =
    [.fire 1 (.ok ⟨⟨0, 1⟩, 0, 42⟩), .setTimer 0 (1/4)] := by decide +kernel
example : ∀ rid b, (runC cCfg cNm (St.init cCfg) cPre).1.phase = .sending rid b → b.current.Nodup := by
  intro rid b h
  have : (runC cCfg cNm (St.init cCfg) cPre).1.phase = .sending 0 ⟨[⟨⟨0, 0⟩, [0], [⟨none, some 3⟩]⟩, ⟨⟨0, 1⟩, [1], [⟨none, some 2⟩]⟩], [⟨0, 0⟩, ⟨0, 1⟩], [⟨0, 0⟩, ⟨0, 1⟩]⟩ := by
    decide +kernel
  rw [this] at h; injection h with _ h; subst h; decide
/-- `callAccounts` holds of that call (broker 2 answered exactly the partition it was asked, broker 1's request failed) -/
example : callAccounts cNm cCache [⟨0, 0⟩, ⟨0, 1⟩] [.fail .tcancelled, .ok [⟨("t0", 1), 42, 0⟩]] = true := by decide +kernel
/-- … and not of a reply that omits a requested partition (both partitions led by broker 1, the answer has one) -/
example : callAccounts cNm { t2b := [(("t0", 0), some cB1), (("t0", 1), some cB1)] } [⟨0, 0⟩, ⟨0, 1⟩]
    [.ok [⟨("t0", 1), 42, 0⟩]] = false := by decide +kernel
/-- the hypothesis `onlyAsked` is not idle: here broker 2 answers for partition 0 as well, which it was not asked -/
example : evOK cNm (runC cCfg cNm (St.init cCfg) cPre).1
    (.clientDone 0 cCache [.fail .tcancelled, .ok [⟨("t0", 1), 42, 0⟩, ⟨("t0", 0), 7, 0⟩]]) = false := by decide +kernel

end Composed

/-! ## `send_messages`: the arguments as Python hands them over (`Afkak/ProducerArgs.lean`)

The `try:` block at the head of `send_messages` is inside the model: the arguments are arbitrary Python objects, the
checks are made in the code's order, a refused call returns an already failed Deferred and touches nothing, an
accepted one is the Producer model's `send` event. -/
section Args
open Afkak.ProducerArgs

/-- WHAT IS ACCEPTED, exactly: `validate a = ok acc` iff the topic is a `str` of 1..249 characters (the bounds are
    read from `_coerce_topic` on every run) naming `acc.topic`, the key is `None` or `bytes` (= `acc.key`), and `msgs`
    is a non-empty sized object whose every element is `None` or `bytes` - `acc.msgs` being exactly those values in
    that order. -/
theorem C01_args_accepted_iff (a : Args) (acc : Accepted) :
    validate a = .ok acc ↔
      (∃ len, a.topic = .str len acc.topic ∧ Afkak.Consts.producerTopicMinLen ≤ len ∧ len ≤ Afkak.Consts.producerTopicMaxLen) ∧
      ((a.key = .none ∧ acc.key = none) ∨ ∃ b, a.key = .bytes b ∧ acc.key = some b) ∧
      ∃ ms, a.msgs = .sized ms ∧ ms ≠ [] ∧ ms.map PyMsg.toModel = acc.msgs.map some :=
  validate_ok_iff a acc

/-- IN EVERY OTHER CASE the call is refused with a TypeError or a ValueError (never anything else), it returns an
    already failed Deferred (`refused k`: not one of `_outstanding`), and the Producer's state is UNCHANGED - nothing
    queued, no counter moved, no send id used, nothing transmitted, in every state (also while stopping). -/
theorem C01_args_refused_changes_nothing (cfg : Cfg) (st : St) (a : Args) (k : ErrKind) (h : validate a = .error k) :
    stepA cfg st (.sendRaw a) = (st, [.refused k]) ∧ (k = typeError ∨ k = valueError) := by
  refine ⟨?_, validate_error a k h⟩
  simp [stepA, h]

/-- An accepted call IS the model's `send` event with the next send id and the coerced arguments; the message count
    it adds is `len(msgs)` and the byte count the sum of `len(m)` over the `bytes` elements - what `enqueue` adds
    (`msgs.length`, `msgBytes msgs`; C19's accounting is about those). -/
theorem C01_args_accepted_is_send (cfg : Cfg) (st : St) (a : Args) (acc : Accepted) (h : validate a = .ok acc) :
    stepA cfg st (.sendRaw a) =
      ((step cfg st (.send st.nextSid acc.topic acc.key acc.msgs)).1,
       (step cfg st (.send st.nextSid acc.topic acc.key acc.msgs)).2.map .flat) ∧
    ∀ ms, a.msgs = .sized ms → acc.msgs.length = ms.length ∧ msgBytes acc.msgs = pyBytes ms := by
  refine ⟨by simp [stepA, h], ?_⟩
  intro ms hms
  obtain ⟨_, _, ms', hms', _, hmap⟩ := (validate_ok_iff a acc).mp h
  rw [hms] at hms'; injection hms' with hms'; subst hms'
  exact checkMsgs_counts ms acc.msgs ((checkMsgs_ok_iff ms acc.msgs).mpr hmap)

/-- Runs with raw `send_messages` calls are Producer runs with the refused calls erased: same final state, same
    observations (the `refused` markers apart).  Hence every trace theorem of C01/C09/C19 holds of them. -/
theorem C01_args_run_is_producer_run (cfg : Cfg) (st : St) (evs : List EvA) :
    (runA cfg st evs).1 = (run cfg st (erase cfg st evs)).1 ∧
    flatObs (runA cfg st evs).2 = (run cfg st (erase cfg st evs)).2 :=
  runA_erase cfg st evs

/-! Non-vacuity: the precedence of the checks (a `str` key is reported even when `msgs` is empty; an empty tuple is a
ValueError; a `str` among the messages a TypeError; a `bytes` OBJECT as `msgs` iterates to ints), and an accepted call. -/
example : validate ⟨.str 2 0, .other, .falsy⟩ = .error typeError := by rfl
example : validate ⟨.other, .other, .falsy⟩ = .error typeError := by rfl
example : validate ⟨.str 0 0, .none, .sized [.bytes 1]⟩ = .error valueError := by rfl
example : validate ⟨.str 250 0, .none, .sized [.bytes 1]⟩ = .error valueError := by rfl
example : validate ⟨.str 2 0, .none, .falsy⟩ = .error valueError := by rfl
example : validate ⟨.str 2 0, .none, .unsized⟩ = .error typeError := by rfl
example : validate ⟨.str 2 0, .bytes [107], .sized [.bytes 3, .other]⟩ = .error typeError := by rfl
example : validate ⟨.str 2 0, .none, .sized [.other, .other, .other]⟩ = .error typeError := by rfl
example : validate ⟨.str 249 1, .bytes [107], .sized [.bytes 3, .none]⟩ = .ok ⟨1, some [107], [some 3, none]⟩ := by rfl

end Args

end Afkak.Props.C01

/- OBLIGATIONS
C01_fires_at_most_once
C01_success_only_if_acked
C01_success_only_if_acked_step
C01_acks0
C01_none_only_if_handed_over
C01_empty_answer
C01_otherwise_fails
C01_never_dropped
C01_never_dropped_trace
C01_encode_failure_fires_all
C01_fires_exactly_once
C01_fires_exactly_once_run
C01_run_fires_nodup
C01_acks0_succeeds
C01_payload_integrity
C01_payload_is_message_set
C01_payload_is_message_set_gzip
C01_payload_bytes_decode
C01_payload_bytes_decode_gzip
C01_request_bytes_decode
C01_payload_bytes_decode_emitted
C01_payload_bytes_decode_gzip_emitted
C01_request_bytes_decode_emitted
C01_request_bytes_decode_gzip_emitted
C01_batch_resolves_within
C01_composed_is_producer_run
C01_composed_success_only_if_leader_acked
C01_composed_success_only_if_leader_acked_run
C01_composed_truthful
C01_composed_failed_request_no_success
C01_composed_fires_exactly_once_run
C01_args_accepted_iff
C01_args_refused_changes_nothing
C01_args_accepted_is_send
C01_args_run_is_producer_run
-/
/- OPEN_STATEMENTS
-/
