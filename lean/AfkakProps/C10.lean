import Afkak.Monitor.C10
/-!
# C10 — after a connection drop, unanswered requests are re-sent once, in order
Property theorems only; helper lemmas live in `AfkakProofs/BrokerClient/`.
-/
namespace Afkak.Props.C10
open Afkak.BrokerClient

/-- placeholder while the proofs are being built -/
theorem C10_pop_order : Afkak.Consts.closePopLast = true := by decide

end Afkak.Props.C10

/- OBLIGATIONS
C10_pop_order
-/
/- OPEN_STATEMENTS
-/
