import Afkak.Monitor.C10
import AfkakProofs.BrokerClient.SimC10
import AfkakProofs.BrokerClient.MonC10
import AfkakProofs.BrokerClient.SimC06
import AfkakProofs.BrokerClient.MonC06
import AfkakProofs.BrokerClient.Reent10
import AfkakProofs.BrokerClient.Compose
import AfkakProofs.BrokerClient.Term
import AfkakProofs.BrokerClient.SyncFlat
import AfkakProofs.BrokerClient.FuelFree
import AfkakProofs.BrokerClient.Answered
import AfkakProofs.BrokerClient.NeverDropped
import AfkakProofs.BrokerClient.Down
import AfkakProofs.BrokerClient.AllFired
import AfkakProofs.BrokerClient.Addr
import AfkakProofs.BrokerClient.ReentWrites
/-!
# C10 — after a connection drop, unanswered requests are re-sent once, in order; reconnect, back-off, close
Property theorems only; helper lemmas live in `AfkakProofs/BrokerClient/`.

`Monitor.C10.accepts` is the decidable predicate the driver evaluates on traces recorded from the real
`_KafkaBrokerClient`; `C10_monitor_sound` proves it of every trace of the model, for every retry policy.
"Fired" below is `Monitor.C06.firedOf`: the serials whose Deferred has fired (answered, cancelled, failed,
or written without expecting a reply) — by `C06_exactly_once` the complement of "still pending".
-/
namespace Afkak.Props.C10
open Afkak.Frame Afkak.BrokerClient Afkak.Monitor.C10

/-- The C10 monitor the driver evaluates on the implementation's traces accepts every trace of the
    model — any event list, ANY retry policy, any broker address. -/
theorem C10_monitor_sound (cfg : Cfg) (host port : Nat) (evs : List Ev) :
    accepts cfg.policy host port (trace cfg (St.init host port) evs) = true := by
  simp only [accepts]
  rw [← abs10_init host port, sim10_run cfg _ evs (sinv_init host port)]
  rfl

/-- Once per connection, for ANY accepted trace: no (connection, serial) pair is written twice. -/
theorem C10_once_per_conn_of_accepted (policy : Nat → Rat) (host port : Nat) (tr : List (Ev × List Ob))
    (h : accepts policy host port tr = true) : (writtenOf tr).Nodup := by
  simp only [accepts, Option.isSome_iff_exists] at h
  obtain ⟨m, hm⟩ := h
  have := (minv_run policy tr _ m [] (minv_init host port) hm).wNodup
  simpa using this

/-- No request is written twice on one connection, whatever the event list. -/
theorem C10_once_per_conn (cfg : Cfg) (host port : Nat) (evs : List Ev) :
    (writtenOf (trace cfg (St.init host port) evs)).Nodup :=
  C10_once_per_conn_of_accepted cfg.policy host port _ (C10_monitor_sound cfg host port evs)

/-- Never re-sent: a request whose Deferred has fired (answered, cancelled, failed, or written
    without expecting a reply) is never written again — in no later step, on no connection. -/
theorem C10_never_resent (cfg : Cfg) (host port : Nat) (evs : List Ev) (e : Ev) :
    let s := run cfg (St.init host port) evs
    ∀ w ∈ writes (step cfg s e).2, w.2.1 ∉ Monitor.C06.firedOf (trace cfg (St.init host port) evs) := by
  intro s w hw
  have hsi := sinv_run cfg (St.init host port) evs (sinv_init host port)
  have h10 := sim10_step cfg s e hsi
  have hrun10 := sim10_run cfg (St.init host port) evs (sinv_init host port)
  rw [abs10_init] at hrun10
  have hm10 := minv_run cfg.policy _ _ _ [] (minv_init host port) hrun10
  have hfrom := (minv_step cfg.policy _ _ _ e _ hm10 h10).2 w hw
  have hrun06 := sim06_run cfg (St.init host port) evs (sinv_init host port)
  rw [abs06_init] at hrun06
  have hm06 := Monitor.C06.minv_run _ Monitor.C06.MSt.init _ [] Monitor.C06.minv_init hrun06
  simp only [List.nil_append] at hm06
  intro hF
  rcases hfrom with hk | ⟨p, hp, hk⟩
  · have := hm06.firedLt _ hF
    rw [hk] at this
    exact Nat.lt_irrefl _ this
  · simp only [abs10, absPend, List.mem_map, List.mem_filter] at hp
    obtain ⟨r, ⟨hr, hc⟩, rfl⟩ := hp
    have hl : proj r ∈ (abs06 s).live := by
      simp only [abs06, absLive, List.mem_map, List.mem_filter]
      exact ⟨r, ⟨hr, hc⟩, rfl⟩
    have := hm06.disj _ hl
    simp only [proj] at this
    rw [← hk] at hF
    exact this hF

/-- Resend exact: when a connection comes up (any reachable state with a pending attempt), what is
    written on it is exactly the table, in table order; the table is then: every request made so far
    whose Deferred has not fired — i.e. the unanswered, uncancelled, reply-expecting requests of the
    previous connection plus the later ones — in issue order (ascending serial), each once, none
    cancelled, none marked sent. -/
theorem C10_resend_exact (cfg : Cfg) (host port : Nat) (evs : List Ev) :
    let s := run cfg (St.init host port) evs
    s.connector = .attempt →
      writes (step cfg s .connOk).2 = (if s.wfail then [] else s.reqs.map fun r => (s.nconn, r.serial, r.id, false)) ∧
      s.reqs.Pairwise (fun a b => a.serial < b.serial) ∧
      (∀ r ∈ s.reqs, r.cancelled = false ∧ r.sent = false) ∧
      (∀ k, (∃ r ∈ s.reqs, r.serial = k) ↔ (k < s.nmake ∧ k ∉ Monitor.C06.firedOf (trace cfg (St.init host port) evs))) := by
  intro s hatt
  have h : SInv s := sinv_run cfg (St.init host port) evs (sinv_init host port)
  have hp : s.proto = none := by
    cases hq : s.proto with
    | none => rfl
    | some c => have := h.connConnector (by simp [hq]); simp_all
  have hcl : s.closed = false := by
    cases hc : s.closed
    · rfl
    · have := h.closedConnector hc; simp_all
  have hun : ∀ r ∈ s.reqs, r.sent = false := h.discUnsent hp
  have hunc : ∀ r ∈ s.reqs, r.cancelled = false := by
    intro r hr
    cases hc : r.cancelled
    · rfl
    · have := h.cancSent r hr hc; have := hun r hr; simp_all
  refine ⟨?_, h.serials, fun r hr => ⟨hunc r hr, hun r hr⟩, ?_⟩
  · simp only [step, hatt, if_true, hcl, Bool.false_eq_true, if_false, sendQueued]
    exact (sendQueued_proj _ s.nconn s.reqs hun rfl).1
  · intro k
    have hrun06 := sim06_run cfg (St.init host port) evs (sinv_init host port)
    rw [abs06_init] at hrun06
    have hm06' := Monitor.C06.minv_run _ Monitor.C06.MSt.init _ [] Monitor.C06.minv_init hrun06
    simp only [List.nil_append] at hm06'
    have hm06 : Monitor.C06.MInv (abs06 s) (Monitor.C06.firedOf (trace cfg (St.init host port) evs)) := hm06'
    have hlive : ∀ r, r ∈ s.reqs → proj r ∈ (abs06 s).live := by
      intro r hr
      simp only [abs06, absLive, List.mem_map, List.mem_filter]
      exact ⟨r, ⟨hr, by simp [hunc r hr]⟩, rfl⟩
    constructor
    · rintro ⟨r, hr, rfl⟩
      exact ⟨h.serialLt r hr, hm06.disj _ (hlive r hr)⟩
    · rintro ⟨hk, hF⟩
      rcases hm06.cover k hk with ⟨l, hl, rfl⟩ | h'
      · simp only [abs06, absLive, List.mem_map, List.mem_filter] at hl
        obtain ⟨r, ⟨hr, _⟩, rfl⟩ := hl
        exact ⟨r, hr, rfl⟩
      · exact absurd h' hF


/-- Reconnect iff: when the connection is lost (any reachable state) a connection attempt to the
    current address follows iff the client is not closed and some request is still pending; an idle
    client (no connection, no attempt, no timer) has an empty table and connects on the next request;
    a request made while connected, connecting or backing off starts no second attempt. -/
theorem C10_reconnect_iff (cfg : Cfg) (host port : Nat) (evs : List Ev) :
    let s := run cfg (St.init host port) evs
    (s.proto.isSome → connects (step cfg s .lost).2 =
        (if !s.closed && s.reqs.any (fun r => !r.cancelled) then [(s.host, s.port)] else [])) ∧
    (s.proto = none → s.connector = .none → s.closed = false →
        s.reqs = [] ∧ ∀ id ex, connects (step cfg s (.make id ex)).2 = [(s.host, s.port)]) ∧
    (s.proto.isSome ∨ s.connector ≠ .none → ∀ id ex, connects (step cfg s (.make id ex)).2 = []) := by
  intro s
  have h : SInv s := sinv_run cfg (St.init host port) evs (sinv_init host port)
  refine ⟨?_, ?_, ?_⟩
  · intro hp
    obtain ⟨c, hc⟩ := Option.isSome_iff_exists.mp hp
    simp only [step, hc, lostStep, connect_, tryConnect]
    by_cases hcl : s.closed = true
    · simp [hcl, connects]
    · have hcl' : s.closed = false := by simpa using hcl
      by_cases he : s.reqs.any (fun r => !r.cancelled) = true
      · have : ((s.reqs.filter (fun r => !r.cancelled)).map (fun r => { r with sent := false })).isEmpty = false := by
          simp only [List.any_eq_true] at he
          obtain ⟨r, hr, hrc⟩ := he
          cases hl : (s.reqs.filter (fun r => !r.cancelled)) with
          | nil =>
            have : r ∈ s.reqs.filter (fun r => !r.cancelled) := List.mem_filter.mpr ⟨hr, hrc⟩
            rw [hl] at this; simp at this
          | cons a l => simp
        simp [hcl', he, this, connects]
      · have he' : s.reqs.any (fun r => !r.cancelled) = false := by simpa using he
        have : ((s.reqs.filter (fun r => !r.cancelled)).map (fun r => { r with sent := false })).isEmpty = true := by
          simp only [List.isEmpty_iff, List.map_eq_nil_iff, List.filter_eq_nil_iff]
          intro r hr
          simp only [List.any_eq_false] at he'
          simpa using he' r hr
        simp [hcl', he', this, connects]
  · intro hp hco hcl
    have he := h.idleEmpty hp hco hcl
    refine ⟨he, ?_⟩
    intro id ex
    simp [step, he, hcl, hp, hco, connect_, tryConnect, connects]
  · intro hor id ex
    simp only [step]
    split
    · simp [connects]
    · split
      · simp [connects]
      · split
        · simp only [sendObs]
          split <;> (try split) <;> (try split) <;> simp [connects]
        · rename_i hp
          rcases hor with hor | hor
          · simp [hp] at hor
          · simp [hor, connects]

/-- Back-off, for EVERY retry policy: a failed attempt arms a timer of `policy (failures + 1)` and
    counts the failure; the next attempt is made by the first clock advance that reaches the due
    time, and by none before it, to the address current at that moment; a successful connection
    and the start of a fresh connection loop (first request of an idle client, a lost connection
    with requests pending) reset the count. -/
theorem C10_backoff (cfg : Cfg) (host port : Nat) (evs : List Ev) :
    let s := run cfg (St.init host port) evs
    (s.connector = .attempt →
        step cfg s .connFail = ({ s with failures := s.failures + 1, connector := .backoff (s.now + cfg.policy (s.failures + 1)) },
                                [.setTimer (cfg.policy (s.failures + 1))])) ∧
    (∀ due dt, s.connector = .backoff due → 0 ≤ dt →
        step cfg s (.advance dt) = (if due ≤ s.now + dt then ({ s with now := s.now + dt, connector := .attempt }, [.connect s.host s.port])
                                    else ({ s with now := s.now + dt }, []))) ∧
    (s.connector = .attempt → (step cfg s .connOk).1.failures = 0) ∧
    (∀ e, (Ob.connect s.host s.port) ∈ (step cfg s e).2 → (∀ dt, e ≠ .advance dt) → (step cfg s e).1.failures = 0) := by
  intro s
  have h : SInv s := sinv_run cfg (St.init host port) evs (sinv_init host port)
  refine ⟨?_, ?_, ?_, ?_⟩
  · intro hatt
    have hcl : s.closed = false := by
      cases hc : s.closed
      · rfl
      · have := h.closedConnector hc; simp_all
    simp [step, hatt, hcl]
  · intro due dt hco hdt
    have : ¬ dt < 0 := by grind
    simp only [step, this, if_false, hco, tryConnect]
  · intro hatt
    simp only [step, hatt, if_true, sendQueued]
    split <;> rfl
  · intro e hm hne
    cases e with
    | make id ex =>
      simp only [step] at hm ⊢
      split at hm
      · simp at hm
      · split at hm
        · simp at hm
        · split at hm
          · simp only [sendObs] at hm
            split at hm <;> (try split at hm) <;> (try split at hm) <;> simp at hm
          · rename_i hd hc _ hp
            simp only [hd, hc, hp, if_false]
            split at hm
            · rename_i hco; simp [hco, connect_, tryConnect]
            · simp at hm
    | cancel id =>
      simp only [step] at hm
      split at hm <;> simp at hm
    | connOk =>
      simp only [step] at hm ⊢
      split at hm
      · rename_i hatt
        simp only [hatt, if_true, sendQueued]
        split <;> rfl
      · simp at hm
    | connFail =>
      simp only [step] at hm
      split at hm <;> (try split at hm) <;> simp at hm
    | advance dt => exact absurd rfl (hne dt)
    | bytesIn chunk =>
      simp only [step] at hm ⊢
      split at hm
      · simp at hm
      · split at hm
        · simp at hm
        · rename_i c hp hl
          simp only [hp, hl, if_false]
          have hobs := handleFrames_proj (feed s.rbuf chunk).frames s h.serials
          have hnc : Ob.connect s.host s.port ∉ (handleFrames s (feed s.rbuf chunk).frames).2.1 := by
            intro hx
            rcases hobs.2.2.2.2.2 _ hx with ⟨_, _, _, he⟩ | ⟨_, he⟩ | he <;> simp at he
          split at hm
          · rename_i hr
            simp only [hr, if_true]
            rcases List.mem_append.mp hm with hm | hm
            · exact absurd hm hnc
            · simp only [lostStep, connect_, tryConnect] at hm ⊢
              split at hm
              · simp at hm
              · split at hm
                · simp at hm
                · rename_i h1 h2
                  simp [h1, h2]
          · split at hm
            · rcases List.mem_append.mp hm with hm | hm
              · exact absurd hm hnc
              · simp at hm
            · exact absurd hm hnc
    | lost =>
      simp only [step] at hm ⊢
      split at hm
      · simp at hm
      · simp only [lostStep, connect_, tryConnect] at hm ⊢
        split at hm
        · simp at hm
        · split at hm
          · simp at hm
          · rename_i h1 h2
            simp [h1, h2]
    | close =>
      simp only [step] at hm
      split at hm
      · simp at hm
      · split at hm
        · simp at hm
        · split at hm <;> simp at hm
    | disconnect =>
      simp only [step] at hm
      split at hm <;> simp at hm
    | updateMetadata a b => simp [step] at hm
    | writeFail b => simp [step] at hm


/-- Once closed, always closed, and every later step is quiet: no `connect`, no `write`, no timer. -/
theorem C10_closed_quiet (cfg : Cfg) (s : St) (h : SInv s) (hc : s.closed = true) (e : Ev) :
    quiet (step cfg s e).2 = true ∧ (step cfg s e).1.closed = true := by
  have hr := h.closedEmpty hc
  have hco := h.closedConnector hc
  cases e with
  | make id ex => simp [step, hr, hc, quiet, writes, connects, timers]
  | cancel id => simp [step, hr, hc, quiet, writes, connects, timers]
  | connOk => rcases hco with hco | hco <;> simp [step, hco, hc, quiet, writes, connects, timers]
  | connFail => rcases hco with hco | hco <;> simp [step, hco, hc, quiet, writes, connects, timers]
  | advance dt =>
    simp only [step]
    split
    · simp [hc, quiet, writes, connects, timers]
    · rcases hco with hco | hco <;> simp [hco, hc, quiet, writes, connects, timers]
  | bytesIn chunk =>
    simp only [step]
    split
    · simp [hc, quiet, writes, connects, timers]
    · rename_i c hp
      have := h.closedLosing hc (by simp [hp])
      simp [this, hc, quiet, writes, connects, timers]
  | lost =>
    simp only [step]
    split
    · simp [hc, quiet, writes, connects, timers]
    · simp [lostStep, hc, quiet, writes, connects, timers]
  | close => simp [step, hc, quiet, writes, connects, timers]
  | disconnect =>
    simp only [step]
    split <;> simp [hc, quiet, writes, connects, timers]
  | updateMetadata a b => simp [step, hc, quiet, writes, connects, timers]
  | writeFail b => simp [step, hc, quiet, writes, connects, timers]

/-- Close: in any reachable, not yet closed state `close()` fires every pending uncancelled
    request with `ClientError`, cancels the connection attempt or the back-off timer, drops the
    connection, leaves the table empty — and whatever happens afterwards, no `connect`, `write` or
    timer observation ever follows. -/
theorem C10_close (cfg : Cfg) (host port : Nat) (evs : List Ev) :
    let s := run cfg (St.init host port) evs
    s.closed = false →
      (∀ r ∈ s.reqs, r.cancelled = false → Ob.fire r.serial r.id (.err .clientError) ∈ (step cfg s .close).2) ∧
      (s.connector = .attempt → Ob.cancelConnect ∈ (step cfg s .close).2) ∧
      (∀ d, s.connector = .backoff d → Ob.cancelTimer ∈ (step cfg s .close).2) ∧
      (∀ c, s.proto = some c → Ob.lose c ∈ (step cfg s .close).2) ∧
      (step cfg s .close).1.reqs = [] ∧ (step cfg s .close).1.closed = true ∧
      (∀ evs', ∀ t ∈ trace cfg (step cfg s .close).1 evs', quiet t.2 = true) := by
  intro s hcl
  have h : SInv s := sinv_run cfg (St.init host port) evs (sinv_init host port)
  have hfire : ∀ r ∈ s.reqs, r.cancelled = false → ∀ (pre post : List Ob),
      Ob.fire r.serial r.id (.err .clientError) ∈ pre ++ ((if Afkak.Consts.closePopLast then s.reqs.reverse else s.reqs).filter
        (fun r => !r.cancelled)).map (fun r => Ob.fire r.serial r.id (.err .clientError)) ++ post := by
    intro r hr hc pre post
    apply List.mem_append.mpr; left; apply List.mem_append.mpr; right
    apply List.mem_map.mpr
    refine ⟨r, List.mem_filter.mpr ⟨?_, by simp [hc]⟩, rfl⟩
    split <;> simp [hr]
  have hclosed : (step cfg s .close).1.closed = true := by
    simp only [step, hcl, Bool.false_eq_true, if_false]
    split <;> (try split) <;> rfl
  refine ⟨?_, ?_, ?_, ?_, ?_, hclosed, ?_⟩
  · intro r hr hc
    simp only [step, hcl, Bool.false_eq_true, if_false]
    split
    · rename_i c _
      have := hfire r hr hc [.lose c] []
      simpa using this
    · split
      · have := hfire r hr hc [.cancelConnect] [.down]; simpa using this
      · have := hfire r hr hc [.cancelTimer] [.down]; simpa using this
      · have := hfire r hr hc [] [.down]; simpa using this
      · have := hfire r hr hc [] [.down]; simpa using this
  · intro hatt
    have hp : s.proto = none := by
      cases hq : s.proto with
      | none => rfl
      | some c => have := h.connConnector (by simp [hq]); simp_all
    simp [step, hcl, hp, hatt]
  · intro d hd
    have hp : s.proto = none := by
      cases hq : s.proto with
      | none => rfl
      | some c => have := h.connConnector (by simp [hq]); simp_all
    simp [step, hcl, hp, hd]
  · intro c hp
    simp [step, hcl, hp]
  · simp only [step, hcl, Bool.false_eq_true, if_false]
    split <;> (try split) <;> rfl
  · intro evs'
    have hs' : SInv (step cfg s .close).1 := sinv_step cfg s .close h
    generalize (step cfg s .close).1 = s' at hs' hclosed
    induction evs' generalizing s' with
    | nil => simp [trace]
    | cons e es ih =>
      intro t ht
      simp only [trace, List.mem_cons] at ht
      obtain ⟨q1, q2⟩ := C10_closed_quiet cfg s' hs' hclosed e
      rcases ht with rfl | ht
      · exact q1
      · exact ih _ (sinv_step cfg s' e hs') q2 t ht

/-! Non-vacuity: a run with a drop, a resend of exactly the unanswered uncancelled requests in
issue order, two failed attempts with back-off, and a close. -/
def demo : List Ev :=
  [.make 1 true, .make 2 true, .make 3 true, .make 4 false, .connOk, .bytesIn [0, 0, 0, 4, 0, 0, 0, 2],
   .cancel 3, .make 5 true, .lost, .connFail, .advance 1, .connFail, .advance 1, .advance 1, .connOk, .close]
example : (trace ⟨fun n => n⟩ (St.init 1 9092) demo).map (·.2) =
    [[.connect 1 9092], [], [], [], [.write 0 0 1, .write 0 1 2, .write 0 2 3, .write 0 3 4, .fire 3 4 .none],
     [.fire 1 2 (.ok [0, 0, 0, 2])], [.fire 2 3 (.err .cancelled)], [.write 0 4 5], [.connect 1 9092],
     [.setTimer 1], [.connect 1 9092], [.setTimer 2], [], [.connect 1 9092], [.write 1 0 1, .write 1 4 5],
     [.lose 1, .fire 4 5 (.err .clientError), .fire 0 1 (.err .clientError)]] := by
  decide +kernel
example : (run ⟨fun n => n⟩ (St.init 1 9092) (demo.take 14)).connector = .attempt := by decide +kernel
example : (run ⟨fun n => n⟩ (St.init 1 9092) (demo.take 15)).closed = false := by decide +kernel

/-! Re-entrant callbacks (`C10_reentrant` below): a run of the re-entrant model
in which the callback of a fire-and-forget request cancels a queued request while the queue is written —
the cancelled request is not written (the behaviour after commit e52a354) — accepted by `r10`. -/
example : ((Afkak.BrokerClientR.traceR ⟨fun _ => 1⟩ (Afkak.BrokerClientR.StR.init 1 9092)
      [.make 1 false (some [.cancel 2]), .make 2 false none, .make 3 true none, .flat .connOk]).map (·.2)) =
    [[.ob (.connect 1 9092), .made 0 1], [.made 1 2], [.made 2 3],
     [.ob (.write 0 0 1), .ob (.fire 0 1 .none), .hookBegin 0, .ob (.fire 1 2 (.err .cancelled)), .hookEnd,
      .ob (.write 0 2 3)]] := by decide +kernel
example : r10 (Afkak.BrokerClientR.traceR ⟨fun _ => 1⟩ (Afkak.BrokerClientR.StR.init 1 9092)
      [.make 1 false (some [.cancel 2]), .make 2 false none, .make 3 true none, .flat .connOk]) = true := by
  decide +kernel

/-- C10 for callbacks that call back into the broker client (`Afkak/BrokerClientR.lean`): every
    callback is any finite list of actions (`close`, `disconnect`, `cancel id`, `make id expect`), runs
    synchronously inside the firing, and may fire further Deferreds whose callbacks do the same; the
    endpoint may be the pathological one that connects from inside `connector.cancel()` (`stubborn`).
    For every configuration, every event list and every amount of fuel, if the interpreter did not
    run out of fuel in this run (no `fuelOut` marker — decidable on the trace; the driver runs with
    100000 and would print it), the stream monitor `r10` accepts the trace: once a `close()` has gone
    ahead no connection attempt, timer or write follows; no request is written twice on one
    connection; a request whose Deferred has fired is never written afterwards; `down` is reported at
    most once and only after `close()`.  That some amount of fuel always suffices is `fuel_suffices`; together: `C10_reentrant`. -/
theorem C10_reentrant_partial (cfg : Cfg) (fuel host port : Nat) (evs : List Afkak.BrokerClientR.EvR)
    (hfuel : ∀ t ∈ Afkak.BrokerClientR.traceRWith cfg fuel (Afkak.BrokerClientR.StR.init host port) evs,
      Afkak.BrokerClientR.ObR.fuelOut ∉ t.2) :
    r10 (Afkak.BrokerClientR.traceRWith cfg fuel (Afkak.BrokerClientR.StR.init host port) evs) = true := by
  simp only [r10]
  rw [Afkak.BrokerClientR.r10_trace cfg fuel evs _ _ _ 0 (Afkak.BrokerClientR.top10_init host port) hfuel]
  rfl

/-- Composition with the client layer's timeout wrapper (`_make_request_to_broker`, `Afkak/ClientNet.lean`),
    for C11/C20.  `st` is any state of the client layer in which request `k` is pending, with
    `disconnect_on_timeout`; `s` is any reachable state of the broker client the request was made on,
    connected (connection `c`, not being dropped, writes succeeding), in which the request — correlation
    id `L.cid k` — is still outstanding (`rq`).  When the wrapper's timer fires:
    * the client layer calls `cancel` on the request's Deferred and, last of all the work the timer
      causes, `disconnect()` on that broker client — and nothing else on it from `_mrtb_timeout` itself;
      it books the request as failed synchronously (`fired k (some .cancelled)`);
    * the broker client does errback that Deferred, and only that one, at once with `CancelledError`
      (so the client layer's synchronous bookkeeping is right), and `disconnect()` drops connection `c`;
    * once the connection is gone the table is exactly the other uncancelled requests, a reconnect
      starts iff there is one, and on the next connection (`s.nconn`) exactly those are written, each
      once, in issue order — the timed-out request is not among them;
    * a late reply to the timed-out request on the old connection is swallowed by the tombstone:
      nothing fires, nothing is reported, every other request stays in the table.
    Assumed: the link `L` (request `k` ↔ correlation id `L.cid k`, made on instance `L.bOf k = q.b`),
    and that no other call reaches this broker client between the `cancel` and the `disconnect` (the
    follow-up work of the failed request goes to other brokers); without that
    assumption: `C10_timeout_resends_any_interleaving`. -/
theorem C10_timeout_disconnect_resends (ccfg : Afkak.ClientNet.Cfg) (st : Afkak.ClientNet.St) (k : Nat)
    (q : Afkak.ClientNet.Req) (L : Afkak.Compose.Link) (cfg : Cfg) (host port : Nat) (evs : List Ev) (rq : Req) (c : Nat)
    (hq : Afkak.ClientNet.reqGet st k = some q) (hpend : q.pending = true) (hdis : ccfg.disconnectOnTimeout = true)
    (hb : L.bOf k = q.b)
    (hrq : rq ∈ (run cfg (St.init host port) evs).reqs) (hid : rq.id = L.cid k) (hlive : rq.cancelled = false)
    (hp : (run cfg (St.init host port) evs).proto = some c) (hlo : (run cfg (St.init host port) evs).losing = false)
    (hwf : (run cfg (St.init host port) evs).wfail = false) :
    let s := run cfg (St.init host port) evs
    let s1 := (step cfg s (.cancel rq.id)).1
    let s2 := (step cfg s1 .disconnect).1
    let s3 := (step cfg s2 .lost).1
    -- the client layer
    (Afkak.ClientNet.exec ccfg st (.timeoutFired k)).2.1 = [.bcCancel k, .fired k (some .cancelled)] ∧
    (∃ acts, (Afkak.ClientNet.exec ccfg st (.timeoutFired k)).2.2 = acts ++ [.disconnect q.b]) ∧
    Afkak.Compose.downFor L q.b (Afkak.ClientNet.exec ccfg st (.timeoutFired k)).2.1 = [.cancel rq.id] ∧
    (∀ st', Afkak.Compose.downFor L q.b (Afkak.ClientNet.exec ccfg st' (.disconnect q.b)).2.1 = [.disconnect]) ∧
    -- the broker client
    (step cfg s (.cancel rq.id)).2 = [.fire rq.serial rq.id (.err .cancelled)] ∧
    (step cfg s1 .disconnect).2 = [.lose c] ∧
    s3.reqs = Afkak.Compose.remaining s rq.id ∧
    (step cfg s2 .lost).2 = (if Afkak.Compose.remaining s rq.id = [] then [] else [.connect s.host s.port]) ∧
    (Afkak.Compose.remaining s rq.id ≠ [] →
      (step cfg s3 .connOk).2 = (Afkak.Compose.remaining s rq.id).map (fun r => .write s.nconn r.serial r.id)) ∧
    rq.serial ∉ (Afkak.Compose.remaining s rq.id).map (·.serial) ∧
    -- a late reply on the old connection
    (∀ chunk f, (feed s1.rbuf chunk).frames = [f] → (feed s1.rbuf chunk).exceeded = false → corrId f = some rq.id →
      (step cfg s1 (.bytesIn chunk)).2 = [] ∧
      (step cfg s1 (.bytesIn chunk)).1.reqs = s.reqs.filter (fun r => r.id != rq.id)) := by
  intro s s1 s2 s3
  have h : SInv s := sinv_run cfg (St.init host port) evs (sinv_init host port)
  obtain ⟨w1, acts, w2⟩ := Afkak.Compose.wrapper_timeout_calls ccfg st k q hq hpend
  obtain ⟨w3, _⟩ := Afkak.Compose.wrapper_timeout_downcalls L ccfg st st k q hq hpend hb
  obtain ⟨b1, b2, b3, b4, b5, b6⟩ := Afkak.Compose.timeout_disconnect_resends cfg s h rq c hrq hlive hp hlo hwf
  refine ⟨w1, ⟨acts, by rw [w2, hdis]; rfl⟩, by rw [w3, hid], ?_, b1, b2, b3, b4, b5, b6, ?_⟩
  · intro st'
    exact (Afkak.Compose.wrapper_timeout_downcalls L ccfg st st' k q hq hpend hb).2
  · intro chunk f
    exact Afkak.Compose.late_reply_swallowed cfg s h rq c hrq hlive hp hlo chunk f

/-- The same, without assuming anything about what else reaches the broker client after the wrapper's
    `cancel`: whatever events `mid` follow (the `disconnect`, the loss, further requests, failed
    attempts, …), if a connection attempt is pending at the end then what is written when it succeeds is
    exactly the table — every request made so far whose Deferred has not fired, in issue order — and
    the timed-out request, whose Deferred the cancel fired, is not in it. -/
theorem C10_timeout_resends_any_interleaving (cfg : Cfg) (host port : Nat) (evs mid : List Ev) (rq : Req)
    (hrq : rq ∈ (run cfg (St.init host port) evs).reqs) (hlive : rq.cancelled = false) :
    let evs' := evs ++ [.cancel rq.id] ++ mid
    let s' := run cfg (St.init host port) evs'
    s'.connector = .attempt →
      writes (step cfg s' .connOk).2 = (if s'.wfail then [] else s'.reqs.map fun r => (s'.nconn, r.serial, r.id, false)) ∧
      (∀ k, (∃ r ∈ s'.reqs, r.serial = k) ↔ (k < s'.nmake ∧ k ∉ Monitor.C06.firedOf (trace cfg (St.init host port) evs'))) ∧
      rq.serial ∈ Monitor.C06.firedOf (trace cfg (St.init host port) evs') ∧
      (∀ r ∈ s'.reqs, r.serial ≠ rq.serial) := by
  intro evs' s' hatt
  obtain ⟨h1, _, _, h4⟩ := C10_resend_exact cfg host port evs' hatt
  have hs : SInv (run cfg (St.init host port) evs) := sinv_run cfg _ evs (sinv_init host port)
  have hfired : rq.serial ∈ Monitor.C06.firedOf (trace cfg (St.init host port) evs') := by
    have hc := Afkak.Compose.cancel_fires_now cfg _ hs rq hrq hlive
    simp only [evs', Afkak.Compose.trace_append, Monitor.C06.firedOf, List.flatMap_append, List.mem_append]
    left; right
    simp only [trace, List.flatMap_cons, List.flatMap_nil, List.append_nil, hc]
    simp [Monitor.C06.fires]
  refine ⟨h1, h4, hfired, ?_⟩
  intro r hr he
  exact ((h4 rq.serial).mp ⟨r, hr, he⟩).2 hfired

/-! The hypotheses are satisfiable and the conclusion is not empty: three requests on a connection, the
second times out; the other two are written again on the next connection, a late reply is swallowed. -/
example : let s := run ⟨fun _ => 1⟩ (St.init 1 9092) [.make 1 true, .make 2 true, .make 3 true, .connOk]
    ({ serial := 1, id := 2, expect := true, sent := true, cancelled := false } : Req) ∈ s.reqs ∧
    s.proto = some 0 ∧ s.losing = false ∧ s.wfail = false ∧
    Afkak.Compose.remaining s 2 = [{ serial := 0, id := 1, expect := true, sent := false, cancelled := false },
                                  { serial := 2, id := 3, expect := true, sent := false, cancelled := false }] := by
  decide +kernel
example : ((trace ⟨fun _ => 1⟩ (St.init 1 9092)
      [.make 1 true, .make 2 true, .make 3 true, .connOk, .cancel 2, .disconnect, .lost, .connOk]).map (·.2)).drop 4 =
    [[.fire 1 2 (.err .cancelled)], [.lose 0], [.connect 1 9092], [.write 1 0 1, .write 1 2 3]] := by decide +kernel
/-! `C10_timeout_resends_any_interleaving` is not vacuous: with a further request made between the
wrapper's `cancel` and its `disconnect`, an attempt is pending after the loss, and requests 1, 3 and the
new one are written on the next connection. -/
example : (run ⟨fun _ => 1⟩ (St.init 1 9092)
      ([.make 1 true, .make 2 true, .make 3 true, .connOk] ++ [.cancel 2] ++ [.make 4 true, .disconnect, .lost])).connector
    = .attempt := by decide +kernel
example : (step ⟨fun _ => 1⟩ (run ⟨fun _ => 1⟩ (St.init 1 9092)
      ([.make 1 true, .make 2 true, .make 3 true, .connOk] ++ [.cancel 2] ++ [.make 4 true, .disconnect, .lost])) .connOk).2
    = [.write 1 0 1, .write 1 2 3, .write 1 3 4] := by decide +kernel
example : ∃ (st : Afkak.ClientNet.St) (q : Afkak.ClientNet.Req),
    Afkak.ClientNet.reqGet st 0 = some q ∧ q.pending = true ∧ q.b = 5 :=
  ⟨{ reqs := [{ k := 0, b := 5, issued := 0, due := 1, owner := .srtc 0 }] }, _, rfl, rfl, rfl⟩

/-- "Only on the next request": an idle client (no connection, no attempt, no timer, not closed — in any
    reachable state) starts a connection attempt on no event other than `makeRequest`. -/
theorem C10_idle_connects_only_on_make (cfg : Cfg) (host port : Nat) (evs : List Ev) (e : Ev)
    (he : ∀ id ex, e ≠ .make id ex) :
    let s := run cfg (St.init host port) evs
    s.proto = none → s.connector = .none → s.closed = false → connects (step cfg s e).2 = [] := by
  intro s hp hco hcl
  have h : SInv s := sinv_run cfg (St.init host port) evs (sinv_init host port)
  have hem : s.reqs = [] := h.idleEmpty hp hco hcl
  cases e with
  | make id ex => exact absurd rfl (he id ex)
  | cancel id => simp [step, hem, connects]
  | connOk => simp [step, hco, connects]
  | connFail => simp [step, hco, connects]
  | advance dt =>
    simp only [step, hco]
    split <;> simp [connects]
  | bytesIn chunk => simp [step, hp, connects]
  | lost => simp [step, hp, connects]
  | close =>
    simp only [step, hcl, hp, hco, hem, Bool.false_eq_true, if_false]
    simp [connects]
  | disconnect => simp [step, hp, connects]
  | updateMetadata a b => simp [step, connects]
  | writeFail b => simp [step, connects]

/-- Endpoints that answer `connect()` SYNCHRONOUSLY (`syncMode`; the transitions `dial` / `makeS` of
    `BrokerClientR.exec` are written out by hand because the outcome is delivered inside the call).  They are
    the flat attempt immediately followed by the flat `connFail` / `connOk`, state and observations:
    * a synchronous failure inside `tryConnect()` (after a drop, on the retry timer): failure count,
      delay `policy (failures + 1)` and due time are exactly those of `C10_backoff`;
    * a synchronous success inside `tryConnect()` when no callback is registered, on a table as every
      reachable disconnected state has it (ascending serials, nothing marked sent): `_sendQueued` writes
      exactly what `C10_resend_exact` says;
    * `makeRequest` on an idle client whose endpoint fails synchronously: the flat `make` followed by
      the flat `connFail` (first failure, `policy 1`).
    (`_connectionLost` with such an endpoint — task `lost` — is the flat `lostStep` up to the attempt and
    then `dial`; a synchronous success inside `makeRequest` — `makeS` — is `make` on the established
    connection.  With callbacks registered only the safety statement `C10_reentrant` is proved.) -/
theorem C10_sync_outcome_is_flat (cfg : Cfg) (n : Nat) (s : Afkak.BrokerClientR.StR) (hc : s.core.closed = false) :
    (s.sync = .fail →
      Afkak.BrokerClientR.exec cfg (n + 1) s .dial =
        ({ s with core := (step cfg (tryConnect s.core).1 .connFail).1 },
         Afkak.BrokerClientR.obs ((tryConnect s.core).2 ++ (step cfg (tryConnect s.core).1 .connFail).2))) ∧
    (s.sync = .ok → s.hooks = [] → s.core.reqs.Pairwise (fun a b => a.serial < b.serial) →
      (∀ r ∈ s.core.reqs, r.sent = false) → s.core.reqs.length + 3 ≤ n →
      Afkak.BrokerClientR.exec cfg (n + 1) s .dial =
        ({ s with core := (step cfg (tryConnect s.core).1 .connOk).1 },
         Afkak.BrokerClientR.obs ((tryConnect s.core).2 ++ (step cfg (tryConnect s.core).1 .connOk).2))) ∧
    (s.sync = .fail → s.core.proto = none → s.core.connector = .none →
      ∀ id ex, s.core.reqs.any (fun r => r.id == id) = false →
        (Afkak.BrokerClientR.exec cfg (n + 1) s (.makeS id ex none)).1.core = (step cfg (step cfg s.core (.make id ex)).1 .connFail).1 ∧
        Afkak.BrokerClientR.plain (Afkak.BrokerClientR.exec cfg (n + 1) s (.makeS id ex none)).2
          = (step cfg s.core (.make id ex)).2 ++ (step cfg (step cfg s.core (.make id ex)).1 .connFail).2) :=
  ⟨fun hsy => Afkak.BrokerClientR.dial_fail_is_flat cfg n s hc hsy,
   fun hsy hh hpw hun hn => Afkak.BrokerClientR.dial_ok_is_flat cfg n s hh hc hsy hpw hun hn,
   fun hsy hp hco id ex hd => Afkak.BrokerClientR.makeS_fail_is_flat cfg n s id ex hc hp hco hd hsy⟩

/-- C10 with RE-ENTRANT callbacks, unconditionally (formerly the open statement): for every
    configuration and every event list of the re-entrant model, from some amount of fuel on the
    stream monitor `r10` accepts the trace — whatever the callbacks do, with the endpoint that connects
    from inside `cancel()` and with endpoints that answer `connect()` synchronously (`syncMode`): once a `close()` has gone ahead
    no connection attempt, timer or write follows; no request is written twice on one connection; a
    request whose Deferred has fired is never written afterwards; `down` is reported at most once and
    only after `close()`.  (`fuel_suffices`: the interpreter terminates; `C10_reentrant_partial`.) -/
theorem C10_reentrant (cfg : Cfg) (host port : Nat) (evs : List Afkak.BrokerClientR.EvR) :
    ∃ N, ∀ fuel, N ≤ fuel →
      r10 (Afkak.BrokerClientR.traceRWith cfg fuel (Afkak.BrokerClientR.StR.init host port) evs) = true := by
  obtain ⟨N, hN⟩ := Afkak.BrokerClientR.fuel_suffices cfg evs (Afkak.BrokerClientR.StR.init host port)
  exact ⟨N, fun fuel hf => C10_reentrant_partial cfg fuel host port evs (hN fuel hf)⟩

/-- C10 with RE-ENTRANT callbacks, WITHOUT any fuel qualifier: the fuel-free run `traceRω` of the re-entrant model
    (every step run with the fuel it needs, `AfkakProofs/BrokerClient/FuelFree.lean`; every fuel-indexed run with
    enough fuel IS this run, `C06_reentrant_fuel_free`) is accepted by the stream monitor `r10`, for every
    configuration and every event list: once a `close()` has gone ahead no connection attempt, timer or write follows;
    no request is written twice on one connection; a request whose Deferred has fired is never written afterwards;
    `down` is reported at most once and only after `close()`. -/
theorem C10_reentrant_fuel_free (cfg : Cfg) (host port : Nat) (evs : List Afkak.BrokerClientR.EvR) :
    r10 (Afkak.BrokerClientR.traceRω cfg (Afkak.BrokerClientR.StR.init host port) evs) = true :=
  Afkak.BrokerClientR.r10_ω cfg host port evs

/-- The same for the function the DRIVER executes (`stepR`, fuel 100000): when the driver's fuel covers the explicit
    per-step bound along the run (`fuelOk`, decidable), its run is the fuel-free run and `r10` accepts it. -/
theorem C10_reentrant_driver (cfg : Cfg) (host port : Nat) (evs : List Afkak.BrokerClientR.EvR)
    (hok : Afkak.BrokerClientR.fuelOk cfg Afkak.BrokerClientR.fuel (Afkak.BrokerClientR.StR.init host port) evs = true) :
    r10 (Afkak.BrokerClientR.traceR cfg (Afkak.BrokerClientR.StR.init host port) evs) = true := by
  have e : Afkak.BrokerClientR.traceR cfg (Afkak.BrokerClientR.StR.init host port) evs
      = Afkak.BrokerClientR.traceRω cfg (Afkak.BrokerClientR.StR.init host port) evs := by
    rw [Afkak.BrokerClientR.traceR_eq_with]
    exact (Afkak.BrokerClientR.of_fuelOk cfg _ evs _ hok).1
  rw [e]; exact Afkak.BrokerClientR.r10_ω cfg host port evs

example : Afkak.BrokerClientR.fuelOk ⟨fun _ => 1⟩ 73 (Afkak.BrokerClientR.StR.init 1 9092)
      [.make 1 false (some [.cancel 2, .close]), .make 2 false none, .make 3 true (some [.make 4 true]), .flat .connOk,
       .flat .lost] = true := by decide +kernel

/-! The hypothesis of `C10_reentrant_partial` is satisfiable, with nested callbacks at work: the callback
of request 1 closes the client from inside `_sendQueued`; the close fires request 3, whose callback
makes a request on the closed client.  Fuel 20 suffices. -/
example : ∀ t ∈ Afkak.BrokerClientR.traceRWith ⟨fun _ => 1⟩ 20 (Afkak.BrokerClientR.StR.init 1 9092)
      [.make 1 false (some [.cancel 2, .close]), .make 2 false none, .make 3 true (some [.make 4 true]), .flat .connOk,
       .flat .lost],
    Afkak.BrokerClientR.ObR.fuelOut ∉ t.2 := by decide +kernel
example : ((Afkak.BrokerClientR.traceRWith ⟨fun _ => 1⟩ 20 (Afkak.BrokerClientR.StR.init 1 9092)
      [.make 1 false (some [.cancel 2, .close]), .make 2 false none, .make 3 true (some [.make 4 true]), .flat .connOk,
       .flat .lost]).map (·.2)) =
    [[.ob (.connect 1 9092), .made 0 1], [.made 1 2], [.made 2 3],
     [.ob (.write 0 0 1), .ob (.fire 0 1 .none), .hookBegin 0, .ob (.fire 1 2 (.err .cancelled)),
      .closing, .ob (.lose 0), .ob (.fire 2 3 (.err .clientError)), .hookBegin 2, .made 3 4,
      .ob (.fire 3 4 (.err .clientError)), .hookEnd, .hookEnd],
     [.ob .down]] := by decide +kernel


/-! ## Every outstanding request can still be answered, and none is silently dropped -/

/-- "Once a connection succeeds and the broker answers, every outstanding request is answered", for a connection that is
    readable and at a frame boundary, in ANY state satisfying the invariant: one reply frame per table entry (`reply id`:
    any packet that carries the id and that a Kafka size can announce), in table order, empties the table, and fires
    exactly the uncancelled entries, each with its own reply, in that order (the late reply to a cancelled request only
    removes its tombstone). -/
theorem C10_answered_when_connected (cfg : Cfg) (reply : Int → Bytes) (s : St) (c : Nat) (hs : SInv s)
    (hp : s.proto = some c) (hl : s.losing = false) (hb : s.rbuf = []) (hg : ∀ r ∈ s.reqs, GoodReply reply r.id) :
    run cfg s (replies reply s.reqs) = { s with reqs := [] } ∧
    obs cfg s (replies reply s.reqs)
      = (s.reqs.filter (fun r => !r.cancelled)).map (fun r => .fire r.serial r.id (.ok (reply r.id))) :=
  replies_run cfg reply c s.reqs s rfl hs.ids hp hl hb hg

/-- Liveness as a bounded continuation: after ANY event list (any number of drops, connect failures, back-offs,
    cancellations, new requests, write failures, partial frames, over-long prefixes, `disconnect()`) that leaves the client
    open, the explicit continuation `rescue` — the transport's write works, a connection that exists goes away, a pending
    back-off timer runs down, the connection attempt succeeds, and the broker sends one reply frame per request that expects
    one — ends with an EMPTY table, the client still open, and every request that was outstanding (in the table, not
    cancelled) ANSWERED: `ok (reply id)` if it expects a reply, `None` on being written if it does not.  With
    `C06_exactly_once` (handed out = fired ⊎ in the table uncancelled) every Deferred handed out has then fired. -/
theorem C10_eventually_answered (cfg : Cfg) (host port : Nat) (evs : List Ev) (reply : Int → Bytes) :
    let s := run cfg (St.init host port) evs
    s.closed = false → (∀ r ∈ s.reqs, GoodReply reply r.id) →
    (run cfg s (rescue cfg reply s)).reqs = [] ∧ (run cfg s (rescue cfg reply s)).closed = false ∧
    ∀ r ∈ s.reqs, r.cancelled = false →
      (r.expect = true → Ob.fire r.serial r.id (.ok (reply r.id)) ∈ obs cfg s (rescue cfg reply s)) ∧
      (r.expect = false → Ob.fire r.serial r.id .none ∈ obs cfg s (rescue cfg reply s)) := by
  intro s hc hg
  exact rescue_answers cfg reply s (sinv_run cfg (St.init host port) evs (sinv_init host port)) hc hg

/-- non-vacuity: requests 5 (reply expected) and 6 (none) made; connection 0 lost inside the reply to 5; the next attempt
    fails and the client is backing off.  `rescue` = write works, the timer runs down, the attempt succeeds, one reply. -/
example :
    let reply : Int → Bytes := fun i => if i = 5 then [0, 0, 0, 5, 7] else [0, 0, 0, 6]
    let s := run ⟨fun _ => 2⟩ (St.init 1 9092)
      [.make 5 true, .connOk, .make 6 true, .cancel 6, .bytesIn [0, 0, 0, 5, 0, 0], .lost, .make 7 false, .connFail]
    s.closed = false ∧ s.reqs.map (·.id) = [5, 7] ∧
    rescue ⟨fun _ => 2⟩ reply s = [.writeFail false, .advance 2, .connOk, .bytesIn [0, 0, 0, 5, 0, 0, 0, 5, 7]] ∧
    obs ⟨fun _ => 2⟩ s (rescue ⟨fun _ => 2⟩ reply s)
      = [.connect 1 9092, .write 1 0 5, .write 1 2 7, .fire 2 7 .none, .fire 0 5 (.ok [0, 0, 0, 5, 7])] := by
  decide +kernel
example : GoodReply (fun i => if i = 5 then [0, 0, 0, 5, 7] else [0, 0, 0, 6]) 5 := by
  constructor <;> decide +kernel

/-- … consequently, after that continuation EVERY Deferred handed out so far has fired (each exactly once, by
    `C06_at_most_once`): nothing the caller ever received from `makeRequest` is left hanging. -/
theorem C10_eventually_all_fired (cfg : Cfg) (host port : Nat) (evs : List Ev) (reply : Int → Bytes)
    (hc : (run cfg (St.init host port) evs).closed = false)
    (hg : ∀ r ∈ (run cfg (St.init host port) evs).reqs, GoodReply reply r.id) :
    ∀ k, k < (run cfg (St.init host port) evs).nmake →
      k ∈ Afkak.Monitor.C06.firedOf
        (trace cfg (St.init host port) (evs ++ rescue cfg reply (run cfg (St.init host port) evs))) :=
  rescue_all_fired cfg host port evs reply hc hg


/-- … and that is the ONLY way out of the table: in ANY state, for ANY event, a request that is in the table and not
    cancelled is still there afterwards (same serial, id, reply flag; not cancelled) — or its Deferred fired in that very
    step.  No request is silently dropped. -/
theorem C10_never_silently_dropped (cfg : Cfg) (s : St) (e : Ev) (r : Req) (hr : r ∈ s.reqs) (hc : r.cancelled = false) :
    (∃ r' ∈ (step cfg s e).1.reqs, r'.serial = r.serial ∧ r'.id = r.id ∧ r'.expect = r.expect ∧ r'.cancelled = false) ∨
    (∃ res, Ob.fire r.serial r.id res ∈ (step cfg s e).2) :=
  never_dropped cfg s e r hr hc


/-- The Deferred returned by `close()` (`_dDown`), in EVERY state `close()` can be called in (connected, connecting, backing
    off, idle) and whatever follows: over any event list the number of times it has fired is 1 if the client is closed
    and has no connection, 0 otherwise — so it fires exactly once, at the moment the client is both closed and
    disconnected (at once when `close()` finds no connection, else when the dropped connection is reported lost), never
    before `close()` and never again. -/
theorem C10_down_exactly_once (cfg : Cfg) (host port : Nat) (evs : List Ev) :
    downs (obs cfg (St.init host port) evs)
      = if (run cfg (St.init host port) evs).closed && (run cfg (St.init host port) evs).proto.isNone then 1 else 0 := by
  have h := down_run cfg evs (St.init host port) (sinv_init host port)
  have h0 : isDown (St.init host port) = 0 := by simp [isDown, St.init]
  rw [h0] at h
  simpa [isDown] using h

example : downs (obs ⟨fun _ => 1⟩ (St.init 1 9092) [.make 5 true, .connOk, .close, .make 6 true]) = 0 ∧
    downs (obs ⟨fun _ => 1⟩ (St.init 1 9092) [.make 5 true, .connOk, .close, .make 6 true, .lost, .lost, .connOk]) = 1 ∧
    downs (obs ⟨fun _ => 1⟩ (St.init 1 9092) [.make 5 true, .connFail, .close, .advance 5]) = 1 := by decide +kernel


/-- `disconnect()` in EVERY state.  Not connected (idle, connecting, backing off, closed and down): nothing happens at
    all — in particular a pending attempt or back-off timer is left alone.  Connected (reading, already told to go, or
    closing): `loseConnection()` on the transport and nothing else — no Deferred fires, the table, the connector, the
    failure count are untouched; what the loss of that connection then does is `C10_reconnect_iff` / `C10_resend_exact`. -/
theorem C10_disconnect_every_state (cfg : Cfg) (s : St) :
    (s.proto = none → step cfg s .disconnect = (s, [])) ∧
    (∀ c, s.proto = some c → step cfg s .disconnect = ({ s with losing := true }, [.lose c])) := by
  constructor
  · intro h; simp [step, h]
  · intro c h; simp [step, h]

/-- `updateMetadata()` in EVERY state: no observation, nothing changes but the address held — an existing connection is
    not dropped, an attempt in flight is not redirected, a running back-off timer is not touched — and whenever the
    client dials afterwards (any event, any state) it dials the address it holds at that moment, i.e. the one last
    announced. -/
theorem C10_updateMetadata_every_state (cfg : Cfg) (s : St) (host port : Nat) :
    step cfg s (.updateMetadata host port) = ({ s with host := host, port := port }, []) ∧
    ∀ (t : St) (e : Ev) (a b : Nat), Ob.connect a b ∈ (step cfg t e).2 → a = t.host ∧ b = t.port :=
  ⟨rfl, fun t e a b h => connect_addr cfg t e a b h⟩

example : (trace ⟨fun _ => 1⟩ (St.init 1 9092)
      [.make 5 true, .updateMetadata 2 9093, .connFail, .updateMetadata 3 9094, .disconnect, .advance 1, .connOk,
       .updateMetadata 4 9095, .disconnect, .lost]).map (·.2) =
    [[.connect 1 9092], [], [.setTimer 1], [], [], [.connect 3 9094], [.write 0 0 5], [], [.lose 0], [.connect 4 9095]] := by
  decide +kernel


/-! OBSERVED BEHAVIOUR with re-entrant callbacks (audit round 2, C10-1; reproduced on the real class by
`/tmp/audit2/brokerclient/queuejump.py`): when a connection comes up `_sendQueued` fires the Deferred of a request that
expects no reply in the middle of its loop; a `makeRequest` made from that callback finds `self.proto` set and is written
AT ONCE, ahead of older requests still waiting in the queue.  Issue order 1 (no reply; its callback makes 4), 2, 3 — wire
order 1, 4, 2, 3.  The requests overtaken are being sent for the first time on this connection in table order among
themselves (a request that fires in the loop and was sent before can only be one whose write failed), so "re-sent in the
order originally issued" is not contradicted; but `C10_resend_exact` ("what is written is exactly the table, in table order")
is a statement about runs WITHOUT callbacks and does NOT extend to runs with them.  `r10` accepts this run. -/
example : ((Afkak.BrokerClientR.traceR ⟨fun _ => 1⟩ (Afkak.BrokerClientR.StR.init 1 9092)
      [.make 1 false (some [.make 4 true]), .make 2 true none, .make 3 true none, .flat .connOk]).map (·.2)) =
    [[.ob (.connect 1 9092), .made 0 1], [.made 1 2], [.made 2 3],
     [.ob (.write 0 0 1), .ob (.fire 0 1 .none), .hookBegin 0, .ob (.write 0 3 4), .made 3 4, .hookEnd,
      .ob (.write 0 1 2), .ob (.write 0 2 3)]] := by decide +kernel


/-- What IS proved about the writes of the step that brings a connection up, with re-entrant callbacks (audit round 2,
    C10-1, third clause): in ANY state of the re-entrant model, with any fuel, every request written during a `connOk`
    step — by `_sendQueued` itself or by callbacks nested to any depth — is a request that was in the table when the
    connection came up, or one made during the step (its serial is at least the serial counter at that moment): nothing
    that had left the table (answered, cancelled before being sent, fired) is written, and the only requests that can
    overtake the queue are new ones.  With `C10_reentrant` (once per connection, never after firing) each is written at
    most once.  NOT proved: that the table members are written in table order (they are: `sendLoop` walks the snapshot). -/
theorem C10_reentrant_connect_writes (cfg : Cfg) (fuel : Nat) (s : Afkak.BrokerClientR.StR) (conn k : Nat) (id : Int)
    (h : Afkak.BrokerClientR.ObR.ob (.write conn k id) ∈ (Afkak.BrokerClientR.stepRWith cfg fuel s (.flat .connOk)).2 ∨
         Afkak.BrokerClientR.ObR.ob (.writeLost conn k id) ∈ (Afkak.BrokerClientR.stepRWith cfg fuel s (.flat .connOk)).2) :
    (∃ r ∈ s.core.reqs, r.serial = k) ∨ s.core.nmake ≤ k := by
  rcases h with h | h
  · exact Afkak.BrokerClientR.connOk_writes cfg fuel s _ k h ⟨conn, id, Or.inl rfl⟩
  · exact Afkak.BrokerClientR.connOk_writes cfg fuel s _ k h ⟨conn, id, Or.inr rfl⟩

end Afkak.Props.C10

/- OBLIGATIONS
C10_monitor_sound
C10_once_per_conn_of_accepted
C10_once_per_conn
C10_never_resent
C10_resend_exact
C10_reconnect_iff
C10_backoff
C10_closed_quiet
C10_close
C10_reentrant_partial
C10_timeout_disconnect_resends
C10_timeout_resends_any_interleaving
C10_idle_connects_only_on_make
C10_sync_outcome_is_flat
C10_reentrant
C10_reentrant_fuel_free
C10_reentrant_driver
C10_answered_when_connected
C10_eventually_answered
C10_eventually_all_fired
C10_never_silently_dropped
C10_down_exactly_once
C10_disconnect_every_state
C10_updateMetadata_every_state
C10_reentrant_connect_writes
-/
/- OPEN_STATEMENTS
-/
