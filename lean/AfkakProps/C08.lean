import Afkak.ClientCache
import Afkak.Monitor.C08
import AfkakProofs.Client.Merge
import AfkakProofs.Client.Route
import AfkakProofs.Client.A_Reload
import AfkakProofs.Client.A_Recover
import AfkakProofs.Client.A_Kept
import AfkakProofs.Client.A_Wf
import AfkakProofs.Client.A_Rk
import AfkakProofs.Client.A5_Query
import AfkakProofs.Client.A5_Covered
import AfkakProofs.Client.A5_Coalesce
import AfkakProps.Open.C08
/-!
# C08 — cached cluster metadata mirrors the broker's answer and self-heals when stale
Property theorems only; helper lemmas live in `AfkakProofs/Client/`.
-/
namespace Afkak.Props.C08
open Afkak.ClientCache Afkak.Monitor.C08 Afkak.Consts

/-- After each metadata response the cache equals what the response said: this is the monitor
    `mirrorOk` that is evaluated on the real client's dictionaries — every listed broker is known at
    the response's address (and live broker clients are told), every covered topic has the response's
    error, sorted partition list and leader per partition and no other routing entry, every other
    topic (and every group) is untouched, and broker clients missing from a full, non-empty refresh —
    and only those — are closed.  Holds from every well-formed cache; well-formedness is preserved. -/
theorem C08_mirror (c : Cache) (hw : CWf c) (hk : BrokersKeyed c) (bs : List Broker) (ts : List TopicMeta)
    (fetchedAll : Bool) :
    mirrorOk c (mergeTopicMetadata c bs ts fetchedAll).1 bs ts fetchedAll (mergeTopicMetadata c bs ts fetchedAll).2 = true ∧
    CWf (mergeTopicMetadata c bs ts fetchedAll).1 ∧ BrokersKeyed (mergeTopicMetadata c bs ts fetchedAll).1 :=
  mergeTopicMetadata_mirror hw hk bs ts fetchedAll

/-- Connections to brokers missing from a full refresh are closed — and no others, and none on a partial
    or empty refresh. -/
theorem C08_close_missing (c : Cache) (hw : CWf c) (hk : BrokersKeyed c) (bs : List Broker) (ts : List TopicMeta)
    (fetchedAll : Bool) :
    closesMissing c (mergeTopicMetadata c bs ts fetchedAll).1 bs fetchedAll (mergeTopicMetadata c bs ts fetchedAll).2 = true := by
  have h := (mergeTopicMetadata_mirror hw hk bs ts fetchedAll).1
  simp only [mirrorOk, Bool.and_eq_true] at h
  exact h.2

/-- A not-leader / unknown-topic-or-partition answer invalidates the topic's routing and a coordinator
    error the group's, whatever `fail_on_error` is, for EVERY response of the list handed to
    `_handle_responses` - also for the ones behind the first error that `fail_on_error=True` raises (fix
    55f24eb, read from the source); invalid stays invalid through the rest of the pass; and an
    invalidated key makes the next resolution fail over to a metadata reload (`leaderOf` has no entry). -/
theorem C08_invalidate (c : Cache) (hw : CWf c) (foe : Bool) (g : String) (rs : List (String × Int)) :
    invalidateOk (handleResponses c foe (some g) rs).1 (some g) rs = true ∧
    CWf (handleResponses c foe (some g) rs).1 ∧
    (∀ t p i, topicInvalid c t = true → leaderOf c i (t, p) = .error (.partitionUnavailable i)) := by
  obtain ⟨_, _, h3, h4⟩ := handleResponses_spec foe g rs c hw
  refine ⟨h4, h3, ?_⟩
  intro t p i hinv
  simp only [topicInvalid, Bool.and_eq_true, Bool.not_eq_eq_eq_not, Bool.not_true, List.isEmpty_iff] at hinv
  have hnone : get? (t, p) c.t2b = none := by
    rw [get?_eq_none_iff, Bool.eq_false_iff]
    intro hh
    obtain ⟨v, hv⟩ := hasKey_iff.mp hh
    have : ((t, p), v) ∈ t2bOf c t := List.mem_filter.mpr ⟨hv, by simp⟩
    rw [hinv.1.2] at this; cases this
  simp [leaderOf, hnone]

/-- The main path - produce, fetch and offset requests carry NO group: every not-leader /
    unknown-topic-or-partition answer of the list invalidates its topic's routing, for both values of
    `fail_on_error` and also behind the first error raised (fix 55f24eb), and the cache stays well formed.
    (Side condition: no answer carries a coordinator error code - with `consumer_group=None` that makes
    `reset_consumer_group_metadata(None)` raise `TypeError` at once, and brokers do not answer so.) -/
theorem C08_invalidate_no_group (c : Cache) (hw : CWf c) (foe : Bool) (rs : List (String × Int))
    (hg : ∀ r ∈ rs, clientGroupResetErrnos.contains r.2 = false) :
    invalidateOk (handleResponses c foe none rs).1 none rs = true ∧ CWf (handleResponses c foe none rs).1 ∧
    (∀ t, topicInvalid c t = true → topicInvalid (handleResponses c foe none rs).1 t = true) := by
  obtain ⟨h1, h2, h3⟩ := handleResponses_none_spec foe rs c hw hg
  exact ⟨h3, h2, h1⟩

/-- A failed send (`FailedPayloadsError`) leaves no routing at all (`reset_all_metadata`). -/
theorem C08_failed_send_invalidates (c : Cache) : allInvalid (resetAll c) = true := by
  simp [allInvalid, resetAll]

/-- With `fail_on_error=False` no broker error code is ever raised to the caller (after the fix of F7:
    the catch-all handler is read from the source), so every response reaches the caller. -/
theorem C08_fail_on_error_false_never_raises (c : Cache) (g : String) (rs : List (String × Int)) :
    (handleResponses c false (some g) rs).2 = none := by
  induction rs generalizing c with
  | nil => rfl
  | cons r rs ih =>
    obtain ⟨t, e⟩ := r
    simp only [handleResponses, Bool.false_eq_true, if_false, Bool.false_or, clientHandleCatchAll, Bool.not_true]
    split
    · exact ih c
    · split
      · exact ih _
      · split
        · exact ih _
        · exact ih c

/-- `updateMetadata` takes effect on the next connect: after a response, every live broker client of a
    listed broker holds the address the response gave (the address its next connection attempt dials). -/
theorem C08_updateMetadata_next_connect (c : Cache) (hw : CWf c) (hk : BrokersKeyed c) (bs : List Broker)
    (ts : List TopicMeta) (fetchedAll : Bool) :
    ∀ e ∈ respBrokers bs, ∀ a, get? e.1 (mergeTopicMetadata c bs ts fetchedAll).1.clients = some a → a = e.2 := by
  intro e he a ha
  have h := (mergeTopicMetadata_mirror hw hk bs ts fetchedAll).1
  simp only [mirrorOk, Bool.and_eq_true, brokersMirror, List.all_eq_true, beq_iff_eq] at h
  have := (h.1.1.1 e he).2
  rw [ha] at this
  simpa using this

/-- Weak form of recovery: after the routing of a topic was invalidated, a refresh that names a listed
    broker `b` as leader of a partition makes the next route of that partition go to `b`. -/
theorem C08_recovers_step (c : Cache) (hw : CWf c) (hk : BrokersKeyed c) (bs : List Broker) (tm : TopicMeta)
    (pm : PartMeta) (b : Broker)
    (hbs : (bs.map (·.nodeId)).Nodup) (hb : b ∈ bs) (hparts : (tm.parts.map (·.part)).Nodup) (hpm : pm ∈ tm.parts)
    (hl : pm.leader = b.nodeId) (hl1 : pm.leader ≠ -1) :
    route (mergeTopicMetadata (resetTopic c tm.name) bs [tm] false).1 [(tm.name, pm.part)] none
      = .ok [(b.nodeId, [0])] := by
  have hw' := resetTopic_wf hw tm.name
  have hk' : BrokersKeyed (resetTopic c tm.name) := hk
  obtain ⟨hm, _, _⟩ := mergeTopicMetadata_mirror hw' hk' bs [tm] false
  generalize (mergeTopicMetadata (resetTopic c tm.name) bs [tm] false) = r at hm
  simp only [mirrorOk, Bool.and_eq_true] at hm
  obtain ⟨⟨⟨hbm, htm⟩, _⟩, _⟩ := hm
  -- the response's dicts are the lists themselves (unique keys)
  have hbd : (b.nodeId, b) ∈ respBrokers bs := by
    have : respBrokers bs = bs.map (fun b => (b.nodeId, b)) := by
      simp only [respBrokers, dictOfList]
      have := foldl_upsert_fresh (fun e : Int × Broker => e) (bs.map (fun b => (b.nodeId, b))) [] (by simpa [List.map_map, Function.comp_def] using hbs) (by simp [hasKey])
      simpa [Function.comp_def] using this
    rw [this]; exact List.mem_map.mpr ⟨b, hb, rfl⟩
  have hpd : (pm.part, pm) ∈ respParts tm := by
    have : respParts tm = tm.parts.map (fun p => (p.part, p)) := by
      simp only [respParts, dictOfList]
      have := foldl_upsert_fresh (fun e : Int × PartMeta => e) (tm.parts.map (fun p => (p.part, p))) [] (by simpa [List.map_map, Function.comp_def] using hparts) (by simp [hasKey])
      simpa [Function.comp_def] using this
    rw [this]; exact List.mem_map.mpr ⟨pm, hpm, rfl⟩
  have htd : (tm.name, tm) ∈ respTopics [tm] := by simp [respTopics, dictOfList, upsert, hasKey]
  have hbr : get? b.nodeId r.1.brokers = some b := by
    have := List.all_eq_true.mp hbm _ hbd
    simp only [Bool.and_eq_true, beq_iff_eq] at this
    exact this.1
  have htmm := List.all_eq_true.mp htm _ htd
  simp only [topicMirror, Bool.and_eq_true] at htmm
  have hne : (respParts tm).isEmpty = false := by
    cases hrp : respParts tm with
    | nil => rw [hrp] at hpd; cases hpd
    | cons _ _ => rfl
  simp only [hne, Bool.false_eq_true, if_false, Bool.and_eq_true] at htmm
  have hlm := List.all_eq_true.mp htmm.2.1.2 _ hpd
  simp only [leaderMirror] at hlm
  have hkey : get? (tm.name, pm.part) r.1.t2b = some (some b) := by
    cases hg : get? (tm.name, pm.part) r.1.t2b with
    | none => rw [hg] at hlm; cases hlm
    | some v =>
      cases v with
      | none =>
        rw [hg] at hlm
        have hhas : hasKey pm.leader r.1.brokers = true := by rw [← get?_isSome, hl, hbr]; rfl
        simp [hhas, hl1] at hlm
      | some b' =>
        rw [hg] at hlm
        simp only [Bool.and_eq_true, beq_iff_eq, bne_iff_ne] at hlm
        rw [hl, hbr] at hlm
        rw [Option.some.inj hlm.2]
  simp [route, resolveAll, leaderOf, hkey, Except.map, groupByNode, dedup]

/-- Every operation on the cache preserves the well-formedness the theorems above assume, so they apply
    after any history of responses, resets and coordinator updates (the empty cache is well-formed). -/
theorem C08_wf_reachable :
    CWf {} ∧ BrokersKeyed {} ∧
    (∀ c bs ts a, CWf c → BrokersKeyed c → CWf (mergeTopicMetadata c bs ts a).1 ∧ BrokersKeyed (mergeTopicMetadata c bs ts a).1) ∧
    (∀ c t, CWf c → CWf (resetTopic c t)) ∧ (∀ c g, CWf c → CWf (resetGroup c g)) ∧
    (∀ c foe g rs, CWf c → CWf (handleResponses c foe (some g) rs).1) := by
  refine ⟨CWf.empty, (fun e he => by cases he), ?_, fun c t h => resetTopic_wf h t, fun c g h => resetGroup_wf h g, ?_⟩
  · intro c bs ts a hw hk
    exact (mergeTopicMetadata_mirror hw hk bs ts a).2
  · intro c foe g rs hw
    exact (handleResponses_spec foe g rs c hw).2.2.1

/-- **Coroutine level of the second sentence** (was an open statement): in EVERY reachable state of the client
    model (any event list, no hypothesis on the run), once a topic's routing is invalid the step of the next send
    of a key of that topic hands NO payload request to any broker client: `_send_broker_aware_request` first starts
    a metadata load for the topic (`load_metadata_for_topics`, through the broker-unaware path), and every
    continuation that can run inside the same step (the load failing synchronously: client closing, no broker client,
    every bootstrap host exhausted) ends with the send failing, never with `issueSlot`.  Proof: ids of sends and
    broker-unaware requests are positions in every reachable state (`reachable_ids`), and a stack invariant over
    the action interpreter (`AfkakProofs/Client/A_Reload.lean`). -/
theorem C08_invalidated_topic_reloads_before_send : Open.C08_invalidated_topic_reloads_before_send := by
  intro cfg evs key o env st hinv _ _ ob hob
  have hids : Afkak.ClientNet.Ids st := Afkak.ClientNet.reachable_ids cfg evs {} Afkak.ClientNet.Ids.init
  have h := Afkak.ClientNet.send_invalid_no_payload cfg st env key o true true hids
    (Afkak.ClientNet.topicInvalid_noRoute hinv) ob hob
  cases ob <;> try trivial
  case mk k b e w => cases w <;> simp_all [Afkak.ClientNet.Ob.isPay]

/-! Non-vacuity of `C08_invalidated_topic_reloads_before_send`: after a metadata load, a produce to t/0 answered
    NotLeader (6) leaves the topic invalid in a state that is not closing, and the next send issues a METADATA
    request (to the connected broker), no payload request. -/
example :
    let cfg : Afkak.ClientNet.Cfg := { timeout := 10, disconnectOnTimeout := false, bootHosts := [("boot", 9092)] }
    let evs : List (Afkak.ClientNet.Env × Afkak.ClientNet.Ev) :=
      [({ shuffles := [[], [0]] }, .load 0 []), ({}, .bootOk 0),
       ({}, .bootReply 0 (.metadata [⟨1, "h1", 9092⟩] [⟨"t", 0, [⟨0, 0, 1⟩]⟩])),
       ({}, .send 1 [("t", 0)] none true true),
       ({}, .fire 0 (.ok (.items [(("t", 0), 6, 0)])))]
    let st := evs.foldl (fun s e => (Afkak.ClientNet.step cfg s e.1 e.2).1) ({} : Afkak.ClientNet.St)
    topicInvalid st.cache "t" = true ∧ st.closing = false ∧ 2 ∉ st.liveOps ∧
    ((Afkak.ClientNet.step cfg st { shuffles := [[0]] } (.send 2 [("t", 0)] none true true)).2.any
      (fun ob => match ob with | .mk _ _ _ (.metadata _) => true | _ => false)) = true := by
  decide +kernel

/-- **The client never forgets a broker it has learned**: under EVERY event of the client model (API calls, replies,
    failures, timeouts, `close()`, resets - any state, any environment answers) every broker known before the step is
    still known after it (`_brokers` is only added to or overwritten): the monitor `brokersKept` that is evaluated on
    every pair of consecutive dumps of the real client.  The known brokers are what a broker-agnostic request - the
    metadata reload that heals stale routing - is tried on before the bootstrap hosts (which may be gone by then).
    Kernel level: the same for the cache operations the direct histories drive. -/
theorem C08_brokers_never_forgotten :
    (∀ (cfg : Afkak.ClientNet.Cfg) (st : Afkak.ClientNet.St) (env : Afkak.ClientNet.Env) (e : Afkak.ClientNet.Ev),
      brokersKept st.cache (Afkak.ClientNet.step cfg st env e).1.cache = true) ∧
    (∀ (c : Cache) bs ts a n, hasKey n c.brokers = true → hasKey n (mergeTopicMetadata c bs ts a).1.brokers = true) ∧
    (∀ (c : Cache) foe g rs, (handleResponses c foe g rs).1.brokers = c.brokers) ∧
    (∀ c : Cache, (resetAll c).brokers = c.brokers) ∧ (∀ (c : Cache) ts, (resetTopics c ts).brokers = c.brokers) ∧
    (∀ (c : Cache) g, (resetGroup c g).brokers = c.brokers) := by
  refine ⟨fun cfg st env e => Afkak.ClientNet.brokersKept_of_bsub (Afkak.ClientNet.step_bsub cfg st env e), ?_,
    fun c foe g rs => Afkak.ClientNet.handleResponses_brokers foe g rs c, fun _ => rfl,
    fun c ts => Afkak.ClientNet.resetTopics_brokers ts c, fun _ _ => rfl⟩
  intro c bs ts a n hn
  simp only [mergeTopicMetadata]
  rw [Afkak.ClientNet.foldl_mergeTopic_brokers]
  exact Afkak.ClientNet.updateBrokersDict_mono _ _ _ hn

/-- **The kernel theorems apply wherever the coroutine merges**: every reachable state of the client model (any
    event list: API calls, replies, failures, timeouts, close, resets) has a well-formed cache (`CWf`: unique keys,
    every routing entry listed for its topic; `BrokersKeyed`) - the hypothesis of `C08_mirror`, `C08_close_missing`,
    `C08_invalidate`, `C08_updateMetadata_next_connect`, `C08_recovers_step` - so a metadata response merged into the
    cache of ANY reachable state satisfies the mirror monitor. -/
theorem C08_reachable_cache_wf (cfg : Afkak.ClientNet.Cfg) (evs : List (Afkak.ClientNet.Env × Afkak.ClientNet.Ev)) :
    let st := evs.foldl (fun s e => (Afkak.ClientNet.step cfg s e.1 e.2).1) ({} : Afkak.ClientNet.St)
    CWf st.cache ∧ BrokersKeyed st.cache ∧
    ∀ bs ts fetchedAll, mirrorOk st.cache (mergeTopicMetadata st.cache bs ts fetchedAll).1 bs ts fetchedAll
      (mergeTopicMetadata st.cache bs ts fetchedAll).2 = true := by
  intro st
  have h : Afkak.ClientNet.WfC st.cache :=
    Afkak.ClientNet.reachable_wfc cfg evs {} ⟨CWf.empty, fun e he => by cases he⟩
  exact ⟨h.1, h.2, fun bs ts a => (mergeTopicMetadata_mirror h.1 h.2 bs ts a).1⟩

/-- **The well-formedness monitor holds of every reachable state of the model**: `Afkak.Monitor.C08.wf` - every routing
    entry is for a partition listed for its topic, and every broker the routing refers to (a partition's leader, a
    group's coordinator) is a KNOWN broker, so `_get_brokerclient` of a cached leader/coordinator never meets an
    unknown node id - is evaluated on every dump of the real client (it is what catches a refresh that prunes
    `_brokers`); here it is proved of the cache of every reachable state of the client model (any event list). -/
theorem C08_reachable_monitor_wf (cfg : Afkak.ClientNet.Cfg) (evs : List (Afkak.ClientNet.Env × Afkak.ClientNet.Ev)) :
    Afkak.Monitor.C08.wf (evs.foldl (fun s e => (Afkak.ClientNet.step cfg s e.1 e.2).1) ({} : Afkak.ClientNet.St)).cache = true :=
  Afkak.ClientNet.wf_of_inv3 (Afkak.ClientNet.reachable_inv3 cfg evs {} Afkak.ClientNet.Inv3.init)

/-- The statement `C08_recovers_within_retry_budget_v1` (sessions 3-4) is FALSE as stated: its runs may contain clock steps, and a
    request that nobody answers before the client's request timeout is timed out by the client itself
    (`_mrtb_timeout`): the caller's third send fails with `FailedPayloadsError([], [(payload, RequestTimedOut)])`,
    the request is no longer pending - so "no request pending at the end" holds - and no response list is ever
    delivered.  Witness (`RecoverWitness`, AfkakProofs/Client/A_Recover.lean): bootstrap, learn t/0 -> broker 1, two
    sends answered by broker 1, a third send followed by `advance 11` under a 10 s timeout; every hypothesis of the
    statement holds (decided by evaluation).  Replayed on the real client (corpus/client/net-c08-recover-third-send-times-out.json):
    same observations - `result 3 failedPayloads - 0:brokerError:7`.  That is the designed behaviour, not a defect:
    the statement is too strong (it needs "no request of the run times out", and also constrains neither what a
    BOOTSTRAP connection answers nor duplicate topic names in the layout, and lets `expect=False` sends count): the open
    statement `C08_recovers_within_retry_budget` is restated with these hypotheses (session 5). -/
theorem C08_recovers_within_retry_budget_counterexample : ¬ Open.C08_recovers_within_retry_budget_v1 := by
  open Afkak.ClientNet Afkak.ClientNet.RecoverWitness in
  intro h
  have hwf : WellFormedRun cfg (past ++ evs) :=
    ⟨by decide +kernel, noBadOp_of_all (by decide +kernel)⟩
  have hnf : NoFuel cfg {} (past ++ evs) := by
    simp only [past, evs, List.cons_append, List.nil_append, NoFuel, and_true]
    decide +kernel
  have h2 := h cfg past evs L keys whatOf 1 2 3 hwf hnf
  simp only at h2
  have hcons : Open.ConsistentWith L cfg whatOf st0 evs :=
    consistentWith_of_B L cfg whatOf evs st0 (by decide +kernel)
  obtain ⟨tags, hmem, _⟩ := h2 (by decide +kernel) (by decide +kernel) (by decide) hcons
    (mkAgrees_of_all (by decide +kernel)) (by decide +kernel) (by decide +kernel)
  exact no_responses_of_all (o := 3) (tr := traceOf cfg st0 evs) (by decide +kernel) ⟨tags, hmem⟩

/-- **The cache queries answer exactly what the last metadata response said** (session 5; `has_metadata_for_topic`,
    `metadata_error_for_topic`, `consumer_group_to_brokers` of afkak/client.py, modelled in Afkak/ClientQuery.lean and
    compared with the real methods after every operation of every generated history): after a metadata response is
    merged into a well-formed cache (every reachable state has one: `C08_reachable_cache_wf`), for every topic the
    response covers `metadata_error_for_topic` answers the response's error code and `has_metadata_for_topic` answers
    whether the response listed at least one partition; for every topic it does not cover both answer what they
    answered before; and the coordinators are untouched. -/
theorem C08_query_mirrors_response (c : Cache) (hw : CWf c) (hk : BrokersKeyed c) (bs : List Broker) (ts : List TopicMeta)
    (fetchedAll : Bool) :
    let c' := (mergeTopicMetadata c bs ts fetchedAll).1
    (∀ e ∈ respTopics ts, Afkak.ClientQuery.metadataErrorForTopic c' e.2.name = e.2.err ∧
        Afkak.ClientQuery.hasMetadataForTopic c' e.2.name = !(respParts e.2).isEmpty) ∧
    (∀ t, hasKey t (respTopics ts) = false →
        Afkak.ClientQuery.metadataErrorForTopic c' t = Afkak.ClientQuery.metadataErrorForTopic c t ∧
        Afkak.ClientQuery.hasMetadataForTopic c' t = Afkak.ClientQuery.hasMetadataForTopic c t) ∧
    Afkak.ClientQuery.consumerGroupToBrokers c' = Afkak.ClientQuery.consumerGroupToBrokers c := by
  intro c'
  have h := (mergeTopicMetadata_mirror hw hk bs ts fetchedAll).1
  simp only [mirrorOk, Bool.and_eq_true] at h
  obtain ⟨⟨⟨_, htm⟩, hothers⟩, _⟩ := h
  refine ⟨fun e he => Afkak.ClientQuery.query_of_topicMirror (List.all_eq_true.mp htm e he), fun t ht => ?_, ?_⟩
  · have := Afkak.ClientQuery.query_of_untouched hothers t ht
    exact ⟨this.1, this.2.1⟩
  · simp only [othersUntouched, Bool.and_eq_true, beq_iff_eq] at hothers
    exact hothers.2

/-- **The query monitor holds of the model**: `Afkak.ClientQuery.queryMirror` - evaluated on the answers the REAL
    `has_metadata_for_topic` / `metadata_error_for_topic` give for the covered topics right after every metadata
    response of every generated history - holds of the answers the model's queries give on the merged cache, from
    every well-formed cache (every reachable state: `C08_reachable_cache_wf`). -/
theorem C08_query_monitor_holds (c : Cache) (hw : CWf c) (hk : BrokersKeyed c) (bs : List Broker) (ts : List TopicMeta)
    (fetchedAll : Bool) :
    Afkak.ClientQuery.queryMirror ts
      (Afkak.ClientQuery.answers (mergeTopicMetadata c bs ts fetchedAll).1 ((respTopics ts).map (·.1))) = true := by
  have h := (mergeTopicMetadata_mirror hw hk bs ts fetchedAll).1
  simp only [mirrorOk, Bool.and_eq_true] at h
  exact Afkak.ClientQuery.queryMirror_of_topicMirror h.1.1.2

/-- **The covered part of the mirror survives a reset in the middle of the merge** (session 5; the re-entrant case the
    mirror monitor used to skip): `_merge_topic_metadata` first runs `_update_brokers` - on a full refresh this closes
    the clients of the brokers the response dropped, a request in flight on one of them fails at once and its failure
    path calls `reset_all_metadata()` (`reset = true`) - and only then the per-topic loop.  Whether or not that reset
    happened, afterwards every broker the response lists is known at the response's address (live clients told) and
    every topic the response covers equals the response: the monitor `mon-covered` that is evaluated on the real
    client's dump of every such perturbed metadata-reply step ("other topics untouched" is false there by design). -/
theorem C08_covered_mirror_despite_reset (c : Cache) (hw : CWf c) (hk : BrokersKeyed c) (bs : List Broker)
    (ts : List TopicMeta) (fetchedAll reset : Bool) :
    let u := updateBrokersDict c (respBrokers bs) (fetchedAll && !(respBrokers bs).isEmpty)
    let c1 := if reset then resetAll u.1 else u.1
    let c2 := (respTopics ts).foldl (fun c e => mergeTopic c e.2) c1
    brokersMirror c2 bs = true ∧ (respTopics ts).all (fun e => topicMirror c2 e.2) = true :=
  covered_mirror_despite_reset hw hk bs ts fetchedAll reset

/-- **The covered mirror at the coroutine's own merge action** (ties `C08_covered_mirror_despite_reset` to the
    interpreter): well-formedness of the cache (`CWf`, `BrokersKeyed`) is preserved by EVERY action `exec` runs - so it
    holds in every state a step passes through, also between the closes of dropped brokers' clients, the failures of
    their requests, the `reset_all_metadata()` those trigger, and the per-topic loop - and in any such state the
    per-topic merge action (`mergeTopics`, the loop of `_merge_topic_metadata`) leaves every topic the response covers
    equal to the response, without touching `_brokers` or `clients` (which `unawareDone` updated before).  Not proved:
    that nothing between the end of that action and the end of the step changes a covered topic again (the monitor
    `mon-covered` is applied only to steps whose last action fired the load's Deferred). -/
theorem C08_merge_action_mirrors_covered (cfg : Afkak.ClientNet.Cfg) :
    (∀ (st : Afkak.ClientNet.St) (a : Afkak.ClientNet.Act), CWf st.cache ∧ BrokersKeyed st.cache →
        CWf (Afkak.ClientNet.exec cfg st a).1.cache ∧ BrokersKeyed (Afkak.ClientNet.exec cfg st a).1.cache) ∧
    (∀ (st : Afkak.ClientNet.St) (ts : List TopicMeta) (lo : Afkak.ClientNet.LOwner), CWf st.cache ∧ BrokersKeyed st.cache →
        (respTopics ts).all (fun e => topicMirror (Afkak.ClientNet.exec cfg st (.mergeTopics ts lo)).1.cache e.2) = true ∧
        (Afkak.ClientNet.exec cfg st (.mergeTopics ts lo)).1.cache.brokers = st.cache.brokers ∧
        (Afkak.ClientNet.exec cfg st (.mergeTopics ts lo)).1.cache.clients = st.cache.clients) :=
  ⟨fun st a h => Afkak.ClientNet.exec_wfc cfg st a h, fun st ts lo h => Afkak.ClientNet.mergeTopics_action_covered cfg st ts lo h⟩

/-! Non-vacuity: a request is in flight on broker 2 when a full refresh drops broker 2: the reset empties the cache
    (topic u is gone: "others untouched" fails), the covered topic t and the brokers mirror the response. -/
example :
    let c : Cache := { brokers := [(1, ⟨1, "h1", 9092⟩), (2, ⟨2, "h2", 9092⟩)],
                       clients := [(1, ⟨1, "h1", 9092⟩), (2, ⟨2, "h2", 9092⟩)],
                       t2b := [(("u", 0), some ⟨2, "h2", 9092⟩)], topicParts := [("u", [0])], topicErrs := [("u", 0)] }
    let bs : List Broker := [⟨1, "h1", 9092⟩]
    let ts : List TopicMeta := [⟨"t", 0, [⟨0, 0, 1⟩]⟩]
    let u := updateBrokersDict c (respBrokers bs) true
    let c2 := (respTopics ts).foldl (fun c e => mergeTopic c e.2) (resetAll u.1)
    u.2 = [2] ∧ c2.topicParts = [("t", [0])] ∧ othersUntouched c c2 ts = false ∧
    brokersMirror c2 bs = true ∧ (respTopics ts).all (fun e => topicMirror c2 e.2) = true := by decide

/-- **A failed send invalidates - at the coroutine** (second sentence; `C08_failed_send_invalidates` is the kernel fact
    `allInvalid (resetAll c)`): in ANY state of the client model, whenever the completion check of a send
    (`sendCheck`: the tail of `_send_broker_aware_request`) hands the caller a `FailedPayloadsError`, the cache it
    leaves holds no routing at all (`reset_all_metadata()` ran before the error was raised) - the monitor
    `mon-allinvalid` evaluated on the real client's dump after every FailedPayloadsError (C07 and C08 checks). -/
theorem C08_failed_send_invalidates_coroutine (cfg : Afkak.ClientNet.Cfg) (st : Afkak.ClientNet.St) (s o : Nat)
    (tags : List Int) (failed : List (Nat × Afkak.ClientNet.Kind))
    (h : (Afkak.ClientNet.exec cfg st (.sendCheck s)).2.2 = [.opResult o (.failedPayloads tags failed)]) :
    allInvalid (Afkak.ClientNet.exec cfg st (.sendCheck s)).1.cache = true :=
  Afkak.ClientNet.sendCheck_failed_invalidates cfg st s o tags failed h

/-- **After an invalidation the queries say "unknown"**: a topic whose routing is invalid has no metadata
    (`has_metadata_for_topic` is False) and the error code of an unknown topic (`UnknownTopicOrPartitionError.errno`,
    read from the source); that is the case for the topic of `reset_topic_metadata`, for every topic after
    `reset_all_metadata` (a failed send, `close()`), and for the topic of EVERY not-leader / unknown-partition answer
    handed to `_handle_responses` - whatever `fail_on_error` is and also behind the first error raised. -/
theorem C08_query_after_invalidation (c : Cache) (hw : CWf c) :
    (∀ t, topicInvalid c t = true →
        Afkak.ClientQuery.hasMetadataForTopic c t = false ∧ Afkak.ClientQuery.metadataErrorForTopic c t = clientMetadataErrorDefault) ∧
    (∀ t, Afkak.ClientQuery.hasMetadataForTopic (resetTopic c t) t = false ∧
        Afkak.ClientQuery.metadataErrorForTopic (resetTopic c t) t = clientMetadataErrorDefault) ∧
    (∀ t, Afkak.ClientQuery.hasMetadataForTopic (resetAll c) t = false ∧
        Afkak.ClientQuery.metadataErrorForTopic (resetAll c) t = clientMetadataErrorDefault) ∧
    (∀ foe g rs, ∀ r ∈ rs, clientTopicResetErrnos.contains r.2 = true →
        Afkak.ClientQuery.hasMetadataForTopic (handleResponses c foe (some g) rs).1 r.1 = false ∧
        Afkak.ClientQuery.metadataErrorForTopic (handleResponses c foe (some g) rs).1 r.1 = clientMetadataErrorDefault) := by
  refine ⟨fun t h => Afkak.ClientQuery.query_of_invalid h,
    fun t => Afkak.ClientQuery.query_of_invalid (resetTopic_invalid hw t),
    fun t => Afkak.ClientQuery.query_of_invalid (by simp [topicInvalid, resetAll, t2bOf, hasKey]), ?_⟩
  intro foe g rs r hr herr
  have h4 := (handleResponses_spec foe g rs c hw).2.2.2
  simp only [invalidateOk, List.all_eq_true, Bool.and_eq_true, Bool.or_eq_true, Bool.not_eq_eq_eq_not, Bool.not_true] at h4
  have := (h4 r hr).1
  rcases this with h | h
  · rw [herr] at h; cases h
  · exact Afkak.ClientQuery.query_of_invalid h

/-! Non-vacuity of the query theorems: the response of the example below (topic t with partitions, topic v erroring
    without partitions, topic u not covered), then a NotLeader answer for t. -/
example :
    let c : Cache := { brokers := [(1, ⟨1, "h1", 9092⟩)], t2b := [(("u", 0), some ⟨1, "h1", 9092⟩)],
                       topicParts := [("u", [0])], topicErrs := [("u", 0)] }
    let c' := (mergeTopicMetadata c [⟨1, "h1", 9092⟩] [⟨"t", 0, [⟨0, 0, 1⟩]⟩, ⟨"v", 3, []⟩] false).1
    let c'' := (handleResponses c' true (some "g") [("t", 6)]).1
    Afkak.ClientQuery.hasMetadataForTopic c' "t" = true ∧ Afkak.ClientQuery.metadataErrorForTopic c' "t" = 0 ∧
    Afkak.ClientQuery.hasMetadataForTopic c' "v" = false ∧ Afkak.ClientQuery.metadataErrorForTopic c' "v" = 3 ∧
    Afkak.ClientQuery.hasMetadataForTopic c' "u" = true ∧ Afkak.ClientQuery.hasMetadataForTopic c' "w" = false ∧
    Afkak.ClientQuery.metadataErrorForTopic c' "w" = 3 ∧
    Afkak.ClientQuery.hasMetadataForTopic c'' "t" = false ∧ Afkak.ClientQuery.metadataErrorForTopic c'' "t" = 3 ∧
    Afkak.ClientQuery.hasMetadataForTopic c'' "u" = true := by decide

/-! Non-vacuity: a response that re-addresses a broker, drops another from a full refresh (its client is
    closed), re-leaders a partition, names a leaderless and an unknown-leader partition, and carries an
    erroring topic — on a cache that has a second topic, a client per broker and a coordinator. -/
example :
    let c : Cache := { brokers := [(1, ⟨1, "h1", 9092⟩), (2, ⟨2, "h2", 9092⟩)],
                       clients := [(1, ⟨1, "h1", 9092⟩), (2, ⟨2, "h2", 9092⟩)],
                       t2b := [(("t", 0), some ⟨1, "h1", 9092⟩), (("u", 0), some ⟨2, "h2", 9092⟩)],
                       topicParts := [("t", [0]), ("u", [0])], topicErrs := [("t", 0), ("u", 0)],
                       groups := [("g", ⟨2, "h2", 9092⟩)] }
    let r := mergeTopicMetadata c [⟨1, "h1x", 9093⟩, ⟨3, "h3", 9092⟩]
              [⟨"t", 0, [⟨0, 1, 3⟩, ⟨0, 0, 1⟩, ⟨5, 2, -1⟩, ⟨0, 4, 9⟩]⟩, ⟨"v", 3, []⟩] true
    r.2 = [2] ∧ r.1.topicParts = [("u", [0]), ("t", [0, 1, 2, 4])] ∧
    r.1.clients = [(1, ⟨1, "h1x", 9093⟩)] ∧
    r.1.t2b = [(("u", 0), some ⟨2, "h2", 9092⟩), (("t", 1), some ⟨3, "h3", 9092⟩), (("t", 0), some ⟨1, "h1x", 9093⟩),
               (("t", 2), none), (("t", 4), none)] ∧
    mirrorOk c r.1 [⟨1, "h1x", 9093⟩, ⟨3, "h3", 9092⟩]
      [⟨"t", 0, [⟨0, 1, 3⟩, ⟨0, 0, 1⟩, ⟨5, 2, -1⟩, ⟨0, 4, 9⟩]⟩, ⟨"v", 3, []⟩] true r.2 = true := by decide

example : (handleResponses { t2b := [(("t", 0), none)], topicParts := [("t", [0])], topicErrs := [("t", 0)],
                             groups := [("g", ⟨2, "h2", 9092⟩)] } true (some "g") [("u", 0), ("t", 6), ("t", 19)]).2
    = some (.errno 6) := by decide

end Afkak.Props.C08

/- OBLIGATIONS
C08_mirror
C08_close_missing
C08_invalidate
C08_invalidate_no_group
C08_failed_send_invalidates
C08_fail_on_error_false_never_raises
C08_updateMetadata_next_connect
C08_recovers_step
C08_wf_reachable
C08_invalidated_topic_reloads_before_send
C08_recovers_within_retry_budget_counterexample
C08_brokers_never_forgotten
C08_reachable_cache_wf
C08_reachable_monitor_wf
C08_query_mirrors_response
C08_query_after_invalidation
C08_query_monitor_holds
C08_covered_mirror_despite_reset
C08_failed_send_invalidates_coroutine
C08_merge_action_mirrors_covered
-/
/- OPEN_STATEMENTS
C08_recovers_within_retry_budget
-/
