import Afkak.Monitor.C15
import AfkakProofs.Assign.Facts
import AfkakProofs.Assign.Metadata
import AfkakProofs.Assign.Total
import AfkakProofs.Assign.LoaderFaithful
import AfkakProofs.Assign.SyncWire
import AfkakProofs.Assign.LoaderNodup
/-!
# C15 — Group assignment gives every partition to exactly one subscribed member

Property theorems only; helper lemmas live in `AfkakProofs/Assign/`.

`members` is the list of `(member_id, subscriptions)` in the order the coordinator listed them,
`tp` the `topic_partitions` mapping, `roundRobin (memberMetadata members) tp` the leader's
`_round_robin_assignment`, `perMember asg members` what `generate_assignments` hands to each listed
member before encoding, `generateAssignments members tp` the encoded per-member list, and
`observe encs` what the members decode from it.  The predicates `exactlyOnce`, `nothingElse`,
`answersAll`, `onlySubscribed`, `balanced`, `sameAssignment`, `decodesOwn` are the monitor
`Afkak.Monitor.C15` that the driver evaluates on the implementation's outputs.

`wellFormed members tp` (distinct member ids; no partition id listed twice for a topic) is the
only hypothesis; it is decidable and the examples at the end exhibit inputs satisfying it.
-/
namespace Afkak.Props.C15
open Afkak.Assign Afkak.Monitor.C15

/-- The skip loop of `_round_robin_assignment` always terminates (one turn of the cycle is enough
    fuel, for ALL inputs, repeated member ids included): the only outcomes are the assertion (no
    subscriptions at all), `_NeedTopicPartitions` carrying all subscribed topics (some subscribed
    topic has no entry in `topic_partitions`), or an assignment — never `StopIteration`, a
    `KeyError`, or a loop that does not end. -/
theorem C15_terminates (members : List Member) (tp : Dict Str (List Int)) :
    let md := memberMetadata members
    (allTopics md = [] ∧ roundRobin md tp = .error .assertion) ∨
    (allTopics md ≠ [] ∧ (∃ t ∈ allTopics md, dget t tp = none) ∧
      roundRobin md tp = .error (.need (sortBy strLe (allTopics md)))) ∨
    (allTopics md ≠ [] ∧ (∀ t ∈ allTopics md, ∃ ps, dget t tp = some ps) ∧ ∃ asg, roundRobin md tp = .ok asg) :=
  roundRobin_outcome (nodup_keys_memberMetadata members) tp

/-- Every partition of every subscribed topic goes to exactly one listed member, nothing that is not
    a partition of a subscribed topic is handed out, and every listed member is answered. -/
theorem C15_exactly_once (members : List Member) (tp : Dict Str (List Int)) (asg : Asg)
    (hwf : wellFormed members tp = true) (h : roundRobin (memberMetadata members) tp = .ok asg) :
    exactlyOnce members tp (perMember asg members) = true ∧
    nothingElse members tp (perMember asg members) = true ∧
    answersAll members (perMember asg members) = true :=
  ⟨exactlyOnce_perMember hwf h, nothingElse_perMember (wellFormed_iff.mp hwf).1 h, answersAll_perMember members asg⟩

/-- A partition is only ever given to a member subscribed to its topic. -/
theorem C15_only_subscribed (members : List Member) (tp : Dict Str (List Int)) (asg : Asg)
    (hwf : wellFormed members tp = true) (h : roundRobin (memberMetadata members) tp = .ok asg) :
    onlySubscribed members (perMember asg members) = true :=
  onlySubscribed_perMember (wellFormed_iff.mp hwf).1 h

/-- When all members subscribe to the same set of topics, the numbers of partitions any two
    members receive differ by at most one. -/
theorem C15_balanced (members : List Member) (tp : Dict Str (List Int)) (asg : Asg)
    (hwf : wellFormed members tp = true) (h : roundRobin (memberMetadata members) tp = .ok asg) :
    balanced members (perMember asg members) = true :=
  balanced_perMember (wellFormed_iff.mp hwf).1 h

/-- The assignment does not depend on the order in which the members are listed: the leader
    computes the very same map (or the very same exception); whatever the two runs return, every
    member is handed the same partitions in both (the monitor `sameAssignment` that the harness
    evaluates on two runs of the real code); and the encoded list is the same up to that reordering. -/
theorem C15_perm_invariant (members members' : List Member) (tp : Dict Str (List Int))
    (hn : (members.map (·.1)).Nodup) (hp : members'.Perm members) :
    roundRobin (memberMetadata members') tp = roundRobin (memberMetadata members) tp ∧
    (∀ asg asg', roundRobin (memberMetadata members) tp = .ok asg → roundRobin (memberMetadata members') tp = .ok asg' →
      sameAssignment (perMember asg members) (perMember asg' members') = true) ∧
    (∀ encs, generateAssignments members tp = .ok encs →
      ∃ encs', generateAssignments members' tp = .ok encs' ∧ encs'.Perm encs) := by
  have hrr := roundRobin_perm hn hp tp
  refine ⟨hrr, ?_, ?_⟩
  · intro asg asg' h h'
    rw [hrr, h] at h'
    obtain rfl := Except.ok.inj h'
    exact sameAssignment_perMember asg hn hp
  · intro encs h
    obtain ⟨asg, h1, h2⟩ := generateAssignments_ok h
    obtain ⟨encs', h3, h4⟩ := encodeEach_perm asg hp encs h2
    exact ⟨encs', by simp only [generateAssignments, hrr, h1, h3], h4⟩

/-- The byte-level codec on its own, under explicit range hypotheses (`encodable`: fewer than 2^31
    topics, topic names ASCII and at most 32767 characters, fewer than 2^31 partitions per topic,
    partition ids int32): a `{topic: partitions}` dict (distinct topics) is encoded without an
    exception and `decode_assignment` gives it back. -/
theorem C15_codec_roundtrip (a : Dict Str (List Int)) (hk : (keys a).Nodup) (hr : encodable a = true) :
    ∃ bs, encodeMemberAssignment Afkak.Consts.asgMaEncodedVersion a [] = .ok bs ∧ decodeAssignment bs = .ok a := by
  simp only [encodable, Bool.and_eq_true, decide_eq_true_eq, List.all_eq_true] at hr
  obtain ⟨bs, hbs⟩ := encodeMemberAssignment_ok hr.1 (fun e he => by
    obtain ⟨⟨⟨h1, h2⟩, h3⟩, h4⟩ := hr.2 e he
    exact ⟨List.all_eq_true.mpr (fun c hc => by simpa using h1 c hc), h2, h3, h4⟩)
  exact ⟨bs, hbs, decodeAssignment_encode hbs (by decide) hk⟩

/-- The decoder inverts the encoder on everything the encoder accepts (no range hypothesis needed:
    an out-of-range value makes the encoder raise). -/
theorem C15_codec_roundtrip_of_ok (a : Dict Str (List Int)) (bs : Bytes) (hk : (keys a).Nodup)
    (h : encodeMemberAssignment Afkak.Consts.asgMaEncodedVersion a [] = .ok bs) :
    decodeAssignment bs = .ok a :=
  decodeAssignment_encode h (by decide) hk

/-- Whenever the leader's `generate_assignments` returns, each listed member decodes from the bytes
    encoded for it exactly the map it was assigned — for ALL inputs. -/
theorem C15_member_decodes_own (members : List Member) (tp : Dict Str (List Int)) (encs : List (Str × Bytes))
    (h : generateAssignments members tp = .ok encs) :
    ∃ asg, roundRobin (memberMetadata members) tp = .ok asg ∧ observe encs = some (perMember asg members) := by
  obtain ⟨asg, h1, h2⟩ := generateAssignments_ok h
  obtain ⟨atp, log, -, -, rfl⟩ := roundRobin_ok h1
  exact ⟨nest log, h1, observe_encodeEach (nodup_keys_assignmentOf_nest log) h2⟩

/-- End to end: what the members decode from the leader's encoded assignments satisfies every
    demand of C15. -/
theorem C15_end_to_end (members : List Member) (tp : Dict Str (List Int)) (encs : List (Str × Bytes))
    (hwf : wellFormed members tp = true) (h : generateAssignments members tp = .ok encs) :
    ∃ obs, observe encs = some obs ∧ answersAll members obs = true ∧ exactlyOnce members tp obs = true ∧
      nothingElse members tp obs = true ∧ onlySubscribed members obs = true ∧ balanced members obs = true := by
  obtain ⟨asg, h1, h2⟩ := C15_member_decodes_own members tp encs h
  obtain ⟨e1, e2, e3⟩ := C15_exactly_once members tp asg hwf h1
  exact ⟨_, h2, e3, e1, e2, C15_only_subscribed members tp asg hwf h1, C15_balanced members tp asg hwf h1⟩

/-- Under explicit range hypotheses on the leader's input — topic names ASCII and at most 32767
    characters, partition ids int32, for the subscribed topics (`TpInRange`), fewer than 2^31
    partitions of subscribed topics in total — the encoding step of `generate_assignments` cannot raise: whenever the round-robin step
    produces an assignment, every listed member gets its bytes, decodes exactly its own map from
    them, and what the members decode satisfies every demand of C15. -/
theorem C15_in_range_total (members : List Member) (tp : Dict Str (List Int)) (asg : Asg)
    (hwf : wellFormed members tp = true) (hr : TpInRange (allTopics (memberMetadata members)) tp)
    (hcount : (atpOf tp (allTopics (memberMetadata members))).length < 2147483648)
    (h : roundRobin (memberMetadata members) tp = .ok asg) :
    ∃ encs, generateAssignments members tp = .ok encs ∧ observe encs = some (perMember asg members) ∧
      answersAll members (perMember asg members) = true ∧ exactlyOnce members tp (perMember asg members) = true ∧
      nothingElse members tp (perMember asg members) = true ∧ onlySubscribed members (perMember asg members) = true ∧
      balanced members (perMember asg members) = true := by
  obtain ⟨encs, henc⟩ := encodeEach_total h hr hcount members
  have hgen : generateAssignments members tp = .ok encs := by simp only [generateAssignments, h, henc]
  obtain ⟨asg', h1, h2⟩ := C15_member_decodes_own members tp encs hgen
  have : asg' = asg := by rw [h] at h1; exact (Except.ok.inj h1).symm
  subst this
  obtain ⟨e1, e2, e3⟩ := C15_exactly_once members tp asg' hwf h
  exact ⟨encs, hgen, h2, e3, e1, e2, C15_only_subscribed members tp asg' hwf h, C15_balanced members tp asg' hwf h⟩

/-- The member-metadata codec: `decode_join_group_protocol_metadata` gives back the version, the
    subscriptions (any Unicode text: UTF-8 round trip through CPython-strict decoding) and the user
    data that `encode_join_group_protocol_metadata` was given, whenever the encoder did not raise. -/
theorem C15_metadata_roundtrip (v : Int) (subs : List Str) (ud bs : Bytes)
    (h : encodeMetadata v subs ud = .ok bs) : decodeMetadata bs = .ok (v, subs, some ud) :=
  decodeMetadata_encode h

/-- The UTF-8 decoder's fuel (one unit per byte) is never exhausted, and it inverts the encoder. -/
theorem C15_utf8 (s : Str) (b : Bytes) :
    utf8Decode b ≠ .error .diverges ∧ (utf8Encode s = .ok b → utf8Decode b = .ok s) :=
  ⟨utf8DecodeFuel_ne_diverges b.length b (Nat.le_refl _), utf8Decode_encode⟩

/-- On the wire-level member list (ids with the metadata bytes each member produced with
    `join_group_protocols`), `generate_assignments` is the assignment of the decoded members — so
    every theorem above holds for the byte-level entry point. -/
theorem C15_wire_members (ms : List Member) (w : List (Str × Bytes)) (tp : Dict Str (List Int))
    (h : wireOf ms = .ok w) : generateAssignmentsB w tp = generateAssignments ms tp :=
  generateAssignmentsB_wireOf h tp

/-- Every way the leader's two calls in `_join_and_sync` can end, for an ARBITRARY answer of
    `_load_topic_partitions` (no contract assumed): the first call (`topic_partitions={}`) either
    hits the assertion (nobody subscribed to anything) or asks for exactly the subscribed topics;
    then either the answer lacks a subscribed topic and the second call raises
    `_NeedTopicPartitions` again — outside the `try`, so the exception leaves `_join_and_sync`, no
    SyncGroup is sent and (it not being a `KafkaError`) nothing is rescheduled — or the second call
    is the round-robin assignment over the loaded map, encoded per member. -/
theorem C15_leader_outcomes (w : List (Str × Bytes)) (ms : List Member) (hd : decodeMembers w = .ok ms)
    (load : List Str → Dict Str (List Int)) :
    (allTopics (memberMetadata ms) = [] ∧ leaderAssign w load = .error .assertion) ∨
    (allTopics (memberMetadata ms) ≠ [] ∧
      (∃ t ∈ allTopics (memberMetadata ms), dget t (load (sortBy strLe (allTopics (memberMetadata ms)))) = none) ∧
      leaderAssign w load = .error (.need (sortBy strLe (allTopics (memberMetadata ms))))) ∨
    (allTopics (memberMetadata ms) ≠ [] ∧
      (∀ t ∈ allTopics (memberMetadata ms), ∃ ps, dget t (load (sortBy strLe (allTopics (memberMetadata ms)))) = some ps) ∧
      ∃ asg, roundRobin (memberMetadata ms) (load (sortBy strLe (allTopics (memberMetadata ms)))) = .ok asg ∧
        leaderAssign w load = encodeEach asg ms) :=
  leaderAssign_outcomes hd load

/-- `KafkaClient._load_topic_partitions` keeps its promise (since repo commit 9b87dea): whatever the
    successive metadata replies are — topics omitted, in error, without partitions — when it fires
    its snapshot has an entry with at least one partition for every topic that was asked for. -/
theorem C15_loader_contract (asked : List Str) (replies : List MetaReply) (snap : Dict Str (List Int)) (n : Nat)
    (h : loadTopicPartitions asked replies = some (snap, n)) : loadCovers asked snap = true :=
  loadTopicPartitions_covers h

/-- … and leaves no partition out: when the loader fires after `n` requests, its snapshot holds, for
    every requested topic, exactly the partition ids the `n`-th metadata reply lists for that topic
    (monitor `loadFaithful`, evaluated on the real `KafkaClient._load_topic_partitions`) — leader or
    no leader.  Together with `C15_exactly_once` over that snapshot: every partition the cluster
    reported for a subscribed topic goes to exactly one member. -/
theorem C15_loader_faithful (asked : List Str) (replies : List MetaReply) (snap : Dict Str (List Int)) (n : Nat)
    (h : loadTopicPartitions asked replies = some (snap, n)) :
    1 ≤ n ∧ ∃ r, replies[n - 1]? = some r ∧ loadFaithful asked r snap = true :=
  loadTopicPartitions_faithful h

/-- The glue composed with the client's loader: when `_load_topic_partitions` answers (for any
    sequence of replies), the second call cannot ask again — the leader obtains the partition lists
    of every subscribed topic before assigning. -/
theorem C15_leader_glue (w : List (Str × Bytes)) (ms : List Member) (hd : decodeMembers w = .ok ms)
    (replies : List MetaReply) (snap : Dict Str (List Int)) (n : Nat) (load : List Str → Dict Str (List Int))
    (hl : loadTopicPartitions (sortBy strLe (allTopics (memberMetadata ms))) replies = some (snap, n))
    (hload : load (sortBy strLe (allTopics (memberMetadata ms))) = snap) :
    (allTopics (memberMetadata ms) = [] ∧ leaderAssign w load = .error .assertion) ∨
    (allTopics (memberMetadata ms) ≠ [] ∧
      ∃ asg, roundRobin (memberMetadata ms) snap = .ok asg ∧ leaderAssign w load = encodeEach asg ms) := by
  rcases leaderAssign_outcomes hd load with h | ⟨-, ⟨t, ht, hnone⟩, -⟩ | ⟨h0, -, asg, h1, h2⟩
  · exact Or.inl h
  · exfalso
    have hc := loadTopicPartitions_covers hl
    unfold loadCovers at hc
    rw [List.all_eq_true] at hc
    have := hc t ((mem_sortBy strLe).mpr ht)
    rw [hload] at hnone
    simp [hnone] at this
  · rw [hload] at h1
    exact Or.inr ⟨h0, asg, h1, h2⟩

/-- The subscription encoder under explicit range hypotheses (`subsEncodable`: fewer than 2^31
    subscriptions, topic names made of Unicode scalar values and at most 32767 bytes of UTF-8):
    `join_group_protocols(subscriptions)` does not raise, and the leader's first loop decodes
    exactly these subscriptions from it. -/
theorem C15_metadata_total (subs : List Str) (h : subsEncodable subs = true) :
    ∃ bs, joinGroupMetadata subs = .ok bs ∧
      decodeMetadata bs = .ok (Afkak.Consts.asgMmEncodedVersion, subs, some []) := by
  obtain ⟨bs, hbs⟩ := joinGroupMetadata_ok h
  exact ⟨bs, hbs, decodeMetadata_encode hbs⟩

/-! ## The second sentence across the real SyncGroup wire path

`generate_assignments` → `_SyncGroupRequest.group_assignment` (`syncEntries`: the member ids as UTF-8)
→ `KafkaCodec.encode_sync_group_request` (wire model `Afkak.Wire.encodeSyncGroupRequest`) → a broker
that PARSES THE REQUEST BYTES with the protocol grammar's request decoder (`Afkak.Wire.Spec`, independent
of afkak) and answers each member with its own entry, framed by the grammar's response encoder
(`brokerSyncEcho`) → `KafkaCodec.decode_sync_group_response` (`Afkak.Wire.decodeSyncGroupResponse`) →
`_ConsumerProtocol.decode_assignment` (`memberViaSync`; definitions in `Afkak/AssignSync.lean`).
`corrOf id` is the correlation id of member `id`'s own SyncGroup request, which the response echoes. -/

/-- For ALL members, partition maps, client ids, correlation ids, group / leader ids and generations:
    whenever the leader's `generate_assignments` returns, its member ids encode as UTF-8 and
    `encode_sync_group_request` returns a frame, every listed member — a member listed twice
    included — decodes from the SyncGroup response the broker builds out of that frame exactly the
    map the round-robin assignment gave it (`assignments.get(member_id, {})`). -/
theorem C15_sync_group_wire_decodes_own (members : List Member) (tp : Dict Str (List Int))
    (encs : List (Str × Bytes)) (ga : List (Option Bytes × Option Bytes)) (cid g leader frame : Bytes)
    (corr gen : Int) (corrOf : Str → Int)
    (h : generateAssignments members tp = .ok encs) (hga : syncEntries encs = .ok ga)
    (hf : Afkak.Wire.encodeSyncGroupRequest cid corr (some g) gen (some leader) ga = .ok frame)
    (hc : corrsInRange corrOf members = true) :
    ∃ asg, roundRobin (memberMetadata members) tp = .ok asg ∧
      (∀ m ∈ members, memberViaSync frame (corrOf m.1) m.1 = some (assignmentOf asg m.1)) ∧
      observeViaSync frame corrOf (members.map (·.1)) = some (perMember asg members) := by
  obtain ⟨asg, h1, h2⟩ := memberViaSync_eq h hga hf
  have h3 : ∀ m ∈ members, memberViaSync frame (corrOf m.1) m.1 = some (assignmentOf asg m.1) :=
    fun m hm => h2 m hm _ (List.all_eq_true.mp hc m hm)
  exact ⟨asg, h1, h3, observeViaSync_eq corrOf members h3⟩

/-- End to end over the wire: what the members decode from their SyncGroup responses satisfies every
    demand of C15 (the same monitor predicates as `C15_end_to_end`). -/
theorem C15_end_to_end_sync_group_wire (members : List Member) (tp : Dict Str (List Int))
    (encs : List (Str × Bytes)) (ga : List (Option Bytes × Option Bytes)) (cid g leader frame : Bytes)
    (corr gen : Int) (corrOf : Str → Int)
    (hwf : wellFormed members tp = true)
    (h : generateAssignments members tp = .ok encs) (hga : syncEntries encs = .ok ga)
    (hf : Afkak.Wire.encodeSyncGroupRequest cid corr (some g) gen (some leader) ga = .ok frame)
    (hc : corrsInRange corrOf members = true) :
    ∃ obs, observeViaSync frame corrOf (members.map (·.1)) = some obs ∧ answersAll members obs = true ∧
      exactlyOnce members tp obs = true ∧ nothingElse members tp obs = true ∧
      onlySubscribed members obs = true ∧ balanced members obs = true := by
  obtain ⟨asg, h1, -, h3⟩ :=
    C15_sync_group_wire_decodes_own members tp encs ga cid g leader frame corr gen corrOf h hga hf hc
  obtain ⟨e1, e2, e3⟩ := C15_exactly_once members tp asg hwf h1
  exact ⟨_, h3, e3, e1, e2, C15_only_subscribed members tp asg hwf h1, C15_balanced members tp asg hwf h1⟩

/-- … and the request encoder cannot refuse: when the values are ones the grammar can carry
    (`syncRequestInRange`: ids of at most 32767 bytes, int32 correlation id / generation / count,
    assignments shorter than 2^31 bytes) `encode_sync_group_request` does return a frame, and the
    members decode their own maps from the responses built out of it. -/
theorem C15_sync_group_wire_total (members : List Member) (tp : Dict Str (List Int))
    (encs : List (Str × Bytes)) (ga : List (Option Bytes × Option Bytes)) (cid g leader : Bytes)
    (corr gen : Int) (corrOf : Str → Int)
    (h : generateAssignments members tp = .ok encs) (hga : syncEntries encs = .ok ga)
    (hr : syncRequestInRange cid corr g gen leader ga = true) (hc : corrsInRange corrOf members = true) :
    ∃ frame asg, Afkak.Wire.encodeSyncGroupRequest cid corr (some g) gen (some leader) ga = .ok frame ∧
      roundRobin (memberMetadata members) tp = .ok asg ∧
      observeViaSync frame corrOf (members.map (·.1)) = some (perMember asg members) := by
  unfold syncRequestInRange at hr
  cases hps : Afkak.Monitor.C04.pairs ga with
  | none => rw [hps] at hr; cases hr
  | some ps =>
    rw [hps] at hr
    obtain ⟨frame, hf⟩ := Afkak.Wire.syncGroup_total hps hr
    obtain ⟨asg, h1, -, h3⟩ :=
      C15_sync_group_wire_decodes_own members tp encs ga cid g leader frame corr gen corrOf h hga hf hc
    exact ⟨frame, asg, hf, h1, h3⟩

/-- Which entry a broker keeps for a member named twice in the leader's request does not matter: the
    frame parses (with the grammar's request decoder) to the caller's header, group, generation and
    leader id and one entry per listed member, and entries that name the same member carry the same
    bytes. -/
theorem C15_sync_group_wire_entries_agree (members : List Member) (tp : Dict Str (List Int))
    (encs : List (Str × Bytes)) (ga : List (Option Bytes × Option Bytes)) (cid g leader frame : Bytes)
    (corr gen : Int)
    (h : generateAssignments members tp = .ok encs) (hga : syncEntries encs = .ok ga)
    (hf : Afkak.Wire.encodeSyncGroupRequest cid corr (some g) gen (some leader) ga = .ok frame) :
    ∃ ps, (Afkak.Wire.Spec.request Afkak.Wire.Spec.syncGroupRequest).dec frame
        = some (Afkak.Monitor.C04.hdr 14 0 corr cid, g, gen, leader, ps) ∧
      ps.length = members.length ∧ ∀ p ∈ ps, ∀ q ∈ ps, p.1 = q.1 → p.2 = q.2 := by
  obtain ⟨asg, -, h2⟩ := generateAssignments_ok h
  obtain ⟨ps, hps, -, -⟩ := syncEntries_pairs hga
  refine ⟨ps, Afkak.Wire.syncGroup_parse hf hps, ?_, syncEntries_same_id h2 hga hps⟩
  rw [Afkak.Wire.mapM_length _ _ _ hps, syncEntries_length hga, encodeEach_length h2]

/-! ## From the loader's snapshot to what the members decode -/

/-- From the loader to the members, in one statement: when `_load_topic_partitions` fires (after `n`
    requests, whatever the replies were) and the leader's `_join_and_sync` glue returns the encoded
    assignments, then — member ids being distinct, the only hypothesis left — what the members decode
    satisfies every demand of C15 AGAINST THE PARTITIONS THE CLUSTER REPORTED: the snapshot the
    assignment ran on lists, for every subscribed topic, exactly the partition ids of the `n`-th
    metadata reply (`loadFaithful`), and that no topic of it lists an id twice is proved of the
    loader, not assumed. -/
theorem C15_loader_to_members (w : List (Str × Bytes)) (ms : List Member) (hd : decodeMembers w = .ok ms)
    (replies : List MetaReply) (snap : Dict Str (List Int)) (n : Nat) (load : List Str → Dict Str (List Int))
    (encs : List (Str × Bytes))
    (hl : loadTopicPartitions (sortBy strLe (allTopics (memberMetadata ms))) replies = some (snap, n))
    (hload : load (sortBy strLe (allTopics (memberMetadata ms))) = snap)
    (hids : (ms.map (·.1)).Nodup) (h : leaderAssign w load = .ok encs) :
    wellFormed ms snap = true ∧ generateAssignments ms snap = .ok encs ∧
    (∃ r, replies[n - 1]? = some r ∧
      loadFaithful (sortBy strLe (allTopics (memberMetadata ms))) r snap = true) ∧
    ∃ obs, observe encs = some obs ∧ answersAll ms obs = true ∧ exactlyOnce ms snap obs = true ∧
      nothingElse ms snap obs = true ∧ onlySubscribed ms obs = true ∧ balanced ms obs = true := by
  have hwf : wellFormed ms snap = true := wellFormed_iff.mpr ⟨hids, loadTopicPartitions_nodup hl⟩
  have hgen : generateAssignments ms snap = .ok encs := by
    rcases C15_leader_glue w ms hd replies snap n load hl hload with ⟨-, he⟩ | ⟨-, asg, h1, h2⟩
    · rw [he] at h; cases h
    · rw [h2] at h
      simp only [generateAssignments, h1, h]
  exact ⟨hwf, hgen, (C15_loader_faithful _ replies snap n hl).2, C15_end_to_end ms snap encs hwf hgen⟩

/-- … and across the SyncGroup wire path. -/
theorem C15_loader_to_members_sync_group_wire (w : List (Str × Bytes)) (ms : List Member)
    (hd : decodeMembers w = .ok ms)
    (replies : List MetaReply) (snap : Dict Str (List Int)) (n : Nat) (load : List Str → Dict Str (List Int))
    (encs : List (Str × Bytes)) (ga : List (Option Bytes × Option Bytes)) (cid g leader frame : Bytes)
    (corr gen : Int) (corrOf : Str → Int)
    (hl : loadTopicPartitions (sortBy strLe (allTopics (memberMetadata ms))) replies = some (snap, n))
    (hload : load (sortBy strLe (allTopics (memberMetadata ms))) = snap)
    (hids : (ms.map (·.1)).Nodup) (h : leaderAssign w load = .ok encs)
    (hga : syncEntries encs = .ok ga)
    (hf : Afkak.Wire.encodeSyncGroupRequest cid corr (some g) gen (some leader) ga = .ok frame)
    (hc : corrsInRange corrOf ms = true) :
    ∃ obs, observeViaSync frame corrOf (ms.map (·.1)) = some obs ∧ answersAll ms obs = true ∧
      exactlyOnce ms snap obs = true ∧ nothingElse ms snap obs = true ∧
      onlySubscribed ms obs = true ∧ balanced ms obs = true := by
  obtain ⟨hwf, hgen, -, -⟩ := C15_loader_to_members w ms hd replies snap n load encs hl hload hids h
  exact C15_end_to_end_sync_group_wire ms snap encs ga cid g leader frame corr gen corrOf hwf hgen hga hf hc

/-! ## Non-vacuity: concrete inputs meeting the hypotheses, and monitors that can fail -/

/-- "b" wants t1,t2; "a" wants t1; "c" is alone on t3 (which has no partitions). Listed unsorted. -/
def exMembers : List Member := [([98], [[116, 49], [116, 50]]), ([97], [[116, 49]]), ([99], [[116, 51]])]
def exTp : Dict Str (List Int) := [([116, 49], [0, 1, 5]), ([116, 50], [3, 2]), ([116, 51], [])]

example : wellFormed exMembers exTp = true := by decide
example : roundRobin (memberMetadata exMembers) exTp
    = .ok [([97], [([116, 49], [0, 5])]), ([98], [([116, 49], [1]), ([116, 50], [2, 3])])] := by rfl
example : (generateAssignments exMembers exTp).toOption.isSome = true := by decide +kernel
example : identicalSubs [([98], [[116]]), ([97], [[116]])] = true := by decide
example : encodable [([116, 49], [0, 2147483647, -2147483648]), ([116], [])] = true ∧
    (keys ([([116, 49], [0, 2147483647, -2147483648]), ([116], [])] : Dict Str (List Int))).Nodup := by decide
example : encodable [([233], [0])] = false ∧ encodable [([116], [2147483648])] = false := by decide
example : exMembers.reverse.Perm exMembers := List.reverse_perm _
example : TpInRange (allTopics (memberMetadata exMembers)) exTp ∧
    (atpOf exTp (allTopics (memberMetadata exMembers))).length < 2147483648 := by decide
example : (wireOf exMembers).toOption.isSome = true := by decide +kernel
-- the loader: a reply omitting t2, one with t2 in error, then a complete one (3 requests)
example : loadTopicPartitions [[116, 49], [116, 50]]
    [[([116, 49], (0, [1, 0]))], [([116, 49], (0, [1, 0])), ([116, 50], (5, []))],
     [([116, 50], (0, [2, 0, 1])), ([116, 49], (0, [1, 0]))]]
    = some ([([116, 49], [0, 1]), ([116, 50], [0, 1, 2])], 3) := by decide +kernel
example : loadCovers [[116, 49], [116, 50]] [([116, 49], [0, 1])] = false := by decide
-- the escaping branch of `C15_leader_outcomes` occurs: the loader's answer lacks t2
example : (match (wireOf [([98], [[116, 49], [116, 50]])]).toOption.map (fun w => leaderAssign w (fun _ => [([116, 49], [0])])) with
    | some (.error (.need ts)) => ts == [[116, 49], [116, 50]]
    | _ => false) = true := by decide +kernel
example : subsEncodable [[116, 49], [0x1F600, 0xE9], []] = true ∧ subsEncodable [[0xD800]] = false := by decide
example : utf8Encode [0x1F600, 0xE9, 0x41] = .ok [0xF0, 0x9F, 0x98, 0x80, 0xC3, 0xA9, 0x41] := by rfl
-- the need / assertion outcomes of `C15_terminates` occur
example : roundRobin (memberMetadata exMembers) [] = .error (.need [[116, 49], [116, 50], [116, 51]]) := by rfl
example : roundRobin (memberMetadata [([98], [])]) exTp = .error .assertion := by rfl
-- the monitors reject wrong observations
example : exactlyOnce exMembers exTp [([98], [([116, 49], [1]), ([116, 50], [2, 3])]), ([97], [([116, 49], [0])]), ([99], [])] = false := by decide +kernel
example : onlySubscribed exMembers [([97], [([116, 50], [2])])] = false := by decide +kernel
example : balanced [([98], [[116]]), ([97], [[116]])] [([98], [([116], [0, 1, 2])]), ([97], [([116], [3])])] = false := by decide +kernel
example : nothingElse exMembers exTp [([97], [([116, 49], [7])])] = false := by decide +kernel
example : sameAssignment [([97], [([116], [0])])] [([97], [([116], [1])])] = false := by decide +kernel
-- the SyncGroup wire path: the hypotheses hold on the example (client id "c", correlation id 7, group
-- "g", generation 3, leader "b"), member "a" gets t1:[0,5] and "c" the empty map over the wire, a
-- stranger gets no response; and the range predicates can fail
example : (match generateAssignments exMembers exTp with
  | .ok encs => match syncEntries encs with
    | .ok ga => match Afkak.Wire.encodeSyncGroupRequest [99] 7 (some [103]) 3 (some [98]) ga with
      | .ok frame => memberViaSync frame 8 [97] == some [([116, 49], [0, 5])] &&
          memberViaSync frame 9 [99] == some [] && memberViaSync frame 9 [122] == none
      | _ => false
    | _ => false
  | _ => false) = true := by decide +kernel
example : (match generateAssignments exMembers exTp with
  | .ok encs => match syncEntries encs with
    | .ok ga => syncRequestInRange [99] 7 [103] 3 [98] ga && !syncRequestInRange [99] 2147483648 [103] 3 [98] ga
    | _ => false
  | _ => false) = true := by decide +kernel
example : corrsInRange (fun id => 1000 + id.length) exMembers = true := by decide
example : corrsInRange (fun _ => 2147483648) exMembers = false := by decide
-- `C15_loader_to_members`: a reply listing partition 1 of t1 twice completes the load, the glue returns
-- the encoded assignments (the ids of `exMembers` are distinct), and the snapshot lists 1 once
example : (match (wireOf exMembers).toOption,
      loadTopicPartitions (sortBy strLe (allTopics (memberMetadata exMembers)))
        [[([116, 49], (0, [1, 0, 1])), ([116, 50], (0, [2])), ([116, 51], (0, [4]))]] with
  | some w, some (snap, n) =>
    (leaderAssign w (fun _ => snap)).toOption.isSome && decide ((exMembers.map (·.1)).Nodup) &&
      (decodeMembers w).toOption == some exMembers && n == 1 && dget [116, 49] snap == some [0, 1]
  | _, _ => false) = true := by decide +kernel

end Afkak.Props.C15

/- OBLIGATIONS
C15_terminates
C15_exactly_once
C15_only_subscribed
C15_balanced
C15_perm_invariant
C15_codec_roundtrip
C15_codec_roundtrip_of_ok
C15_member_decodes_own
C15_end_to_end
C15_in_range_total
C15_metadata_roundtrip
C15_utf8
C15_wire_members
C15_leader_outcomes
C15_loader_contract
C15_loader_faithful
C15_leader_glue
C15_metadata_total
C15_sync_group_wire_decodes_own
C15_end_to_end_sync_group_wire
C15_sync_group_wire_total
C15_sync_group_wire_entries_agree
C15_loader_to_members
C15_loader_to_members_sync_group_wire
-/
/- OPEN_STATEMENTS
-/
