import Afkak.Monitor.C05
import AfkakProps.Open.C05
/-!
# C05 — responses and message sets decode to exactly what was encoded

`Afkak.Monitor.C05.expectedX v` is what the property demands the decoder returns for the grammar's
encoding `Spec.X.enc v` of a well-formed value `v`; the driver evaluates it on what the REAL decoders
return.  The theorems prove it of the model decoders, for all values.
-/
namespace Afkak.Props.C05
open Afkak Afkak.Wire Afkak.Codec Afkak.Consts Afkak.Monitor.C05

set_option synthInstance.maxSize 100000

/-! ## offsets of messages inside a compressed wrapper -/

/-- Format-1 wrapper (finding F2, repaired): the inner messages are reported with
    `wrapper offset − last inner offset + inner offset`, in order, nothing else changed; in
    particular the last one is reported at the wrapper's own offset. -/
theorem C05_absolute_offsets_v1 (w : Int) (items : List OffsetAndMessage) (last : OffsetAndMessage)
    (h : items.getLast? = some last) :
    v1Inner w (items, none) = (items.map (fun om => { om with offset := w - last.offset + om.offset }), none)
    ∧ ((v1Inner w (items, none)).1.getLast?.map (·.offset) = some w)
    ∧ ((v1Inner w (items, none)).1.map (·.message) = items.map (·.message)) := by
  have h1 : v1Inner w (items, none) = (items.map (fun om => { om with offset := w - last.offset + om.offset }), none) := by
    simp only [v1Inner, h]
  refine ⟨h1, ?_, ?_⟩
  · rw [h1]
    simp only [List.getLast?_map, h, Option.map_some]
    congr 1
    omega
  · rw [h1]
    simp [List.map_map, Function.comp_def]

/-- an inner set that ended with an exception yields nothing and re-raises it; an empty inner set yields nothing -/
theorem C05_v1_inner_error (w : Int) (items : List OffsetAndMessage) (e : Err) :
    v1Inner w (items, some e) = ([], some e) ∧ v1Inner w ([], none) = ([], none) := by
  constructor <;> rfl

/-- Format-0 wrapper: the inner messages are reported with the offsets stored inside, unchanged
    (the wrapper dispatch passes the inner generator through `id`). Stated on `decodeCodec`, the
    dispatch both formats share: with codec bits = gzip and a successful decompression, what comes
    out is `wrap` applied to the decoded inner set. -/
theorem C05_absolute_offsets_v0 (ext : Ext) (recSet : Bytes → Gen) (att : Int) (value : Option Bytes)
    (gzv : Bytes) (plain : Gen) (wrap : Gen → Gen)
    (hc : att.toNat &&& attributeCodecMask = codecGzip.toNat) (hg : ext.gunzip value = .ok gzv) :
    decodeCodec ext recSet att value plain wrap = wrap (recSet gzv)
    ∧ decodeCodec ext recSet att value plain id = recSet gzv := by
  have hne : ¬ (codecGzip.toNat = codecNone.toNat) := by decide
  constructor <;> simp only [decodeCodec, hc, hne, if_false, if_true, hg, id]

example : (5 : Int).toNat &&& attributeCodecMask = codecGzip.toNat := by decide
example : v1Inner 102 ([⟨0, default⟩, ⟨1, default⟩, ⟨2, default⟩], none)
    = ([⟨100, default⟩, ⟨101, default⟩, ⟨102, default⟩], none) := by decide

end Afkak.Props.C05

/- OBLIGATIONS
C05_absolute_offsets_v1
C05_v1_inner_error
C05_absolute_offsets_v0
-/
/- OPEN_STATEMENTS
C05_produce_v0_roundtrip
C05_produce_v2_roundtrip
C05_msgset_roundtrip
C05_gzip_roundtrip
C05_fetch_v0_roundtrip
C05_fetch_v2_roundtrip
C05_list_offsets_roundtrip
C05_metadata_roundtrip
C05_offset_commit_roundtrip
C05_offset_fetch_roundtrip
C05_join_group_roundtrip
C05_subscription_roundtrip
C05_assignment_roundtrip
C05_api_versions_roundtrip
-/
