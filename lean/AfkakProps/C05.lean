import Afkak.Monitor.C05
import AfkakProofs.Wire.RespProofs3
import AfkakProps.Open.C05
/-!
# C05 — responses and message sets decode to exactly what was encoded

`Afkak.Monitor.C05.expectedX v` is what the property demands the decoder returns for the grammar's
encoding `Spec.X.enc v` of a well-formed value `v`; the driver evaluates it on what the REAL decoders
return.  The theorems prove it of the model decoders, for all values.
-/
namespace Afkak.Props.C05
open Afkak Afkak.Wire Afkak.Codec Afkak.Consts Afkak.Monitor.C05

set_option synthInstance.maxSize 100000

/-! ## offsets of messages inside a compressed wrapper -/

/-- Format-1 wrapper (finding F2, repaired): the inner messages are reported with
    `wrapper offset − last inner offset + inner offset`, in order, nothing else changed; in
    particular the last one is reported at the wrapper's own offset. -/
theorem C05_absolute_offsets_v1 (w : Int) (items : List OffsetAndMessage) (last : OffsetAndMessage)
    (h : items.getLast? = some last) :
    v1Inner w (items, none) = (items.map (fun om => { om with offset := w - last.offset + om.offset }), none)
    ∧ ((v1Inner w (items, none)).1.getLast?.map (·.offset) = some w)
    ∧ ((v1Inner w (items, none)).1.map (·.message) = items.map (·.message)) := by
  have h1 : v1Inner w (items, none) = (items.map (fun om => { om with offset := w - last.offset + om.offset }), none) := by
    simp only [v1Inner, h]
  refine ⟨h1, ?_, ?_⟩
  · rw [h1]
    simp only [List.getLast?_map, h, Option.map_some]
    congr 1
    omega
  · rw [h1]
    simp [List.map_map, Function.comp_def]

/-- an inner set that ended with an exception yields nothing and re-raises it; an empty inner set yields nothing -/
theorem C05_v1_inner_error (w : Int) (items : List OffsetAndMessage) (e : Err) :
    v1Inner w (items, some e) = ([], some e) ∧ v1Inner w ([], none) = ([], none) := by
  constructor <;> rfl

/-- Format-0 wrapper: the inner messages are reported with the offsets stored inside, unchanged
    (the wrapper dispatch passes the inner generator through `id`). Stated on `decodeCodec`, the
    dispatch both formats share: with codec bits = gzip and a successful decompression, what comes
    out is `wrap` applied to the decoded inner set. -/
theorem C05_absolute_offsets_v0 (ext : Ext) (recSet : Bytes → Gen) (att : Int) (value : Option Bytes)
    (gzv : Bytes) (plain : Gen) (wrap : Gen → Gen)
    (hc : att.toNat &&& attributeCodecMask = codecGzip.toNat) (hg : ext.gunzip value = .ok gzv) :
    decodeCodec ext recSet att value plain wrap = wrap (recSet gzv)
    ∧ decodeCodec ext recSet att value plain id = recSet gzv := by
  have hne : ¬ (codecGzip.toNat = codecNone.toNat) := by decide
  constructor <;> simp only [decodeCodec, hc, hne, if_false, if_true, hg, id]

example : (5 : Int).toNat &&& attributeCodecMask = codecGzip.toNat := by decide
example : v1Inner 102 ([⟨0, default⟩, ⟨1, default⟩, ⟨2, default⟩], none)
    = ([⟨100, default⟩, ⟨101, default⟩, ⟨102, default⟩], none) := by decide

/-! ## responses: decoding the grammar's encoding gives the value back

`expectedX v = some e` says `v` is a well-formed response (encodable, ASCII topic / host names, UTF-8
ids, …) and `e` is the same value in afkak's result types.  For the generator-style decoders
`finished g e` says: exactly the items `e` were yielded and the generator then ended normally. -/

theorem C05_produce_v0_roundtrip : Afkak.Props.C05.C05_produce_v0_roundtrip_stmt := by
  intro v e he
  obtain ⟨cur, h⟩ := produceV0_roundtrip v e he
  exact ⟨_, h, rfl, cur, rfl⟩

theorem C05_produce_v2_roundtrip : Afkak.Props.C05.C05_produce_v2_roundtrip_stmt := by
  intro v e he
  obtain ⟨cur, h⟩ := produceV2_roundtrip v e he
  exact ⟨_, h, rfl, cur, rfl⟩

theorem C05_list_offsets_roundtrip : Afkak.Props.C05.C05_list_offsets_roundtrip_stmt := by
  intro v e he
  obtain ⟨cur, h⟩ := listOffsets_roundtrip v e he
  exact ⟨by rw [h], cur, by rw [h]⟩

theorem C05_offset_commit_roundtrip : Afkak.Props.C05.C05_offset_commit_roundtrip_stmt := by
  intro v e he
  obtain ⟨cur, h⟩ := offsetCommit_roundtrip v e he
  exact ⟨by rw [h], cur, by rw [h]⟩

theorem C05_offset_fetch_roundtrip : Afkak.Props.C05.C05_offset_fetch_roundtrip_stmt := by
  intro v e he
  obtain ⟨cur, h⟩ := offsetFetch_roundtrip v e he
  exact ⟨by rw [h], cur, by rw [h]⟩

/-- FindCoordinator -/
theorem C05_find_coordinator_roundtrip (v : Spec.FindCoordinatorResp) (e : ConsumerMetadataResp)
    (he : expectedFindCoordinator v = some e) :
    decodeConsumerMetadataResponse (Spec.findCoordinatorResponse.enc v) = .ok e :=
  findCoordinator_roundtrip v e he

theorem C05_join_group_roundtrip : Afkak.Props.C05.C05_join_group_roundtrip_stmt :=
  fun v e he => joinGroup_roundtrip v e he

/-- SyncGroup -/
theorem C05_sync_group_roundtrip (v : Spec.SyncGroupResp) (e : Int × Option Bytes) (he : expectedSyncGroup v = some e) :
    decodeSyncGroupResponse (Spec.syncGroupResponse.enc v) = .ok e := by
  simp only [expectedSyncGroup] at he
  split at he
  · rename_i hv; cases he; exact syncGroup_roundtrip v hv
  · cases he

/-- Heartbeat and LeaveGroup -/
theorem C05_error_only_roundtrip (v : Spec.ErrorOnlyResp) (e : Int) (he : expectedErrorOnly v = some e) :
    decodeHeartbeatResponse (Spec.errorOnlyResponse.enc v) = .ok e
    ∧ decodeLeaveGroupResponse (Spec.errorOnlyResponse.enc v) = .ok e := by
  simp only [expectedErrorOnly] at he
  split at he
  · rename_i hv
    cases he
    exact ⟨errorOnly_roundtrip v hv, errorOnly_roundtrip v hv⟩
  · cases he

/-- ApiVersions (finding F3, repaired) -/
theorem C05_api_versions_roundtrip : Afkak.Props.C05.C05_api_versions_roundtrip_stmt :=
  fun v e he => apiVersions_roundtrip v e he

theorem C05_subscription_roundtrip : Afkak.Props.C05.C05_subscription_roundtrip_stmt :=
  fun v e he => subscription_roundtrip v e he

/-- the correlation id is read back from any response -/
theorem C05_correlation_id (corr : Int) (rest : Bytes) (e : Int) (he : expectedCorrelationId corr = some e) :
    getResponseCorrelationId (int32.enc corr ++ rest) = .ok e := by
  simp only [expectedCorrelationId] at he
  split at he
  · rename_i hv; cases he; exact correlationId_roundtrip corr rest hv
  · cases he

/-! Non-vacuity: concrete well-formed values (boundary integers, every kind of error code, empty and
non-empty strings) for which `expectedX` is `some _`. -/
example : expectedProduceV0 (7, [([116], [(0, 0, 5), (2147483647, -1, 9223372036854775807)]), ([], [])])
    = some ([⟨[116], 0, 0, 5⟩, ⟨[116], 2147483647, -1, 9223372036854775807⟩], true) := by decide
example : (expectedApiVersions (7, 35, [(18, 0, 3), (0, 0, 8)])).isSome = true := by decide
example : (expectedJoinGroup (1, 0, 3, [114], [109], [109], [([109], [0, 1])])).isSome = true := by decide
example : (expectedOffsetFetch (-2147483648, [([116], [(0, -1, none, 3), (1, 5, some [], 0)])])).isSome = true := by decide

end Afkak.Props.C05

/- OBLIGATIONS
C05_absolute_offsets_v1
C05_v1_inner_error
C05_absolute_offsets_v0
C05_produce_v0_roundtrip
C05_produce_v2_roundtrip
C05_list_offsets_roundtrip
C05_offset_commit_roundtrip
C05_offset_fetch_roundtrip
C05_find_coordinator_roundtrip
C05_join_group_roundtrip
C05_sync_group_roundtrip
C05_error_only_roundtrip
C05_api_versions_roundtrip
C05_subscription_roundtrip
C05_correlation_id
-/
/- OPEN_STATEMENTS
C05_msgset_roundtrip
C05_gzip_roundtrip
C05_fetch_v0_roundtrip
C05_fetch_v2_roundtrip
C05_metadata_roundtrip
C05_assignment_roundtrip
-/
