import Afkak.Monitor.C05
import AfkakProofs.Wire.RespProofs3
import AfkakProofs.Wire.MsgSet
import AfkakProofs.Wire.RespProofs4
import AfkakProofs.Wire.FetchResp
import AfkakProofs.Wire.Nested
import AfkakProps.Open.C05
import AfkakProofs.Wire.ReplyVersions
import AfkakProofs.Wire.EncDec
import AfkakProofs.Wire.BrokerLimit
import AfkakProofs.Wire.ProducerBatch
import AfkakProofs.Wire.GenEq
import AfkakProofs.Wire.GenEqCodec
import AfkakProofs.Wire.GenEqLoops
import AfkakProofs.Wire.GenEqAssign
import AfkakProofs.Wire.GenEqMeta
import AfkakProofs.Wire.GenEqGen
import AfkakProofs.Wire.Xerial
/-!
# C05 — responses and message sets decode to exactly what was encoded

`Afkak.Monitor.C05.expectedX v` is what the property demands the decoder returns for the grammar's
encoding `Spec.X.enc v` of a well-formed value `v`; the driver evaluates it on what the REAL decoders
return.  The theorems prove it of the model decoders, for all values.
-/
namespace Afkak.Props.C05
open Afkak Afkak.Wire Afkak.Codec Afkak.Consts Afkak.Monitor.C05

set_option synthInstance.maxSize 100000

/-! ## offsets of messages inside a compressed wrapper -/

/-- Format-1 wrapper (finding F2, repaired): the inner messages are reported with
    `wrapper offset − last inner offset + inner offset`, in order, nothing else changed; in
    particular the last one is reported at the wrapper's own offset. -/
theorem C05_absolute_offsets_v1 (w : Int) (items : List OffsetAndMessage) (last : OffsetAndMessage)
    (h : items.getLast? = some last) :
    v1Inner w (items, none) = (items.map (fun om => { om with offset := w - last.offset + om.offset }), none)
    ∧ ((v1Inner w (items, none)).1.getLast?.map (·.offset) = some w)
    ∧ ((v1Inner w (items, none)).1.map (·.message) = items.map (·.message)) := by
  have h1 : v1Inner w (items, none) = (items.map (fun om => { om with offset := w - last.offset + om.offset }), none) := by
    simp only [v1Inner, h]
  refine ⟨h1, ?_, ?_⟩
  · rw [h1]
    simp only [List.getLast?_map, h, Option.map_some]
    congr 1
    omega
  · rw [h1]
    simp [List.map_map, Function.comp_def]

/-- an inner set that ended with an exception yields nothing and re-raises it; an empty inner set yields nothing -/
theorem C05_v1_inner_error (w : Int) (items : List OffsetAndMessage) (e : Err) :
    v1Inner w (items, some e) = ([], some e) ∧ v1Inner w ([], none) = ([], none) := by
  constructor <;> rfl

/-- Format-0 wrapper: the inner messages are reported with the offsets stored inside, unchanged
    (the wrapper dispatch passes the inner generator through `id`). Stated on `decodeCodec`, the
    dispatch both formats share: with codec bits = gzip and a successful decompression, what comes
    out is `wrap` applied to the decoded inner set. -/
theorem C05_absolute_offsets_v0 (ext : Ext) (recSet : Bytes → Gen) (att : Int) (value : Option Bytes)
    (gzv : Bytes) (plain : Gen) (wrap : Gen → Gen)
    (hc : att.toNat &&& attributeCodecMask = codecGzip.toNat) (hg : ext.gunzip value = .ok gzv) :
    decodeCodec ext recSet att value plain wrap = wrap (recSet gzv)
    ∧ decodeCodec ext recSet att value plain id = recSet gzv := by
  have hne : ¬ (codecGzip.toNat = codecNone.toNat) := by decide
  constructor <;> simp only [decodeCodec, hc, hne, if_false, if_true, hg, id]

example : (5 : Int).toNat &&& attributeCodecMask = codecGzip.toNat := by decide
example : v1Inner 102 ([⟨0, default⟩, ⟨1, default⟩, ⟨2, default⟩], none)
    = ([⟨100, default⟩, ⟨101, default⟩, ⟨102, default⟩], none) := by decide

/-! ## message sets -/

/-- **Encoding then decoding is the identity on messages**: a set of uncompressed messages of either
    format — null or empty keys and values, any attributes outside the codec bits, any offsets and
    timestamps — encoded by the grammar decodes to exactly its entries, in order, and the iteration
    ends normally.  (Format 1: the timestamp comes back as the integer that was encoded — finding F1,
    repaired.)  `ext.crc` is any checksum function. -/
theorem C05_msgset_roundtrip : Afkak.Props.C05.C05_msgset_roundtrip_stmt :=
  fun ext depth entries hv hp => msgset_roundtrip ext depth entries hv hp

/-- one message: what `_decode_message` yields for the grammar's encoding of a plain message -/
theorem C05_message_roundtrip (ext : Ext) (recSet : Bytes → Gen) (off : Int) (m : Spec.Msg)
    (hv : (Spec.message ext.crc).valid m = true) (hplain : m.attributes % 4 = 0) :
    decodeMessageWith ext recSet (some ((Spec.message ext.crc).enc m)) off = ([⟨off, toMessage m⟩], none) :=
  message_roundtrip ext recSet off m hv hplain

example : (Spec.messageSet (fun _ => 7)).valid
    [(5, ⟨1, 8, some 1234, some [107], some []⟩), (-1, ⟨0, 0, none, none, some [118]⟩)] = true := by decide

/-- **Compressed wrappers, absolute offsets** (gzip, one level, both formats, mixed with plain messages,
    ANY inner offsets, under `gunzip (gzip x) = x`): decoding yields exactly the messages the protocol
    says the set contains (`Entry.contents`: inner offsets as stored for a format-0 wrapper,
    `wrapper offset − last inner offset + inner offset` for a format-1 wrapper — finding F2, repaired),
    then ends normally; and that is also what the monitor demands of the implementation. -/
theorem C05_gzip_roundtrip_partial (ext : Ext) (gzip : Bytes → Bytes) (hg : ∀ x, ext.gunzip (some (gzip x)) = .ok x)
    (depth : Nat) (es : List Entry) (hok : ∀ e ∈ es, e.Ok ext.crc)
    (hv : (Spec.messageSet ext.crc).valid (es.map (Entry.toSpec ext.crc gzip)) = true) :
    decodeMessageSet ext (depth + 2) ((Spec.messageSet ext.crc).enc (es.map (Entry.toSpec ext.crc gzip))) =
      ((es.flatMap Entry.contents).map toOM, none)
    ∧ expectedSet ext.crc (fun b => (ext.gunzip (some b)).toOption) (depth + 1) (es.map (Entry.toSpec ext.crc gzip)) =
      some ((es.flatMap Entry.contents).map toOM, none) :=
  gzip_roundtrip ext gzip hg depth es hok hv

/-- the offset rules, on a compacted format-1 wrapper (inner relative offsets 0, 2, 5 under wrapper offset 105)
    and on a format-0 wrapper -/
example : Entry.contents (.wrapper 105 ⟨1, 1, some 0, none, none⟩
      [(0, ⟨1, 0, some 1, none, some [97]⟩), (2, ⟨1, 0, some 2, none, some [98]⟩), (5, ⟨1, 0, some 3, none, some [99]⟩)])
    = [(100, ⟨1, 0, some 1, none, some [97]⟩), (102, ⟨1, 0, some 2, none, some [98]⟩), (105, ⟨1, 0, some 3, none, some [99]⟩)] := by
  decide
example : Entry.contents (.wrapper 41 ⟨0, 1, none, none, none⟩ [(40, ⟨0, 0, none, none, some [97]⟩), (41, ⟨0, 0, none, none, none⟩)])
    = [(40, ⟨0, 0, none, none, some [97]⟩), (41, ⟨0, 0, none, none, none⟩)] := by decide

/-- **Nested sets, ANY depth, ANY decompressor**: whenever the protocol says what a message set contains
    — every wrapper's payload decompresses to bytes that parse as a message set, down to the nesting
    depth looked at — the decoder yields exactly that: messages of either format, gzip wrappers inside
    gzip wrappers, absolute offsets by the rule of each wrapper's format.  No hypothesis on `gunzip`
    (it is only applied to payloads it answers), none on the checksum function.  Rests on the
    converse law of the grammar (`Spec.messageSet_sound`: bytes that parse are the encoding of what
    they parse to). -/
theorem C05_gzip_roundtrip : Afkak.Props.C05.C05_gzip_roundtrip_stmt := by
  intro ext depth entries g h
  unfold expectedSet at h
  split at h
  · rename_i hv
    cases hl : expand ext.crc (fun b => (ext.gunzip (some b)).toOption) depth entries with
    | none => simp [hl] at h
    | some l =>
      simp only [hl, Option.map_some, Option.some.injEq] at h
      subst h
      exact nested_sets ext depth entries l hv hl
  · cases h

/-- the grammar of message sets is unambiguous: bytes that parse as a message set are the encoding of
    the entries they parse to, which are values the grammar can carry -/
theorem C05_grammar_unambiguous (crc : Bytes → Nat) (raw : Bytes) (entries : List (Int × Spec.Msg))
    (h : (Spec.messageSet crc).dec raw = some entries) :
    (Spec.messageSet crc).valid entries = true ∧ raw = (Spec.messageSet crc).enc entries :=
  Spec.messageSet_sound crc raw entries h

/-- what the monitor expects of every partition of a fetch response is what the decoder finds -/
theorem C05_fetch_parts_expected (ext : Ext) (depth : Nat)
    (topics : List (Bytes × List (Int × Int × Int × List (Int × Spec.Msg)))) (parts : List FetchResp)
    (h : expectedFetchParts ext.crc (fun b => (ext.gunzip (some b)).toOption) depth topics = some parts) :
    parts = flatten (fetchRespOf ext (depth + 1)) topics := by
  unfold expectedFetchParts at h
  have := mapM_eq_map_of_forall _ (fun tp => fetchRespOf ext (depth + 1) tp.1 tp.2) _ parts h (by
    intro tp _ y hy
    cases hs : expectedSet ext.crc (fun b => (ext.gunzip (some b)).toOption) depth tp.2.2.2.2 with
    | none => simp [hs] at hy
    | some g =>
      simp only [hs, Option.map_some, Option.some.injEq] at hy
      subst hy
      simp only [fetchRespOf, C05_gzip_roundtrip ext depth tp.2.2.2.2 g hs])
  rw [this, flatten_pair_map]

/-- **Fetch v0, any record sets** (plain, compressed, nested) -/
theorem C05_fetch_v0_roundtrip : Afkak.Props.C05.C05_fetch_v0_roundtrip_stmt := by
  intro ext depth v e he
  unfold expectedFetchV0 at he
  split at he
  · rename_i hc
    have hc := Bool.and_eq_true_iff.mp hc
    cases hp : expectedFetchParts ext.crc (fun b => (ext.gunzip (some b)).toOption) depth v.2 with
    | none => simp [hp] at he
    | some parts =>
      simp only [hp, Option.map_some, Option.some.injEq, Prod.mk.injEq, and_true] at he
      subst he
      obtain ⟨cur, h⟩ := fetchV0_structure ext (depth + 1) v hc.1 hc.2
      rw [h, C05_fetch_parts_expected ext depth v.2 parts hp]
      exact ⟨rfl, cur, rfl⟩
  · cases he

/-- **Fetch v2, any record sets** (there is no version-1 response grammar and no version-1 theorem:
    the client does not implement version-1 replies, see `C04_reply_v1_not_implemented`) -/
theorem C05_fetch_v2_roundtrip : Afkak.Props.C05.C05_fetch_v2_roundtrip_stmt := by
  intro ext depth v e he
  unfold expectedFetchV2 at he
  split at he
  · rename_i hc
    have hc := Bool.and_eq_true_iff.mp hc
    cases hp : expectedFetchParts ext.crc (fun b => (ext.gunzip (some b)).toOption) depth v.2.2 with
    | none => simp [hp] at he
    | some parts =>
      simp only [hp, Option.map_some, Option.some.injEq, Prod.mk.injEq, and_true] at he
      subst he
      obtain ⟨cur, h⟩ := fetchV2_structure ext (depth + 1) v hc.1 hc.2
      rw [h, C05_fetch_parts_expected ext depth v.2.2 parts hp]
      exact ⟨rfl, cur, rfl⟩
  · cases he

/-- **Fetch v0 / v2, layout**: every (topic, partition, error, high watermark) comes back in order, and
    each partition's `messages` is the message-set decoder run on exactly that partition's record set
    (for ANY record sets — compressed or not). -/
theorem C05_fetch_structure (ext : Ext) (depth : Nat) :
    (∀ v, (Spec.fetchResponseV0 ext.crc).valid v = true → topicsAscii v.2 = true →
      ∃ cur, decodeFetchResponse ext depth ((Spec.fetchResponseV0 ext.crc).enc v) 0 =
        (flatten (fetchRespOf ext depth) v.2, .ok cur))
    ∧ (∀ v, (Spec.fetchResponseV2 ext.crc).valid v = true → topicsAscii v.2.2 = true →
      ∃ cur, decodeFetchResponse ext depth ((Spec.fetchResponseV2 ext.crc).enc v) 2 =
        (flatten (fetchRespOf ext depth) v.2.2, .ok cur)) :=
  ⟨fun v hv ha => fetchV0_structure ext depth v hv ha, fun v hv ha => fetchV2_structure ext depth v hv ha⟩

/-- Fetch v0 with uncompressed record sets: the monitor's expectation is met (`_partial`: the
    excluded situation — some message carries codec bits — is the hypothesis `allPlain`). -/
theorem C05_fetch_v0_roundtrip_partial (ext : Ext) (depth : Nat) (v : Spec.FetchRespV0) (e : List FetchResp)
    (hp : allPlain v.2)
    (he : expectedFetchV0 ext.crc (fun b => (ext.gunzip (some b)).toOption) (depth + 1) v = some (e, true)) :
    finished (decodeFetchResponse ext (depth + 1) ((Spec.fetchResponseV0 ext.crc).enc v) 0) e := by
  unfold expectedFetchV0 at he
  split at he
  · rename_i hc
    have hc := Bool.and_eq_true_iff.mp hc
    have hv2 := (seq_valid hc.1).2
    rw [expectedFetchParts_plain ext _ depth v.2 hv2 hp] at he
    simp only [Option.map_some, Option.some.injEq, Prod.mk.injEq, and_true] at he
    obtain ⟨cur, h⟩ := fetchV0_structure ext (depth + 1) v hc.1 hc.2
    rw [h, ← he]
    exact ⟨rfl, cur, rfl⟩
  · cases he

/-- Fetch v2 with uncompressed record sets -/
theorem C05_fetch_v2_roundtrip_partial (ext : Ext) (depth : Nat) (v : Spec.FetchRespV2) (e : List FetchResp)
    (hp : allPlain v.2.2)
    (he : expectedFetchV2 ext.crc (fun b => (ext.gunzip (some b)).toOption) (depth + 1) v = some (e, true)) :
    finished (decodeFetchResponse ext (depth + 1) ((Spec.fetchResponseV2 ext.crc).enc v) 2) e := by
  unfold expectedFetchV2 at he
  split at he
  · rename_i hc
    have hc := Bool.and_eq_true_iff.mp hc
    have hv2 := (seq_valid (seq_valid hc.1).2).2
    rw [expectedFetchParts_plain ext _ depth v.2.2 hv2 hp] at he
    simp only [Option.map_some, Option.some.injEq, Prod.mk.injEq, and_true] at he
    obtain ⟨cur, h⟩ := fetchV2_structure ext (depth + 1) v hc.1 hc.2
    rw [h, ← he]
    exact ⟨rfl, cur, rfl⟩
  · cases he

/-! ## responses: decoding the grammar's encoding gives the value back

`expectedX v = some e` says `v` is a well-formed response (encodable, ASCII topic / host names, UTF-8
ids, …) and `e` is the same value in afkak's result types.  For the generator-style decoders
`finished g e` says: exactly the items `e` were yielded and the generator then ended normally. -/

theorem C05_produce_v0_roundtrip : Afkak.Props.C05.C05_produce_v0_roundtrip_stmt := by
  intro v e he
  obtain ⟨cur, h⟩ := produceV0_roundtrip v e he
  exact ⟨_, h, rfl, cur, rfl⟩

theorem C05_produce_v2_roundtrip : Afkak.Props.C05.C05_produce_v2_roundtrip_stmt := by
  intro v e he
  obtain ⟨cur, h⟩ := produceV2_roundtrip v e he
  exact ⟨_, h, rfl, cur, rfl⟩

theorem C05_list_offsets_roundtrip : Afkak.Props.C05.C05_list_offsets_roundtrip_stmt := by
  intro v e he
  obtain ⟨cur, h⟩ := listOffsets_roundtrip v e he
  exact ⟨by rw [h], cur, by rw [h]⟩

theorem C05_offset_commit_roundtrip : Afkak.Props.C05.C05_offset_commit_roundtrip_stmt := by
  intro v e he
  obtain ⟨cur, h⟩ := offsetCommit_roundtrip v e he
  exact ⟨by rw [h], cur, by rw [h]⟩

theorem C05_offset_fetch_roundtrip : Afkak.Props.C05.C05_offset_fetch_roundtrip_stmt := by
  intro v e he
  obtain ⟨cur, h⟩ := offsetFetch_roundtrip v e he
  exact ⟨by rw [h], cur, by rw [h]⟩

/-- FindCoordinator -/
theorem C05_find_coordinator_roundtrip (v : Spec.FindCoordinatorResp) (e : ConsumerMetadataResp)
    (he : expectedFindCoordinator v = some e) :
    decodeConsumerMetadataResponse (Spec.findCoordinatorResponse.enc v) = .ok e :=
  findCoordinator_roundtrip v e he

theorem C05_join_group_roundtrip : Afkak.Props.C05.C05_join_group_roundtrip_stmt :=
  fun v e he => joinGroup_roundtrip v e he

/-- SyncGroup -/
theorem C05_sync_group_roundtrip (v : Spec.SyncGroupResp) (e : Int × Option Bytes) (he : expectedSyncGroup v = some e) :
    decodeSyncGroupResponse (Spec.syncGroupResponse.enc v) = .ok e := by
  simp only [expectedSyncGroup] at he
  split at he
  · rename_i hv; cases he; exact syncGroup_roundtrip v hv
  · cases he

/-- Heartbeat and LeaveGroup -/
theorem C05_error_only_roundtrip (v : Spec.ErrorOnlyResp) (e : Int) (he : expectedErrorOnly v = some e) :
    decodeHeartbeatResponse (Spec.errorOnlyResponse.enc v) = .ok e
    ∧ decodeLeaveGroupResponse (Spec.errorOnlyResponse.enc v) = .ok e := by
  simp only [expectedErrorOnly] at he
  split at he
  · rename_i hv
    cases he
    exact ⟨errorOnly_roundtrip v hv, errorOnly_roundtrip v hv⟩
  · cases he

/-- ApiVersions (finding F3, repaired) -/
theorem C05_api_versions_roundtrip : Afkak.Props.C05.C05_api_versions_roundtrip_stmt :=
  fun v e he => apiVersions_roundtrip v e he

theorem C05_subscription_roundtrip : Afkak.Props.C05.C05_subscription_roundtrip_stmt :=
  fun v e he => subscription_roundtrip v e he

/-- the assignment inside SyncGroup -/
theorem C05_assignment_roundtrip : Afkak.Props.C05.C05_assignment_roundtrip_stmt :=
  fun v e he => assignment_roundtrip v e he

/-- Metadata v0: brokers and topics as dicts keyed by node id / topic / partition, nothing lost -/
theorem C05_metadata_roundtrip : Afkak.Props.C05.C05_metadata_roundtrip_stmt :=
  fun v e he => metadata_roundtrip v e he

/-- the correlation id is read back from any response -/
theorem C05_correlation_id (corr : Int) (rest : Bytes) (e : Int) (he : expectedCorrelationId corr = some e) :
    getResponseCorrelationId (int32.enc corr ++ rest) = .ok e := by
  simp only [expectedCorrelationId] at he
  split at he
  · rename_i hv; cases he; exact correlationId_roundtrip corr rest hv
  · cases he

/-! ## completeness: every `api_version`, and afkak's encoder composed with afkak's decoder -/

/-- **Every value of `api_version`** (completeness of the version table): the two versioned decoders
    take any integer.  `decode_produce_response`: 0 selects the v0 layout, EVERY version ≥ 1 the v2
    layout (so 1 is read as 2 — a version-1 reply has no log-append time and is not implemented,
    `C04_reply_v1_not_implemented` — and 3, 4, … as 2: the client hands on the broker's maximum), a
    negative one raises `ValueError` from the call itself.  `decode_fetch_response`: 0 → v0, every
    version ≥ 2 → v2, and 1 or a negative one binds neither branch: `UnboundLocalError` on EVERY input.
    With `C05_produce_v0/v2_roundtrip` and `C05_fetch_v0/v2_roundtrip` no integer is left over. -/
theorem C05_reply_version_dispatch :
    (∀ data (v : Int), 1 ≤ v → decodeProduceResponse data v = decodeProduceResponse data 2)
    ∧ (∀ data (v : Int), v < 0 → decodeProduceResponse data v = .error .valueError)
    ∧ (∀ ext depth data (v : Int), 2 ≤ v → decodeFetchResponse ext depth data v = decodeFetchResponse ext depth data 2)
    ∧ (∀ ext depth data (v : Int), v = 1 ∨ v < 0 → decodeFetchResponse ext depth data v = ([], .error .unboundLocal)) :=
  ⟨decodeProduceResponse_ge1, decodeProduceResponse_neg, decodeFetchResponse_ge2, decodeFetchResponse_unbound⟩

/-- hence the round trip for every version the decoders accept -/
theorem C05_reply_roundtrip_any_version (ver : Int) :
    (1 ≤ ver → ∀ v e, expectedProduceV2 v = some (e, true) →
        ∃ g, decodeProduceResponse (Spec.produceResponseV2.enc v) ver = .ok g ∧ finished g e)
    ∧ (2 ≤ ver → ∀ (ext : Ext) (depth : Nat) v e,
        expectedFetchV2 ext.crc (fun b => (ext.gunzip (some b)).toOption) depth v = some (e, true) →
        finished (decodeFetchResponse ext (depth + 1) ((Spec.fetchResponseV2 ext.crc).enc v) ver) e) := by
  constructor
  · intro h v e he
    rw [decodeProduceResponse_ge1 _ ver h]
    exact C05_produce_v2_roundtrip v e he
  · intro h ext depth v e he
    rw [decodeFetchResponse_ge2 ext _ _ ver h]
    exact C05_fetch_v2_roundtrip ext depth v e he

/-- **Encoding then decoding is the identity on messages — afkak's own encoder, then afkak's decoder**
    (`_encode_message_set(ms, offset, magic)` for EVERY `offset` argument, then
    `_decode_message_set_iter`): whenever the encoder writes bytes at all and no message carries codec
    bits, the decoder yields exactly the caller's messages, in order, the `i`-th at offset
    `offset + i` (0 when no offset was given), and ends normally.  `stamped` is the only difference
    the wire makes: a format-0 message has no timestamp, a format-1 message without one carries the
    encoder's clock.  No well-formedness hypothesis: that every written field is one the grammar can
    carry is derived from the encoder's success. -/
theorem C05_encode_decode_identity (ext : Ext) (depth : Nat) (ms : List Message) (offset : Option Int) (magic : Int)
    (data : Bytes) (h : encodeMessageSet ext ms offset magic = .ok data)
    (hplain : ∀ m ∈ ms, m.attributes % 4 = 0) :
    decodeMessageSet ext (depth + 1) data =
      (ms.zipIdx.map (fun (p : Message × Nat) =>
        (⟨(match offset with | some o => o + (p.2 : Int) | none => 0), stamped ext.nowMs p.1⟩ : OffsetAndMessage)), none)
    ∧ ∃ entries, Monitor.C04.entriesAt ext.nowMs offset ms = some entries
        ∧ (Spec.messageSet ext.crc).valid entries = true ∧ data = (Spec.messageSet ext.crc).enc entries :=
  ⟨encode_decode_messages ext depth ms offset magic data h hplain,
   let ⟨entries, h1, h2, h3, _⟩ := encode_decode_identity ext depth ms offset magic data h hplain
   ⟨entries, h1, h2, h3⟩⟩

def idExt : Ext :=
  { crc := fun bs => bs.length * 2654435761 + 7, gzip := fun _ => .error .extMissing, gunzip := fun _ => .error .extMissing,
    snappy := fun _ => .error .notImplemented, unsnappy := fun _ => .error .notImplemented, nowMs := 1500000000123 }
/-- non-vacuity: two format-1 messages (null key / empty value, timestamp absent / −1, attribute bit 3)
    from offset 7 encode, and come back at offsets 7 and 8 -/
example : ∃ data, encodeMessageSet idExt [⟨1, 8, none, some [], none⟩, ⟨1, 0, some [107], none, some (-1)⟩] (some 7) 1 = .ok data
    ∧ decodeMessageSet idExt 1 data =
      ([⟨7, ⟨1, 8, none, some [], some 1500000000123⟩⟩, ⟨8, ⟨1, 0, some [107], none, some (-1)⟩⟩], none) :=
  ⟨_, rfl, by decide +kernel⟩

/-- The DISPATCH on the codec field (`att & 0x03`) in `_decode_message`, both formats — what happens
    inside `snappy_decode` (codec 2: the xerial framing loop) is NOT covered here: see
    `C05_snappy_xerial_roundtrip` and `C05_xerial_negative_block_spins` (model `Afkak/Wire/Xerial.lean`, compared with the real loop through a stub `snappy` module).  Dispatch
    (`C05_absolute_offsets_v0` is the gzip branch with a successful decompression): 0 yields the message
    itself; 2 (snappy) hands the value to `snappy_decode` and yields `wrap` of the decoded inner set —
    the same dispatch as gzip — or raises what `snappy_decode` raised (`NotImplementedError` when
    python-snappy is absent); a failing `gzip_decode` raises its exception and yields nothing; 3 raises
    `ProtocolError`.  `att` comes from a `B` field: no other value exists. -/
theorem C05_codec_dispatch (ext : Ext) (recSet : Bytes → Gen) (att : Int) (value : Option Bytes)
    (plain : Gen) (wrap : Gen → Gen) :
    (att.toNat &&& attributeCodecMask = codecNone.toNat → decodeCodec ext recSet att value plain wrap = plain)
    ∧ (∀ snp, att.toNat &&& attributeCodecMask = codecSnappy.toNat → ext.unsnappy value = .ok snp →
        decodeCodec ext recSet att value plain wrap = wrap (recSet snp))
    ∧ (∀ e, att.toNat &&& attributeCodecMask = codecSnappy.toNat → ext.unsnappy value = .error e →
        decodeCodec ext recSet att value plain wrap = ([], some e))
    ∧ (∀ e, att.toNat &&& attributeCodecMask = codecGzip.toNat → ext.gunzip value = .error e →
        decodeCodec ext recSet att value plain wrap = ([], some e))
    ∧ (att.toNat &&& attributeCodecMask = 3 → decodeCodec ext recSet att value plain wrap = ([], some .protocol))
    ∧ (att.toNat &&& attributeCodecMask < 4) := by
  have h10 : ¬ (codecGzip.toNat = codecNone.toNat) := by decide
  have h20 : ¬ (codecSnappy.toNat = codecNone.toNat) := by decide
  have h21 : ¬ (codecSnappy.toNat = codecGzip.toNat) := by decide
  have h30 : ¬ (3 = codecNone.toNat) := by decide
  have h31 : ¬ (3 = codecGzip.toNat) := by decide
  have h32 : ¬ (3 = codecSnappy.toNat) := by decide
  refine ⟨?_, ?_, ?_, ?_, ?_, ?_⟩
  · intro hc; simp only [decodeCodec, hc, if_true]
  · intro snp hc hs; simp only [decodeCodec, hc, h20, h21, if_false, if_true, hs]
  · intro e hc hs; simp only [decodeCodec, hc, h20, h21, if_false, if_true, hs]
  · intro e hc hs; simp only [decodeCodec, hc, h10, if_false, if_true, hs]
  · intro hc; simp only [decodeCodec, hc, h30, h31, h32, if_false]
  · have : attributeCodecMask = 3 := by decide
    rw [this]
    exact Nat.lt_succ_of_le Nat.and_le_right
/-- **The broker limit** (the other side of `C05_metadata_roundtrip`, whose well-formedness includes
    `≤ 1024 brokers`): a Metadata response the grammar can carry that lists more than `MAX_BROKERS`
    brokers is refused with `InvalidMessageError`, whatever else it holds.  This is the one place where
    a response that is well-formed for the protocol is deliberately not decoded. -/
theorem C05_metadata_broker_limit (v : Spec.MetadataResp) (hv : Spec.metadataResponse.valid v = true)
    (hn : (v.2.1.length : Int) > maxBrokers) :
    decodeMetadataResponse (Spec.metadataResponse.enc v) = .error .invalidMessage :=
  metadata_too_many_brokers v hv hn

example : Spec.metadataResponse.valid (1, List.replicate 1025 (0, [104], 9092), []) = true
    ∧ (((1, List.replicate 1025 (0, [104], 9092), []) : Spec.MetadataResp).2.1.length : Int) > maxBrokers := by
  decide +kernel
/-- **The producer's compressed batch comes back from the decoder** (afkak's encoder path composed with
    afkak's decoder, compressed case): `create_message_set(requests, CODEC_GZIP, magic)` builds one
    wrapper, `_encode_message_set([wrapper])` is what the produce encoder writes for the partition; if
    the decompressor undoes the compressor, `_decode_message_set_iter` yields exactly the requests'
    payloads, in order, each with its request's key, attributes 0, the format asked for (format 1:
    stamped with the encoder's clock), every one at offset 0 — afkak writes 0 for the wrapper and for
    every inner offset, and both offset rules (format 0: as stored; format 1: wrapper − last + inner)
    give 0 — then ends normally.  No well-formedness hypothesis: derived from the encoders' success. -/
theorem C05_producer_batch_roundtrip (ext : Ext) (depth : Nat) (reqs : List (Option Bytes × List (Option Bytes)))
    (magic magic' : Int) (ms : List Message) (data : Bytes)
    (hinv : ∀ b z, ext.gzip b = .ok z → ext.gunzip (some z) = .ok b)
    (h : createMessageSet ext reqs codecGzip magic = .ok ms)
    (hd : encodeMessageSet ext ms none magic' = .ok data) :
    decodeMessageSet ext (depth + 2) data =
      ((plainEntries ext.nowMs magic reqs).map (fun e => ⟨e.1, toMessage e.2⟩), none) :=
  producer_batch_roundtrip ext depth reqs magic magic' ms data hinv h hd

/-- non-vacuity, with the identity as compressor and decompressor: two requests (keys `k` / null, three
    payloads, one null, one empty) as a format-1 gzip batch: built, written, and decoded to the payloads -/
def batchExt : Ext :=
  { crc := fun bs => bs.length * 2654435761 + 7, gzip := fun b => .ok b,
    gunzip := fun b => match b with | some b => .ok b | none => .error .typeError,
    snappy := fun _ => .error .notImplemented, unsnappy := fun _ => .error .notImplemented, nowMs := 1500000000123 }
example : ∃ ms data, createMessageSet batchExt [(some [107], [some [1, 2], none]), (none, [some []])] codecGzip 1 = .ok ms
    ∧ encodeMessageSet batchExt ms none 1 = .ok data
    ∧ decodeMessageSet batchExt 2 data =
      ([⟨0, ⟨1, 0, some [107], some [1, 2], some 1500000000123⟩⟩, ⟨0, ⟨1, 0, some [107], none, some 1500000000123⟩⟩,
        ⟨0, ⟨1, 0, none, some [], some 1500000000123⟩⟩], none) :=
  ⟨_, _, rfl, rfl, by decide +kernel⟩
/-! Non-vacuity: concrete well-formed values (boundary integers, every kind of error code, empty and
non-empty strings) for which `expectedX` is `some _`. -/
example : expectedProduceV0 (7, [([116], [(0, 0, 5), (2147483647, -1, 9223372036854775807)]), ([], [])])
    = some ([⟨[116], 0, 0, 5⟩, ⟨[116], 2147483647, -1, 9223372036854775807⟩], true) := by decide
example : (expectedApiVersions (7, 35, [(18, 0, 3), (0, 0, 8)])).isSome = true := by decide
example : (expectedJoinGroup (1, 0, 3, [114], [109], [109], [([109], [0, 1])])).isSome = true := by decide
example : (expectedOffsetFetch (-2147483648, [([116], [(0, -1, none, 3), (1, 5, some [], 0)])])).isSome = true := by decide

/-- **The two codec masks agree wherever the monitor judges**: the protocol's codec field is
    `attributes mod 8`, afkak masks with `0x03` (`mod 4`).  For every attributes byte whose protocol
    codec is below 4 the two are equal; a message whose protocol codec is 2 or more (snappy, lz4, or a
    value formats 0/1 do not define) makes the monitor's expectation undefined (out-of-range), so the
    disagreement of the masks on 4..7 is never judged as a success. -/
theorem C05_codec_mask_agree :
    (∀ a : Nat, a % 8 < 4 → a % 4 = a % 8)
    ∧ (∀ (ow : Int → Spec.Msg → Option (List (Int × Spec.Msg))) (off : Int) (m : Spec.Msg) (rest : List (Int × Spec.Msg)),
        2 ≤ m.attributes % 8 → expandWith ow ((off, m) :: rest) = none) := by
  constructor
  · intro a h; omega
  · intro ow off m rest h
    unfold expandWith
    cases expandWith ow rest with
    | none => rfl
    | some tail =>
      simp only
      rw [if_neg (by omega), if_neg (by omega)]


/-! ## the model's readers ARE the source: terms regenerated from `/repo`'s AST on every run

`Afkak.Consts.gen*` (`Afkak/Generated/WiregenConsts.lean`) are emitted by
`harness/lib/wire_translate.py` from the AST of `afkak/_util.py` / `afkak/kafkacodec.py`, one line per
source statement.  Each equals the hand-written model function for ALL arguments (every buffer, every
cursor, also negative and out-of-range ones), so every theorem above about the model function is a
theorem about the translated source text. -/

/-- `_util.read_short_bytes` -/
theorem C05_generated_read_short_bytes_eq_model (data : Bytes) (cur : Int) :
    genReadShortBytes data cur = readShortBytes data cur := gen_readShortBytes data cur

/-- `_util.read_int_string` -/
theorem C05_generated_read_int_string_eq_model (data : Bytes) (cur : Int) :
    genReadIntString data cur = readIntString data cur := gen_readIntString data cur

/-- `_util.read_short_ascii` -/
theorem C05_generated_read_short_ascii_eq_model (data : Bytes) (cur : Int) :
    genReadShortAscii data cur = readShortAscii data cur := gen_readShortAscii data cur

/-- `_util.read_short_text` -/
theorem C05_generated_read_short_text_eq_model (data : Bytes) (cur : Int) :
    genReadShortText data cur = readShortText data cur := gen_readShortText data cur

/-- `_util.relative_unpack`, for every format string -/
theorem C05_generated_relative_unpack_eq_model (fmt : List Char) (data : Bytes) (cur : Int) :
    genRelativeUnpack fmt data cur = relativeUnpack fmt data cur := gen_relativeUnpack fmt data cur

/-- `KafkaCodec.get_response_correlation_id` -/
theorem C05_generated_get_response_correlation_id_eq_model (data : Bytes) :
    genGetResponseCorrelationId data = getResponseCorrelationId data := gen_getResponseCorrelationId data

/-- `KafkaCodec.decode_leave_group_response` and `decode_heartbeat_response` -/
theorem C05_generated_decode_error_only_eq_model (data : Bytes) :
    genDecodeLeaveGroupResponse data = decodeLeaveGroupResponse data
    ∧ genDecodeHeartbeatResponse data = decodeHeartbeatResponse data := gen_decodeErrorOnly data

/-- `KafkaCodec.decode_sync_group_response` -/
theorem C05_generated_decode_sync_group_response_eq_model (data : Bytes) :
    genDecodeSyncGroupResponse data = decodeSyncGroupResponse data := gen_decodeSyncGroupResponse data

/-- `KafkaCodec.decode_api_versions_response` including its `for _i in range(num_versions)` loop; the
    generated result is `(error_code, [(api_key, min_version, max_version)])` -/
theorem C05_generated_decode_api_versions_response_eq_model (data : Bytes) :
    (genDecodeApiVersionsResponse data).map (fun r => (r.1, r.2.map apiVersionOfTuple))
      = decodeApiVersionsResponse data := gen_decodeApiVersionsResponse data

/-- `KafkaCodec.decode_join_group_protocol_metadata` including its subscription loop -/
theorem C05_generated_decode_join_group_protocol_metadata_eq_model (data : Bytes) :
    (genDecodeJoinGroupProtocolMetadata data).map (fun r => (⟨r.1, r.2.1, r.2.2⟩ : JoinGroupProtocolMetadata))
      = decodeJoinGroupProtocolMetadata data := gen_decodeJoinGroupProtocolMetadata data

/-- `KafkaCodec.decode_join_group_response` including its member loop -/
theorem C05_generated_decode_join_group_response_eq_model (data : Bytes) :
    (genDecodeJoinGroupResponse data).map
        (fun r => (⟨r.1, r.2.1, r.2.2.1, r.2.2.2.1, r.2.2.2.2.1, r.2.2.2.2.2⟩ : JoinGroupResp))
      = decodeJoinGroupResponse data := gen_decodeJoinGroupResponse data

/-- `KafkaCodec.decode_sync_group_member_assignment` (what each member decodes): version check, the
    topic loop with `relative_unpack(">%si" % num_partitions, ..)`, the dict built by
    `assignments[topic] = partitions` (a repeated topic keeps its place, last value wins) -/
theorem C05_generated_decode_sync_group_member_assignment_eq_model (data : Bytes) :
    (genDecodeSyncGroupMemberAssignment data).map (fun r => (⟨r.1, r.2.1, r.2.2⟩ : SyncGroupMemberAssignment))
      = decodeSyncGroupMemberAssignment data := gen_decodeSyncGroupMemberAssignment data

/-- `KafkaCodec.decode_consumermetadata_response` (FindCoordinator); `nativeString(host)` is the
    identity on the ASCII text `read_short_ascii` returns -/
theorem C05_generated_decode_consumermetadata_response_eq_model (data : Bytes) :
    (genDecodeConsumermetadataResponse data).map (fun r => (⟨r.1, r.2.1, r.2.2.1, r.2.2.2⟩ : ConsumerMetadataResp))
      = decodeConsumerMetadataResponse data := gen_decodeConsumerMetadataResponse data

/-- `KafkaCodec.decode_metadata_response`: the MAX_BROKERS refusal and the three nested loops that
    fill the brokers / topics / partitions dicts (a repeated key keeps its place, last value wins);
    `convBrokers` / `convTopics` turn the constructors' argument tuples into the model's structures -/
theorem C05_generated_decode_metadata_response_eq_model (data : Bytes) :
    (genDecodeMetadataResponse data).map (fun r => (convBrokers r.1, convTopics r.2))
      = decodeMetadataResponse data := gen_decodeMetadataResponse data

/-! ### generators: the generated term runs in the monad `Y item` (items yielded, then how the run ended) -/

/-- `KafkaCodec.decode_offset_commit_response` (a generator): the same items in the same order and the
    same ending (exhausted / the exception), for every buffer -/
theorem C05_generated_decode_offset_commit_response_eq_model (data : Bytes) :
    ((genDecodeOffsetCommitResponse data).1.map convOC, (genDecodeOffsetCommitResponse data).2)
      = endG (decodeOffsetCommitResponse data) := gen_decodeOffsetCommitResponse data

/-- `KafkaCodec.decode_offset_fetch_response` (a generator) -/
theorem C05_generated_decode_offset_fetch_response_eq_model (data : Bytes) :
    ((genDecodeOffsetFetchResponse data).1.map convOF, (genDecodeOffsetFetchResponse data).2)
      = endG (decodeOffsetFetchResponse data) := gen_decodeOffsetFetchResponse data

/-- `KafkaCodec.decode_offset_response` (ListOffsets; a generator with an inner non-yielding loop) -/
theorem C05_generated_decode_offset_response_eq_model (data : Bytes) :
    ((genDecodeOffsetResponse data).1.map convOR, (genDecodeOffsetResponse data).2)
      = endG (decodeOffsetResponse data) := gen_decodeOffsetResponse data

/-- the nested generators `v0` and `v2` of `KafkaCodec.decode_produce_response` are the two branches of
    the model: whatever the model returns for `api_version = 0` is what the generated `v0` does, and
    for every `api_version >= 1` what the generated `v2` does (same items, same order, same ending).
    The dispatch on `api_version` around them stays hand-modelled. -/
theorem C05_generated_decode_produce_response_eq_model (data : Bytes) :
    (∀ g, decodeProduceResponse data 0 = .ok g →
      ((genDecodeProduceResponseV0 data).1.map convPR, (genDecodeProduceResponseV0 data).2) = endG g) ∧
    (∀ v g, v ≥ 1 → decodeProduceResponse data v = .ok g →
      ((genDecodeProduceResponseV2 data).1.map convPR, (genDecodeProduceResponseV2 data).2) = endG g) := by
  refine ⟨?_, ?_⟩
  · intro g hg
    simp only [decodeProduceResponse, produceRespV0Is, if_true] at hg
    injection hg with hg
    rw [← hg]; exact gen_decodeProduceResponseV0 data
  · intro v g hv hg
    have h0 : ¬ v = 0 := by omega
    simp only [decodeProduceResponse, produceRespV0Is, produceRespV2From, h0, hv, if_true, if_false] at hg
    injection hg with hg
    rw [← hg]; exact gen_decodeProduceResponseV2 data

/-- non-vacuity: the model does return a generator for versions 0 and 2 -/
example (data : Bytes) : (∃ g, decodeProduceResponse data 0 = .ok g) ∧ (∃ g, decodeProduceResponse data 2 = .ok g) :=
  ⟨⟨_, rfl⟩, ⟨_, rfl⟩⟩

/-- `afkak.codec.snappy_decode`, xerial branch (model `Afkak/Wire/Xerial.lean`, `snappy.decompress` a
    parameter): the block size is used unchecked; the 20-byte payload header + int32(-4) makes the
    `while cursor < length` loop return to the same cursor, so with a decompressor that accepts the
    empty string the loop uses up ANY fuel (never ends).  Replayed on the real loop with a stub
    decompressor (see `AfkakProofs/Wire/Xerial.lean`). -/
theorem C05_xerial_negative_block_spins (decompress : Bytes → R Bytes) (h : decompress [] = .ok []) (fuel : Nat) :
    snappyDecode decompress fuel (xerialHeader ++ [0xFF, 0xFF, 0xFF, 0xFC]) = .error .fuel :=
  xerial_negative_block_spins decompress h fuel

/-- the xerial framing of `snappy_encode(.., xerial_compatible=True)` / `snappy_decode` round-trips, for any
    compressor / decompressor pair that round-trips and any chunking (model `Afkak/Wire/Xerial.lean`, compared
    with the real functions through a stub `snappy` module on every run: python-snappy is absent) -/
theorem C05_snappy_xerial_roundtrip : C05_snappy_xerial_roundtrip_stmt :=
  fun compress decompress chunks hinv hfit => snappy_xerial_roundtrip compress decompress chunks hinv hfit

/-- non-vacuity: the identity "compressor" and two chunks -/
example : snappyDecode (fun b => .ok b) 3 (xerialEncode id [[1, 2, 3], [4]]) = .ok [1, 2, 3, 4] := by decide

end Afkak.Props.C05

/- OBLIGATIONS
C05_absolute_offsets_v1
C05_v1_inner_error
C05_absolute_offsets_v0
C05_msgset_roundtrip
C05_message_roundtrip
C05_gzip_roundtrip_partial
C05_gzip_roundtrip
C05_grammar_unambiguous
C05_fetch_parts_expected
C05_fetch_v0_roundtrip
C05_fetch_v2_roundtrip
C05_fetch_structure
C05_fetch_v0_roundtrip_partial
C05_fetch_v2_roundtrip_partial
C05_produce_v0_roundtrip
C05_produce_v2_roundtrip
C05_list_offsets_roundtrip
C05_offset_commit_roundtrip
C05_offset_fetch_roundtrip
C05_find_coordinator_roundtrip
C05_join_group_roundtrip
C05_sync_group_roundtrip
C05_error_only_roundtrip
C05_api_versions_roundtrip
C05_subscription_roundtrip
C05_assignment_roundtrip
C05_metadata_roundtrip
C05_correlation_id
C05_codec_mask_agree
C05_reply_version_dispatch
C05_reply_roundtrip_any_version
C05_encode_decode_identity
C05_codec_dispatch
C05_metadata_broker_limit
C05_producer_batch_roundtrip
C05_generated_read_short_bytes_eq_model
C05_generated_read_int_string_eq_model
C05_generated_read_short_ascii_eq_model
C05_generated_read_short_text_eq_model
C05_generated_relative_unpack_eq_model
C05_generated_get_response_correlation_id_eq_model
C05_generated_decode_error_only_eq_model
C05_generated_decode_sync_group_response_eq_model
C05_generated_decode_api_versions_response_eq_model
C05_generated_decode_join_group_protocol_metadata_eq_model
C05_generated_decode_join_group_response_eq_model
C05_generated_decode_sync_group_member_assignment_eq_model
C05_generated_decode_consumermetadata_response_eq_model
C05_generated_decode_metadata_response_eq_model
C05_generated_decode_offset_commit_response_eq_model
C05_generated_decode_offset_fetch_response_eq_model
C05_generated_decode_offset_response_eq_model
C05_generated_decode_produce_response_eq_model
C05_xerial_negative_block_spins
C05_snappy_xerial_roundtrip
-/
/- OPEN_STATEMENTS
-/
