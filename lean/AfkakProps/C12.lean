import Afkak.Monitor.C12
import AfkakProofs.Crc.Table
/-!
# C12 — corrupted or truncated message data is never delivered; decoding is linear
Property theorems only; helper lemmas live in `AfkakProofs/Crc/`.
-/
namespace Afkak.Props.C12
open Afkak.Crc32

/-- The byte-table CRC the decoder model runs is the bit-serial LFSR definition. -/
theorem C12_crc_table (data : List UInt8) : crc32 data = crcSpec data :=
  crc32_eq_crcSpec data

/-- Two bit strings that differ only inside one window of at most 32 consecutive bits have
    different CRC-32s — every prefix, every suffix, every length. -/
theorem C12_burst_bits (pre w w' post : List Bool) (hl : w.length = w'.length)
    (h32 : w.length ≤ 32) (hne : w ≠ w') :
    crcBits (pre ++ w ++ post) ≠ crcBits (pre ++ w' ++ post) :=
  crcBits_window pre w w' post hl h32 hne

end Afkak.Props.C12

/- OBLIGATIONS
C12_crc_table
C12_burst_bits
-/
/- OPEN_STATEMENTS
-/
